"""Equivalence checks for dump_varint / encode_varint (C16 keep1).

Runs identically on the pristine tree and on the refactored one: every
observable of dump_varint (bytes, number/size/type of the individual writes,
exceptions and their messages, nothing written on rejection) and of its
callers (encode_varint, single-field messages, delimited dump) is compared with
an independent reference encoder and with google.protobuf's varint encoder.
"""
import enum
import random
import struct
from dataclasses import dataclass
from io import BytesIO

import betterproto
from betterproto import (
    decode_varint,
    dump_varint,
    encode_varint,
    load_varint,
    size_varint,
)
from google.protobuf.internal import encoder as pb_encoder

MSG = (
    "Negative value is not representable as a 64-bit integer - unable to encode "
    "a varint within 10 bytes."
)


def ref_encode(v: int) -> bytes:
    """Independent reference: canonical base-128, negatives as 64-bit two's complement."""
    assert v >= -(2**63)
    if v < 0:
        v = v % (2**64)
    out = []
    while True:
        low = v % 128
        v //= 128
        if v:
            out.append(low + 128)
        else:
            out.append(low)
            return bytes(out)


class Recorder:
    """Write-only stream remembering every individual write call."""

    def __init__(self):
        self.writes = []

    def write(self, data):
        self.writes.append(data)
        return len(data)


def check(v, expected=None):
    expected = ref_encode(int(v)) if expected is None else expected
    rec = Recorder()
    assert dump_varint(v, rec) is None
    # one write per byte, each a real 1-byte `bytes` object, in order
    assert len(rec.writes) == len(expected), (v, rec.writes)
    for w, e in zip(rec.writes, expected):
        assert type(w) is bytes and len(w) == 1 and w[0] == e, (v, rec.writes)
    enc = encode_varint(v)
    assert type(enc) is bytes and enc == expected, (v, enc, expected)
    assert size_varint(v) == len(expected), v
    # continuation bits: all but the last byte have the high bit set
    assert all(b & 0x80 for b in enc[:-1]) and not enc[-1] & 0x80
    return enc


def values():
    for v in range(0, 1 << 17):  # exhaustive low range
        yield v
    for v in range(-(1 << 12), 0):
        yield v
    for k in range(1, 75):  # around every power of two (covers 7/32/64-bit edges)
        for d in range(-3, 4):
            yield (1 << k) + d
            if -(1 << k) + d >= -(2**63):
                yield -(1 << k) + d
    for k in range(7, 71, 7):
        for d in range(-130, 131):
            yield (1 << k) + d
    rnd = random.Random(1612)
    for _ in range(40000):
        yield rnd.getrandbits(rnd.randint(1, 64))
    for _ in range(20000):
        yield -rnd.getrandbits(rnd.randint(1, 63))
    for _ in range(2000):
        yield rnd.getrandbits(rnd.randint(65, 200))  # beyond 64 bits: still encoded
    yield -(2**63)
    yield 2**64 - 1
    yield 2**64
    yield 2**63
    yield 2**63 - 1


count = 0
for v in values():
    if v < -(2**63):
        continue
    enc = check(v)
    count += 1
    if -(2**63) <= v < 2**64:
        assert 1 <= len(enc) <= 10
        if v < 0:
            assert len(enc) == 10 and enc[-1] == 1
            assert enc == pb_encoder._VarintBytes(v + 2**64)
            buf = []
            pb_encoder._SignedVarintEncoder()(buf.append, v)
            assert b"".join(buf) == enc
        else:
            assert enc == pb_encoder._VarintBytes(v)
        # inverse functions
        want = v % 2**64
        assert decode_varint(enc, 0) == (want, len(enc))
        assert decode_varint(b"\xff" + enc + b"\x00", 1) == (want, 1 + len(enc))
        assert load_varint(BytesIO(enc)) == (want, enc)
    else:
        assert len(enc) >= 10

# specific byte strings
assert encode_varint(0) == b"\x00"
assert encode_varint(1) == b"\x01"
assert encode_varint(127) == b"\x7f"
assert encode_varint(128) == b"\x80\x01"
assert encode_varint(300) == b"\xac\x02"
assert encode_varint(2**64 - 1) == b"\xff" * 9 + b"\x01"
assert encode_varint(-1) == b"\xff" * 9 + b"\x01"
assert encode_varint(-(2**63)) == b"\x80" * 9 + b"\x01"
assert encode_varint(2**63) == b"\x80" * 9 + b"\x01"
assert encode_varint(2**64) == b"\x80" * 9 + b"\x02"
assert encode_varint(2**70) == b"\x80" * 10 + b"\x01"

# int subclasses: bool, IntEnum, betterproto.Enum
check(True, b"\x01")
check(False, b"\x00")


class Plain(enum.IntEnum):
    NEG = -5
    ZERO = 0
    BIG = 1 << 40


class Colour(betterproto.Enum):
    NEG = -7
    ZERO = 0
    RED = 300


for member in list(Plain) + list(Colour):
    check(member, ref_encode(int(member)))

# rejection below -2**63: same exception type and message, nothing written
rnd = random.Random(7)
for v in [-(2**63) - 1, -(2**63) - 2, -(2**64), -(2**64) - 1, -(2**100)] + [
    -(2**63) - 1 - rnd.getrandbits(rnd.randint(1, 90)) for _ in range(500)
]:
    rec = Recorder()
    try:
        dump_varint(v, rec)
    except ValueError as exc:
        assert type(exc) is ValueError and exc.args == (MSG,), exc.args
    else:
        raise AssertionError(v)
    assert rec.writes == []
    try:
        encode_varint(v)
    except ValueError as exc:
        assert exc.args == (MSG,)
    else:
        raise AssertionError(v)

# non-numeric input is a TypeError and writes nothing
for bad in (None, "1", b"\x01", [1]):
    rec = Recorder()
    try:
        dump_varint(bad, rec)
    except TypeError:
        pass
    else:
        raise AssertionError(bad)
    assert rec.writes == []

# an exception raised by the stream propagates from the very first write


class Boom(Exception):
    pass


class FailingStream:
    def __init__(self, ok):
        self.ok = ok
        self.writes = []

    def write(self, data):
        if len(self.writes) >= self.ok:
            raise Boom()
        self.writes.append(data)


for v in (0, 127, 128, 2**35, -1):
    full = ref_encode(v)
    for ok in range(len(full)):
        fs = FailingStream(ok)
        try:
            dump_varint(v, fs)
        except Boom:
            pass
        else:
            raise AssertionError((v, ok))
        assert b"".join(fs.writes) == full[:ok]

# several varints into one stream are simply concatenated
stream = BytesIO()
seq = [0, 1, 127, 128, 16383, 16384, -1, 2**32, 2**64 - 1, -(2**63)]
for v in seq:
    dump_varint(v, stream)
assert stream.getvalue() == b"".join(ref_encode(v) for v in seq)
pos = 0
for v in seq:
    got, pos = decode_varint(stream.getvalue(), pos)
    assert got == v % 2**64
assert pos == len(stream.getvalue())

# callers: single-field messages of every varint-based kind, and delimited dump


@dataclass(eq=False, repr=False)
class Scalars(betterproto.Message):
    i32: int = betterproto.int32_field(1)
    i64: int = betterproto.int64_field(2)
    u32: int = betterproto.uint32_field(3)
    u64: int = betterproto.uint64_field(4)
    s32: int = betterproto.sint32_field(5)
    s64: int = betterproto.sint64_field(6)
    b: bool = betterproto.bool_field(7)
    f32: int = betterproto.fixed32_field(9)
    d: float = betterproto.double_field(10)
    s: str = betterproto.string_field(11)
    big: int = betterproto.uint64_field(3000)


def zz(v):
    return (v << 1) ^ (v >> 63)


rnd = random.Random(99)
edge32 = [0, 1, -1, 127, 128, -128, -129, 2**31 - 1, -(2**31), 16383, 16384]
edge64 = edge32 + [2**31, 2**32, 2**63 - 1, -(2**63), 2**35, -(2**35)]
for _ in range(3000):
    i32 = rnd.choice(edge32 + [rnd.randint(-(2**31), 2**31 - 1)])
    i64 = rnd.choice(edge64 + [rnd.randint(-(2**63), 2**63 - 1)])
    u32 = rnd.choice([0, 1, 127, 128, 2**32 - 1, rnd.getrandbits(32)])
    u64 = rnd.choice([0, 1, 2**64 - 1, 2**63, rnd.getrandbits(64)])
    s32 = rnd.choice(edge32 + [rnd.randint(-(2**31), 2**31 - 1)])
    s64 = rnd.choice(edge64 + [rnd.randint(-(2**63), 2**63 - 1)])
    flag = rnd.random() < 0.5
    big = rnd.getrandbits(rnd.randint(0, 64))
    f32 = rnd.getrandbits(32)
    d = rnd.uniform(-1e9, 1e9)
    s = "x" * rnd.choice([0, 1, 127, 128, 300])
    m = Scalars(
        i32=i32, i64=i64, u32=u32, u64=u64, s32=s32, s64=s64, b=flag, big=big,
        f32=f32, d=d, s=s,
    )
    exp = b""
    for num, val in ((1, i32), (2, i64), (3, u32), (4, u64), (5, zz(s32)), (6, zz(s64)), (7, int(flag))):
        if val:
            exp += ref_encode(num << 3) + ref_encode(val)
    if f32:
        exp += ref_encode((9 << 3) | 5) + struct.pack("<I", f32)
    if d:
        exp += ref_encode((10 << 3) | 1) + struct.pack("<d", d)
    if s:
        exp += ref_encode((11 << 3) | 2) + ref_encode(len(s)) + s.encode()
    if big:
        exp += ref_encode(3000 << 3) + ref_encode(big)
    assert bytes(m) == exp, (m, bytes(m), exp)
    assert len(m) == len(exp)
    out = BytesIO()
    m.dump(out, betterproto.SIZE_DELIMITED)
    assert out.getvalue() == ref_encode(len(exp)) + exp
    back = Scalars().load(BytesIO(out.getvalue()), betterproto.SIZE_DELIMITED)
    assert back == m

# out-of-range field value: ValueError from the varint encoder
try:
    bytes(Scalars(i64=-(2**63) - 1))
except ValueError as exc:
    assert exc.args == (MSG,)
else:
    raise AssertionError

print(f"keep1 equiv OK ({count} values)")
