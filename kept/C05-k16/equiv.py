"""C05 keep2 equivalence check: Message.__bool__ (asked by to_dict to decide whether a
sub-message filled in place is emitted) on every field kind, construction path and nesting
level, plus both directions of the property against google.protobuf.json_format on random
messages. Runs unchanged (exit 0) on the pristine tree and with the refactor applied."""
# ---------------------------------------------------------------------------------
# Shared harness: a wide betterproto message class, the same schema for
# google.protobuf (built from a FileDescriptorProto, no protoc needed), a random
# generator of reference messages and the two C05 checks.
# ---------------------------------------------------------------------------------
import json
import math
import random
import struct
from dataclasses import dataclass
from datetime import datetime, timedelta, timezone
from typing import Dict, List, Optional

from google.protobuf import (
    descriptor_pb2,
    descriptor_pool,
    duration_pb2,
    json_format,
    message_factory,
    timestamp_pb2,
    wrappers_pb2,
)

import betterproto


class Color(betterproto.Enum):
    BLACK = 0
    RED = 1
    GREEN = 2
    NEGATIVE = -1
    BIG = 2147483647


@dataclass(eq=False, repr=False)
class Child(betterproto.Message):
    name: str = betterproto.string_field(1)
    tags: List[str] = betterproto.string_field(2)
    big: int = betterproto.int64_field(3)
    kid: "Child" = betterproto.message_field(4)


@dataclass(eq=False, repr=False)
class Big(betterproto.Message):
    i32: int = betterproto.int32_field(1)
    i64: int = betterproto.int64_field(2)
    u64: int = betterproto.uint64_field(3)
    s64: int = betterproto.sint64_field(4)
    f64: int = betterproto.fixed64_field(5)
    sf64: int = betterproto.sfixed64_field(6)
    d: float = betterproto.double_field(7)
    f: float = betterproto.float_field(8)
    b: bool = betterproto.bool_field(9)
    s: str = betterproto.string_field(10)
    by: bytes = betterproto.bytes_field(11)
    e: "Color" = betterproto.enum_field(12)
    child: "Child" = betterproto.message_field(13)
    ts: datetime = betterproto.message_field(14)
    du: timedelta = betterproto.message_field(15)
    r_i64: List[int] = betterproto.int64_field(16)
    r_d: List[float] = betterproto.double_field(17)
    r_by: List[bytes] = betterproto.bytes_field(18)
    r_e: List["Color"] = betterproto.enum_field(19)
    r_child: List["Child"] = betterproto.message_field(20)
    r_ts: List[datetime] = betterproto.message_field(21)
    r_du: List[timedelta] = betterproto.message_field(22)
    m_s_i64: Dict[str, int] = betterproto.map_field(23, "string", "int64")
    m_i32_s: Dict[int, str] = betterproto.map_field(24, "int32", "string")
    m_b_by: Dict[bool, bytes] = betterproto.map_field(25, "bool", "bytes")
    m_i64_d: Dict[int, float] = betterproto.map_field(26, "int64", "double")
    m_s_e: Dict[str, "Color"] = betterproto.map_field(27, "string", "enum")
    m_s_child: Dict[str, "Child"] = betterproto.map_field(28, "string", "message")
    m_s_ts: Dict[str, datetime] = betterproto.map_field(29, "string", "message")
    m_s_du: Dict[str, timedelta] = betterproto.map_field(30, "string", "message")
    o_i: int = betterproto.int32_field(31, group="g")
    o_s: str = betterproto.string_field(32, group="g")
    o_child: "Child" = betterproto.message_field(33, group="g")
    o_d: float = betterproto.double_field(34, group="g")
    o_e: "Color" = betterproto.enum_field(43, group="g")
    o_u64: int = betterproto.uint64_field(44, group="g")
    opt_i: Optional[int] = betterproto.int32_field(35, optional=True)
    opt_s: Optional[str] = betterproto.string_field(36, optional=True)
    opt_i64: Optional[int] = betterproto.int64_field(45, optional=True)
    opt_child: Optional["Child"] = betterproto.message_field(46, optional=True)
    w_i64: Optional[int] = betterproto.message_field(37, wraps=betterproto.TYPE_INT64)
    w_d: Optional[float] = betterproto.message_field(38, wraps=betterproto.TYPE_DOUBLE)
    w_by: Optional[bytes] = betterproto.message_field(39, wraps=betterproto.TYPE_BYTES)
    w_b: Optional[bool] = betterproto.message_field(40, wraps=betterproto.TYPE_BOOL)
    from_: int = betterproto.int32_field(41)
    address_line_1: str = betterproto.string_field(42)


def _build_reference():
    F = descriptor_pb2.FieldDescriptorProto
    fdp = descriptor_pb2.FileDescriptorProto(
        name=f"c05_equiv_{random.getrandbits(40)}.proto", package="c05eq", syntax="proto3"
    )
    fdp.dependency.extend(
        [
            "google/protobuf/timestamp.proto",
            "google/protobuf/duration.proto",
            "google/protobuf/wrappers.proto",
        ]
    )
    en = fdp.enum_type.add(name="Color")
    for n, v in [("BLACK", 0), ("RED", 1), ("GREEN", 2), ("NEGATIVE", -1), ("BIG", 2147483647)]:
        en.value.add(name=n, number=v)

    def camel(name):
        parts = name.split("_")
        return parts[0] + "".join(p[:1].upper() + p[1:] for p in parts[1:])

    def add(msg, name, number, ftype, label=F.LABEL_OPTIONAL, type_name=None, **kw):
        fld = msg.field.add(name=name, number=number, type=ftype, label=label,
                            json_name=camel(name), **kw)
        if type_name:
            fld.type_name = type_name
        return fld

    child = fdp.message_type.add(name="Child")
    add(child, "name", 1, F.TYPE_STRING)
    add(child, "tags", 2, F.TYPE_STRING, F.LABEL_REPEATED)
    add(child, "big", 3, F.TYPE_INT64)
    add(child, "kid", 4, F.TYPE_MESSAGE, type_name=".c05eq.Child")

    big = fdp.message_type.add(name="Big")
    TS, DU = ".google.protobuf.Timestamp", ".google.protobuf.Duration"
    scalars = [
        ("i32", 1, F.TYPE_INT32), ("i64", 2, F.TYPE_INT64), ("u64", 3, F.TYPE_UINT64),
        ("s64", 4, F.TYPE_SINT64), ("f64", 5, F.TYPE_FIXED64), ("sf64", 6, F.TYPE_SFIXED64),
        ("d", 7, F.TYPE_DOUBLE), ("f", 8, F.TYPE_FLOAT), ("b", 9, F.TYPE_BOOL),
        ("s", 10, F.TYPE_STRING), ("by", 11, F.TYPE_BYTES),
    ]
    for n, num, t in scalars:
        add(big, n, num, t)
    add(big, "e", 12, F.TYPE_ENUM, type_name=".c05eq.Color")
    add(big, "child", 13, F.TYPE_MESSAGE, type_name=".c05eq.Child")
    add(big, "ts", 14, F.TYPE_MESSAGE, type_name=TS)
    add(big, "du", 15, F.TYPE_MESSAGE, type_name=DU)
    R = F.LABEL_REPEATED
    add(big, "r_i64", 16, F.TYPE_INT64, R)
    add(big, "r_d", 17, F.TYPE_DOUBLE, R)
    add(big, "r_by", 18, F.TYPE_BYTES, R)
    add(big, "r_e", 19, F.TYPE_ENUM, R, type_name=".c05eq.Color")
    add(big, "r_child", 20, F.TYPE_MESSAGE, R, type_name=".c05eq.Child")
    add(big, "r_ts", 21, F.TYPE_MESSAGE, R, type_name=TS)
    add(big, "r_du", 22, F.TYPE_MESSAGE, R, type_name=DU)

    def add_map(name, number, ktype, vtype, vtype_name=None):
        entry_name = camel(name)[:1].upper() + camel(name)[1:] + "Entry"
        entry = big.nested_type.add(name=entry_name)
        entry.options.map_entry = True
        add(entry, "key", 1, ktype)
        add(entry, "value", 2, vtype, type_name=vtype_name)
        add(big, name, number, F.TYPE_MESSAGE, R, type_name=f".c05eq.Big.{entry_name}")

    add_map("m_s_i64", 23, F.TYPE_STRING, F.TYPE_INT64)
    add_map("m_i32_s", 24, F.TYPE_INT32, F.TYPE_STRING)
    add_map("m_b_by", 25, F.TYPE_BOOL, F.TYPE_BYTES)
    add_map("m_i64_d", 26, F.TYPE_INT64, F.TYPE_DOUBLE)
    add_map("m_s_e", 27, F.TYPE_STRING, F.TYPE_ENUM, ".c05eq.Color")
    add_map("m_s_child", 28, F.TYPE_STRING, F.TYPE_MESSAGE, ".c05eq.Child")
    add_map("m_s_ts", 29, F.TYPE_STRING, F.TYPE_MESSAGE, TS)
    add_map("m_s_du", 30, F.TYPE_STRING, F.TYPE_MESSAGE, DU)

    big.oneof_decl.add(name="g")  # index 0
    add(big, "o_i", 31, F.TYPE_INT32, oneof_index=0)
    add(big, "o_s", 32, F.TYPE_STRING, oneof_index=0)
    add(big, "o_child", 33, F.TYPE_MESSAGE, type_name=".c05eq.Child", oneof_index=0)
    add(big, "o_d", 34, F.TYPE_DOUBLE, oneof_index=0)
    add(big, "o_e", 43, F.TYPE_ENUM, type_name=".c05eq.Color", oneof_index=0)
    add(big, "o_u64", 44, F.TYPE_UINT64, oneof_index=0)
    # proto3 optional = a synthetic one-member oneof each (declared after real oneofs)
    for idx, (n, num, t, tn) in enumerate(
        [("opt_i", 35, F.TYPE_INT32, None), ("opt_s", 36, F.TYPE_STRING, None),
         ("opt_i64", 45, F.TYPE_INT64, None), ("opt_child", 46, F.TYPE_MESSAGE, ".c05eq.Child")],
        start=1,
    ):
        big.oneof_decl.add(name=f"_{n}")
        add(big, n, num, t, type_name=tn, oneof_index=idx, proto3_optional=True)
    add(big, "w_i64", 37, F.TYPE_MESSAGE, type_name=".google.protobuf.Int64Value")
    add(big, "w_d", 38, F.TYPE_MESSAGE, type_name=".google.protobuf.DoubleValue")
    add(big, "w_by", 39, F.TYPE_MESSAGE, type_name=".google.protobuf.BytesValue")
    add(big, "w_b", 40, F.TYPE_MESSAGE, type_name=".google.protobuf.BoolValue")
    add(big, "from", 41, F.TYPE_INT32)
    add(big, "address_line_1", 42, F.TYPE_STRING)

    pool = descriptor_pool.DescriptorPool()
    for dep in (timestamp_pb2, duration_pb2, wrappers_pb2):
        pool.AddSerializedFile(dep.DESCRIPTOR.serialized_pb)
    pool.Add(fdp)
    get = lambda n: message_factory.GetMessageClass(pool.FindMessageTypeByName(n))  # noqa: E731
    return get("c05eq.Big"), get("c05eq.Child")


RefBig, RefChild = _build_reference()

I64 = [0, 1, -1, 2**31, -(2**31) - 1, 2**53, 2**53 + 1, -(2**53) - 1, 2**63 - 1, -(2**63)]
U64 = [0, 1, 2**32, 2**53 + 1, 2**63, 2**64 - 1]
I32 = [0, 1, -1, 2**31 - 1, -(2**31), 12345]
DBL = [0.0, -0.0, 1.0, -1.5, 0.1, 1e-310, 5e-324, 1.7976931348623157e308, 1e22, 123456789.125,
       math.inf, -math.inf, math.nan, 2.0**53, 1 / 3]
STR = ["", "a", "hello world", "éè", "中文", "\U0001F600", 'q"uo\\te', "\n\t\x00\x7f",
       "true", "1", "NaN", "</script>"]
BYT = [b"", b"\x00", b"\xff\xfe\xfd", b"hello", bytes(range(256)), b"\xfb\xff", b"a" * 100, b">>>???"]
ENUMS = [0, 1, 2, -1, 2147483647]
ENUMS_OPEN = ENUMS + [7, -5, 100000]
KEYS = ["", "a", "k", "key with space", "ü", "1", "true", "x" * 40]
TS_SECONDS_MIN, TS_SECONDS_MAX = -62135596800, 253402300799
DU_MAX = 315576000000


def f32(rng):
    x = rng.choice([0.0, -0.0, 1.0, 0.1, -2.5, 3.4028234663852886e38, 1e-45, 1.17549435e-38,
                    math.inf, -math.inf, math.nan, rng.uniform(-1e6, 1e6), rng.uniform(-1, 1)])
    return struct.unpack("<f", struct.pack("<f", x))[0]


def dbl(rng):
    return rng.choice(DBL + [rng.uniform(-1e9, 1e9), rng.random(), rng.uniform(-1e300, 1e300)])


def nz(x):
    """Singular implicit-presence fields: betterproto (like every proto3 runtime's
    'is default' test by ==) does not keep a negative zero there; out of scope here."""
    return 0.0 if x == 0 else x


def i64(rng):
    return rng.choice(I64 + [rng.randrange(-(2**63), 2**63)])


def u64(rng):
    return rng.choice(U64 + [rng.randrange(0, 2**64)])


def fill_ts(rng, ts):
    kind = rng.randrange(6)
    if kind == 0:
        ts.seconds, ts.nanos = 0, 0
    elif kind == 1:
        ts.seconds, ts.nanos = rng.choice([TS_SECONDS_MIN, TS_SECONDS_MAX, -1, 1]), 0
    elif kind == 2:
        ts.seconds = rng.choice([TS_SECONDS_MIN, TS_SECONDS_MAX, -1, 0])
        ts.nanos = rng.choice([999999000, 1000, 500000000, 123000000])
    else:
        ts.seconds = rng.randrange(TS_SECONDS_MIN, TS_SECONDS_MAX + 1)
        ts.nanos = rng.choice([0, rng.randrange(1000) * 1000000, rng.randrange(1000000) * 1000])


def fill_du(rng, du):
    kind = rng.randrange(6)
    sign = rng.choice([1, -1])
    if kind == 0:
        seconds, micros = 0, 0
    elif kind == 1:
        seconds, micros = rng.choice([DU_MAX, 1, 0]), rng.choice([0, 999999, 1, 500000])
        if seconds == DU_MAX:
            micros = 0
    elif kind == 2:
        seconds, micros = 0, rng.choice([1, 999, 1000, 999999, 500000])
    else:
        seconds = rng.randrange(0, rng.choice([100, 10**6, DU_MAX]))
        micros = rng.choice([0, rng.randrange(1000) * 1000, rng.randrange(1000000)])
    du.seconds, du.nanos = sign * seconds, sign * micros * 1000


def fill_child(rng, c, depth=0):
    if rng.random() < 0.7:
        c.name = rng.choice(STR)
    if rng.random() < 0.5:
        c.tags.extend(rng.choice(STR) for _ in range(rng.randrange(1, 4)))
    if rng.random() < 0.5:
        c.big = i64(rng)
    if depth < 3 and rng.random() < 0.4:
        if rng.random() < 0.2:
            c.kid.SetInParent()  # present but empty
        else:
            fill_child(rng, c.kid, depth + 1)


def random_reference(rng, open_enums=True, density=0.35):
    m = RefBig()
    enums = ENUMS_OPEN if open_enums else ENUMS
    p = lambda: rng.random() < density  # noqa: E731
    if p(): m.i32 = rng.choice(I32)
    if p(): m.i64 = i64(rng)
    if p(): m.u64 = u64(rng)
    if p(): m.s64 = i64(rng)
    if p(): m.f64 = u64(rng)
    if p(): m.sf64 = i64(rng)
    if p(): m.d = nz(dbl(rng))
    if p(): m.f = nz(f32(rng))
    if p(): m.b = rng.choice([True, False])
    if p(): m.s = rng.choice(STR)
    if p(): m.by = rng.choice(BYT + [rng.randbytes(rng.randrange(0, 40))])
    if p(): m.e = rng.choice(enums)
    if p():
        if rng.random() < 0.2:
            m.child.SetInParent()
        else:
            fill_child(rng, m.child)
    if p():
        fill_ts(rng, m.ts)
        if m.ts.seconds == 0 and m.ts.nanos == 0:
            m.ClearField("ts")  # betterproto holds a plain datetime: epoch == unset
    if p():
        fill_du(rng, m.du)
        if m.du.seconds == 0 and m.du.nanos == 0:
            m.ClearField("du")  # plain timedelta: zero == unset
    if p(): m.r_i64.extend(i64(rng) for _ in range(rng.randrange(1, 5)))
    if p(): m.r_d.extend(dbl(rng) for _ in range(rng.randrange(1, 5)))
    if p(): m.r_by.extend(rng.choice(BYT) for _ in range(rng.randrange(1, 4)))
    if p(): m.r_e.extend(rng.choice(enums) for _ in range(rng.randrange(1, 5)))
    if p():
        for _ in range(rng.randrange(1, 4)):
            fill_child(rng, m.r_child.add())
    if p():
        for _ in range(rng.randrange(1, 4)):
            fill_ts(rng, m.r_ts.add())
    if p():
        for _ in range(rng.randrange(1, 4)):
            fill_du(rng, m.r_du.add())
    if p():
        for _ in range(rng.randrange(1, 4)):
            m.m_s_i64[rng.choice(KEYS)] = i64(rng)
    if p():
        for _ in range(rng.randrange(1, 4)):
            m.m_i32_s[rng.choice(I32)] = rng.choice(STR)
    if p():
        for _ in range(rng.randrange(1, 3)):
            m.m_b_by[rng.choice([True, False])] = rng.choice(BYT)
    if p():
        for _ in range(rng.randrange(1, 4)):
            m.m_i64_d[i64(rng)] = dbl(rng)
    if p():
        for _ in range(rng.randrange(1, 4)):
            m.m_s_e[rng.choice(KEYS)] = rng.choice(enums)
    if p():
        for _ in range(rng.randrange(1, 3)):
            fill_child(rng, m.m_s_child[rng.choice(KEYS)])
    if p():
        for _ in range(rng.randrange(1, 3)):
            fill_ts(rng, m.m_s_ts[rng.choice(KEYS)])
    if p():
        for _ in range(rng.randrange(1, 3)):
            fill_du(rng, m.m_s_du[rng.choice(KEYS)])
    which = rng.randrange(10)
    if which == 0: m.o_i = rng.choice(I32)
    elif which == 1: m.o_s = rng.choice(STR)
    elif which == 2:
        if rng.random() < 0.3:
            m.o_child.SetInParent()
        else:
            fill_child(rng, m.o_child)
    elif which == 3: m.o_d = dbl(rng)
    elif which == 4: m.o_e = rng.choice(enums)
    elif which == 5: m.o_u64 = u64(rng)
    if p(): m.opt_i = rng.choice(I32)
    if p(): m.opt_s = rng.choice(STR)
    if p(): m.opt_i64 = i64(rng)
    if p():
        if rng.random() < 0.3:
            m.opt_child.SetInParent()
        else:
            fill_child(rng, m.opt_child)
    if p(): m.w_i64.value = i64(rng)
    if p(): m.w_d.value = nz(dbl(rng))
    if p(): m.w_by.value = rng.choice(BYT)
    if p(): m.w_b.value = rng.choice([True, False])
    if p(): setattr(m, "from", rng.choice(I32))
    if p(): m.address_line_1 = rng.choice(STR)
    return m


def canon(ref_msg):
    return ref_msg.SerializeToString(deterministic=True)


def check_c05(ref_msg):
    """Both directions of the property for one message value."""
    want = canon(ref_msg)
    bp = Big().parse(ref_msg.SerializeToString())
    assert canon(RefBig.FromString(bytes(bp))) == want, "wire round trip (precondition)"
    # betterproto JSON -> reference parser
    text = bp.to_json()
    assert canon(json_format.Parse(text, RefBig())) == want, ("to_json", text)
    # reference JSON -> betterproto
    ref_text = json_format.MessageToJson(ref_msg)
    got = Big().from_json(ref_text)
    assert canon(RefBig.FromString(bytes(got))) == want, ("from_json", ref_text)
    got2 = Big.from_dict(json.loads(ref_text))
    assert canon(RefBig.FromString(bytes(got2))) == want, ("from_dict", ref_text)
    # and betterproto reading its own text
    got3 = Big().from_json(text)
    assert canon(RefBig.FromString(bytes(got3))) == want, ("own json", text)
    return bp, text, ref_text


# ---------------------------------------------------------------------------------
# keep2: Message.__bool__ ("has any field a non-default value?"), which to_dict asks
# to decide whether a sub-message that was filled in place is emitted
# ---------------------------------------------------------------------------------
import copy

UTC = timezone.utc
EPOCH = datetime(1970, 1, 1, tzinfo=UTC)

# (field, value, expected bool(Big(field=value)))
CONSTRUCTOR_CASES = [
    ("i32", 0, False), ("i32", 1, True), ("i32", -1, True),
    ("i64", 0, False), ("i64", 2**63 - 1, True),
    ("u64", 0, False), ("u64", 2**64 - 1, True),
    ("s64", 0, False), ("s64", -1, True),
    ("f64", 0, False), ("f64", 1, True),
    ("sf64", 0, False), ("sf64", -(2**63), True),
    ("d", 0.0, False), ("d", -0.0, False), ("d", 0, False), ("d", 5e-324, True),
    ("d", math.nan, True), ("d", math.inf, True), ("d", -math.inf, True),
    ("f", 0.0, False), ("f", -0.0, False), ("f", 1.5, True), ("f", math.nan, True),
    ("b", False, False), ("b", True, True), ("b", 0, False),
    ("s", "", False), ("s", "x", True), ("s", "\x00", True),
    ("by", b"", False), ("by", bytearray(), False), ("by", b"\x00", True),
    ("e", Color.BLACK, False), ("e", 0, False), ("e", Color.RED, True), ("e", 7, True),
    ("e", Color.NEGATIVE, True), ("e", Color.try_value(9), True), ("e", Color.try_value(0), False),
    ("child", Child(), False), ("child", Child(name=""), False), ("child", Child(name="x"), True),
    ("child", Child(tags=[]), False), ("child", Child(tags=[""]), True),
    ("child", Child(kid=Child()), False), ("child", Child(kid=Child(big=1)), True),
    ("ts", EPOCH, False), ("ts", EPOCH + timedelta(microseconds=1), True),
    ("ts", datetime(1970, 1, 1, 2, tzinfo=timezone(timedelta(hours=2))), False),
    ("ts", datetime(1, 1, 1, tzinfo=UTC), True),
    ("du", timedelta(0), False), ("du", timedelta(microseconds=-1), True),
    ("r_i64", [], False), ("r_i64", [0], True),
    ("r_d", [], False), ("r_d", [-0.0], True), ("r_d", [math.nan], True),
    ("r_by", [], False), ("r_by", [b""], True),
    ("r_e", [], False), ("r_e", [Color.BLACK], True),
    ("r_child", [], False), ("r_child", [Child()], True),
    ("r_ts", [], False), ("r_ts", [EPOCH], True),
    ("r_du", [], False), ("r_du", [timedelta(0)], True),
    ("m_s_i64", {}, False), ("m_s_i64", {"": 0}, True),
    ("m_i32_s", {}, False), ("m_i32_s", {0: ""}, True),
    ("m_b_by", {}, False), ("m_b_by", {False: b""}, True),
    ("m_i64_d", {}, False), ("m_i64_d", {0: 0.0}, True),
    ("m_s_e", {}, False), ("m_s_e", {"": Color.BLACK}, True),
    ("m_s_child", {}, False), ("m_s_child", {"": Child()}, True),
    ("m_s_ts", {}, False), ("m_s_ts", {"": EPOCH}, True),
    ("m_s_du", {}, False), ("m_s_du", {"": timedelta(0)}, True),
    # oneof members: a selected member holding its default value is *set* (and goes to
    # the wire and to JSON) but is not a non-default value
    ("o_i", 0, False), ("o_i", 3, True),
    ("o_s", "", False), ("o_s", "x", True),
    ("o_child", Child(), False), ("o_child", Child(name="c"), True),
    ("o_d", 0.0, False), ("o_d", -0.0, False), ("o_d", math.nan, True),
    ("o_e", Color.BLACK, False), ("o_e", Color.GREEN, True),
    ("o_u64", 0, False), ("o_u64", 1, True),
    # proto3 optional / wrappers: the default is None, so any value counts
    ("opt_i", None, False), ("opt_i", 0, True), ("opt_i", 5, True),
    ("opt_s", None, False), ("opt_s", "", True),
    ("opt_i64", None, False), ("opt_i64", 0, True),
    ("opt_child", None, False), ("opt_child", Child(), True),
    ("w_i64", None, False), ("w_i64", 0, True), ("w_i64", -1, True),
    ("w_d", None, False), ("w_d", 0.0, True), ("w_d", math.nan, True),
    ("w_by", None, False), ("w_by", b"", True),
    ("w_b", None, False), ("w_b", False, True), ("w_b", True, True),
    ("from_", 0, False), ("from_", 1, True),
    ("address_line_1", "", False), ("address_line_1", "a", True),
]


def agree_with_reference(m):
    """C05 for a hand-built betterproto message: its JSON, read by the reference
    parser, is the message its wire form denotes; the reference's JSON is read back."""
    want = RefBig.FromString(bytes(m))
    text = m.to_json()
    assert canon(json_format.Parse(text, RefBig())) == canon(want), text
    back = Big().from_json(json_format.MessageToJson(want))
    assert canon(RefBig.FromString(bytes(back))) == canon(want), text
    return text


def targeted_bool_checks():
    assert bool(Big()) is False and bool(Child()) is False
    assert set(f for f, _, _ in CONSTRUCTOR_CASES) == set(Big._betterproto.meta_by_field_name)

    for field, value, expected in CONSTRUCTOR_CASES:
        m = Big(**{field: copy.deepcopy(value)})
        assert bool(m) is expected, ("constructor", field, value)
        n = Big()
        setattr(n, field, copy.deepcopy(value))
        assert bool(n) is expected, ("setattr", field, value)
        assert bool(copy.deepcopy(m)) is expected and bool(copy.copy(m)) is expected
        if not (isinstance(value, float) and value == 0 and math.copysign(1, value) < 0):
            if value is not None and not (field == "ts" and value.utcoffset()):
                assert bool(Big().parse(bytes(m))) is expected, ("wire", field, value)
        # one non-default field anywhere makes the whole message true, wherever it is
        # declared relative to the field under test
        for other in ("i32", "address_line_1"):
            if other != field:
                both = Big(**{field: copy.deepcopy(value), other: 1 if other == "i32" else "z"})
                assert bool(both) is True

    # reading is not setting; filling in place is
    m = Big()
    for name in Big._betterproto.meta_by_field_name:
        try:
            getattr(m, name)
        except AttributeError:
            pass  # unselected oneof member
    assert bool(m) is False and m.to_dict() == {} and bytes(m) == b""
    m.child.kid.kid  # noqa: B018  (materialises three levels of empty children)
    assert bool(m) is False and bool(m.child) is False and m.to_dict() == {}

    m = Big()
    m.child.tags.append("x")
    assert bool(m) and bool(m.child)
    assert json.loads(agree_with_reference(m)) == {"child": {"tags": ["x"]}}

    m = Big()
    m.child.kid.kid.tags.append("deep")
    assert bool(m) and bool(m.child) and bool(m.child.kid) and bool(m.child.kid.kid)
    assert json.loads(agree_with_reference(m)) == {
        "child": {"kid": {"kid": {"tags": ["deep"]}}}
    }
    m.child.kid.kid.tags.clear()
    assert not m and not m.child and not m.child.kid
    assert m.to_dict() == {} and bytes(m) == b""

    m = Big()
    m.r_i64.append(0)
    assert bool(m)
    assert json.loads(agree_with_reference(m)) == {"rI64": ["0"]}
    m.r_i64.pop()
    assert not m

    m = Big()
    m.m_s_child["k"] = Child()
    m.m_s_child["k"].tags.append("t")
    m.m_s_i64[""] = 0
    assert bool(m)
    assert json.loads(agree_with_reference(m)) == {
        "mSChild": {"k": {"tags": ["t"]}}, "mSI64": {"": "0"}
    }

    # a oneof member selected with its default value: not "non-default", yet emitted
    for kwargs, js in [
        ({"o_i": 0}, {"oI": 0}), ({"o_s": ""}, {"oS": ""}), ({"o_child": Child()}, {"oChild": {}}),
        ({"o_d": 0.0}, {"oD": 0.0}), ({"o_e": Color.BLACK}, {"oE": "BLACK"}),
        ({"o_u64": 0}, {"oU64": "0"}),
    ]:
        m = Big(**kwargs)
        assert not m
        assert json.loads(agree_with_reference(m)) == js
        m.child.tags.append("")
        assert bool(m)
        js2 = dict(js, child={"tags": [""]})
        assert json.loads(agree_with_reference(m)) == js2
    # switching the selected member resets the others
    m = Big(o_s="x")
    assert bool(m)
    m.o_i = 0
    assert not m
    m.o_child = Child()
    m.o_child.tags.append("y")
    assert bool(m)
    assert json.loads(agree_with_reference(m)) == {"oChild": {"tags": ["y"]}}

    # filled in place inside an optional child and a oneof child
    m = Big(opt_child=Child())
    assert bool(m) and not m.opt_child
    m.opt_child.tags.append("o")
    assert bool(m.opt_child)
    assert json.loads(agree_with_reference(m)) == {"optChild": {"tags": ["o"]}}

    # truthiness of every level of random messages == "wire form is not empty or a
    # selected default oneof member / -0.0 only"
    rng = random.Random(7)
    for _ in range(300):
        ref = random_reference(rng, density=rng.choice([0.02, 0.1, 0.4]))
        bp = Big().parse(ref.SerializeToString())
        plain = RefBig.FromString(ref.SerializeToString())
        selected = plain.WhichOneof("g")
        default_oneof = False
        if selected is not None:
            v = getattr(plain, selected)
            default_oneof = (v.ByteSize() == 0) if selected == "o_child" else (v == 0 or v == "")
            if default_oneof:
                plain.ClearField(selected)
        expect = plain.ByteSize() > 0
        assert bool(bp) is expect, (ref, bool(bp))


def main():
    targeted_bool_checks()
    rng = random.Random(424242)
    n = 0
    for density in (0.05, 0.3, 0.7):
        for _ in range(350):
            ref = random_reference(rng, density=density)
            bp, text, ref_text = check_c05(ref)
            # the same message with its child replaced by one that is only ever filled
            # in place (child.tags.extend(...) on a lazily created child: no assignment,
            # presence flag off) - to_dict has to ask bool(child)
            tags = list(ref.child.tags)
            want = RefBig.FromString(ref.SerializeToString())
            want.ClearField("child")
            want.child.tags.extend(tags)
            if not tags:
                want.ClearField("child")
            rebuilt = Big().parse(ref.SerializeToString())
            object.__setattr__(rebuilt, "child", betterproto.PLACEHOLDER)
            rebuilt.child.tags.extend(tags)
            assert not betterproto.serialized_on_wire(rebuilt.child)
            assert bool(rebuilt.child) is bool(tags)
            assert canon(RefBig.FromString(bytes(rebuilt))) == canon(want)
            assert canon(json_format.Parse(rebuilt.to_json(), RefBig())) == canon(want), (
                rebuilt.to_json(), text)
            n += 1
    check_c05(RefBig())
    print(f"ok: targeted checks + {n} random messages agree with google.protobuf.json_format")


main()
