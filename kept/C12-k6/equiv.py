"""
Equivalence check for AsyncChannel.receive() (and its relation to async iteration):
results, end-of-channel reporting (None while waiting / ChannelDone when done),
cancellation, timeouts, suspension behaviour and interplay with other receivers.

Run:  PYTHONPATH=/tmp/wt/R6C12/src /venv/bin/python equiv.py
Exits 0 on the pristine tree and with the refactor applied.
"""
import asyncio
import hashlib
import itertools
import random

from betterproto.grpc.util.async_channel import (
    AsyncChannel,
    ChannelClosed,
    ChannelDone,
)


async def spin(n=6):
    for _ in range(n):
        await asyncio.sleep(0)


async def outcome(task, timeout=2):
    try:
        value = await asyncio.wait_for(asyncio.shield(task), timeout)
    except asyncio.CancelledError:
        assert task.cancelled()
        return ("cancelled",)
    except asyncio.TimeoutError:
        assert not task.done(), task
        return ("hung",)
    except BaseException as exc:  # noqa
        return ("raise", type(exc), str(exc))
    return ("ok", value)


def step(coro):
    """Advance a coroutine once by hand: ('return', v) / ('raise', exc) / ('suspended',)."""
    try:
        coro.send(None)
    except StopIteration as stop:
        return ("return", stop.value)
    except BaseException as exc:  # noqa
        return ("raise", exc)
    return ("suspended",)


ODD_ITEMS = [
    0,
    0.0,
    "",
    b"",
    False,
    True,
    (),
    [],
    {},
    None,
    StopAsyncIteration,
    StopAsyncIteration("as a value"),
    StopIteration("as a value"),
    ChannelDone("as a value"),
    asyncio.CancelledError("as a value"),
    object(),
    "text",
    12345678901234567890,
    float("nan"),
]


async def basics():
    checks = 0
    # every kind of item comes back by identity, in order, without suspending when buffered
    for limit in (0, 1, 3, len(ODD_ITEMS)):
        ch = AsyncChannel(buffer_limit=limit)
        feeder = asyncio.ensure_future(ch.send_from(ODD_ITEMS))
        await spin()
        for expected in ODD_ITEMS:
            await spin(2)
            coro = ch.receive()
            res = step(coro)
            assert res[0] == "return" and res[1] is expected, (limit, expected, res)
            checks += 1
        await asyncio.wait_for(feeder, 2)
        assert not ch.done() and not ch.closed()
        # empty and open -> blocks
        t = asyncio.ensure_future(ch.receive())
        await spin()
        assert not t.done()
        ch.close()
        assert await outcome(t) == ("ok", None)
        assert ch.done() and ch.closed()
        checks += 1

    # done channel: ChannelDone with the documented message, raised without suspending,
    # repeatedly, for empty-closed and drained-closed channels
    for prefill in (0, 1, 3):
        ch = AsyncChannel()
        await ch.send_from(range(prefill), close=True)
        await spin()
        for i in range(prefill):
            assert not ch.done()
            assert step(ch.receive()) == ("return", i)
        for _ in range(3):
            assert ch.done()
            res = step(ch.receive())
            assert res[0] == "raise" and type(res[1]) is ChannelDone, res
            assert str(res[1]) == "Cannot receive from a closed channel"
            assert res[1].__cause__ is None
            checks += 1
        try:
            await ch.send(1)
        except ChannelClosed:
            pass
        else:
            raise AssertionError("send after close accepted")
        try:
            await ch.send_from([1])
        except ChannelClosed:
            pass
        else:
            raise AssertionError("send_from after close accepted")

    # a blocked receive suspends exactly once per wake-up and yields a future
    ch = AsyncChannel()
    coro = ch.receive()
    fut = coro.send(None)
    assert asyncio.isfuture(fut) and not fut.done()
    await ch.send("wake")
    assert fut.done()
    try:
        coro.send(None)
    except StopIteration as stop:
        assert stop.value == "wake"
    else:
        raise AssertionError("receive did not finish after its wake-up")
    checks += 1

    # N blocked receivers (mixed receive / async-for), then close: all of them end,
    # receive() with None, iteration with StopAsyncIteration
    for n, limit in itertools.product((1, 2, 3, 5), (0, 1, 2)):
        for kinds in itertools.product("ri", repeat=min(n, 3)):
            kinds = (kinds * n)[:n]
            ch = AsyncChannel(buffer_limit=limit)
            tasks = [
                asyncio.ensure_future(ch.receive() if k == "r" else ch.__anext__())
                for k in kinds
            ]
            await spin()
            assert not any(t.done() for t in tasks)
            assert not ch.done()
            ch.close()
            assert ch.done()  # closed, nothing buffered
            for k, t in zip(kinds, tasks):
                res = await outcome(t)
                if k == "r":
                    assert res == ("ok", None), res
                else:
                    assert res[:2] == ("raise", StopAsyncIteration), res
            assert ch.done()
            res = step(ch.receive())
            assert res[0] == "raise" and type(res[1]) is ChannelDone
            checks += 1

    # item reserved for a blocked receiver on a closed channel: a late receiver gets
    # ChannelDone (it must not steal), the blocked one gets the item
    for kind in "ri":
        ch = AsyncChannel()
        blocked = asyncio.ensure_future(ch.receive() if kind == "r" else ch.__anext__())
        await spin()
        await ch.send("reserved")
        ch.close()
        assert ch.done()
        res = step(ch.receive())
        assert res[0] == "raise" and type(res[1]) is ChannelDone, res
        assert await outcome(blocked) == ("ok", "reserved")
        checks += 1

    # cancellation / timeout of a blocked receive
    for limit in (0, 1):
        ch = AsyncChannel(buffer_limit=limit)
        t = asyncio.ensure_future(ch.receive())
        await spin()
        t.cancel()
        assert await outcome(t) == ("cancelled",)
        try:
            await asyncio.wait_for(ch.receive(), 0.01)
        except asyncio.TimeoutError:
            pass
        else:
            raise AssertionError("no timeout")
        # bookkeeping intact: not done while open, item not lost, close -> done at once
        await ch.send("kept")
        assert await asyncio.wait_for(ch.receive(), 2) == "kept"
        ch.close()
        assert ch.done()
        await spin()
        res = step(ch.receive())
        assert res[0] == "raise" and type(res[1]) is ChannelDone
        checks += 1

    # a sibling is cancelled while an item is in flight for the other receiver
    for k1, k2 in itertools.product("ri", repeat=2):
        ch = AsyncChannel()
        r1 = asyncio.ensure_future(ch.receive() if k1 == "r" else ch.__anext__())
        r2 = asyncio.ensure_future(ch.receive() if k2 == "r" else ch.__anext__())
        await spin()
        await ch.send("x")
        r2.cancel()
        assert await outcome(r2) == ("cancelled",)
        assert await outcome(r1) == ("ok", "x")
        # cancel the woken receiver instead: the item goes to the other one
        ch = AsyncChannel()
        r1 = asyncio.ensure_future(ch.receive() if k1 == "r" else ch.__anext__())
        r2 = asyncio.ensure_future(ch.receive() if k2 == "r" else ch.__anext__())
        await spin()
        await ch.send("y")
        r1.cancel()
        assert await outcome(r1) == ("cancelled",)
        assert await outcome(r2) == ("ok", "y")
        checks += 1

    # join() on the underlying accounting: every received item was marked as done
    ch = AsyncChannel()
    await ch.send_from(range(5))
    for i in range(5):
        assert await ch.receive() == i
    t = asyncio.ensure_future(ch.receive())
    await spin()
    t.cancel()
    assert await outcome(t) == ("cancelled",)
    await asyncio.wait_for(ch._queue.join(), 2)
    checks += 1
    return checks


async def run_config(n_senders, n_items, kinds, limit, cancel_at, close_after):
    ch = AsyncChannel(buffer_limit=limit)
    got = [[] for _ in kinds]
    nones = [0 for _ in kinds]

    async def recv_loop(i):
        while True:
            try:
                item = await ch.receive()
            except ChannelDone:
                return
            if item is None:
                nones[i] += 1
            else:
                got[i].append(item)

    async def iter_loop(i):
        async for item in ch:
            got[i].append(item)

    async def sender(s):
        for k in range(n_items):
            await ch.send((s, k))

    receivers = [
        asyncio.ensure_future((recv_loop if kind == "r" else iter_loop)(i))
        for i, kind in enumerate(kinds)
    ]
    senders = [asyncio.ensure_future(sender(s)) for s in range(n_senders)]

    async def canceller():
        await spin(cancel_at)
        receivers[0].cancel()
        got.append([])
        nones.append(0)
        receivers.append(asyncio.ensure_future(recv_loop(len(got) - 1)))

    async def closer():
        await asyncio.gather(*senders)
        await spin(close_after)
        ch.close()

    aux = [asyncio.ensure_future(closer())]
    if cancel_at is not None:
        aux.append(asyncio.ensure_future(canceller()))
    cfg = (n_senders, n_items, kinds, limit, cancel_at, close_after)
    for t in aux + senders:
        assert await outcome(t) == ("ok", None), cfg
    for i, t in enumerate(list(receivers)):
        res = await outcome(t)
        if i == 0 and cancel_at is not None:
            assert res in (("ok", None), ("cancelled",)), (cfg, res)
        else:
            assert res == ("ok", None), (cfg, i, res)
    sent = [(s, k) for s in range(n_senders) for k in range(n_items)]
    assert sorted(x for g in got for x in g) == sent, (cfg, got)
    for g in got:
        for s in range(n_senders):
            ks = [k for (s2, k) in g if s2 == s]
            assert ks == sorted(ks), (cfg, g)
    # close signals: never more than one per receiver that ever existed
    assert sum(nones) <= len(receivers), (cfg, nones)
    # afterwards every further receive terminates at once (a spare close signal may be
    # left over when a receiver was cancelled after the flush)
    tail = []
    for _ in range(4):
        res = step(ch.receive())
        assert res[0] == "return" and res[1] is None or (
            res[0] == "raise" and type(res[1]) is ChannelDone
        ), (cfg, res)
        tail.append(res[0])
    assert tail[-1] == "raise" and ch.done(), (cfg, tail)
    try:
        await ch.send("late")
    except ChannelClosed:
        pass
    else:
        raise AssertionError(f"{cfg}: send after close accepted")
    # the full trace is returned so that runs on two trees can be compared
    return cfg, got, nones, tail


async def model_based(seed, n_ops=60):
    """
    Random operation sequences, executed to quiescence after every operation, compared
    with a simple FIFO model (unbounded buffer).
    """
    rng = random.Random(seed)
    ch = AsyncChannel()
    buffer, closed, blocked = [], False, []  # blocked: list of (kind, task)
    counter = itertools.count()
    checks = 0
    for _ in range(n_ops):
        op = rng.choice(["send", "send", "recv", "recv", "recv", "cancel", "close"])
        if op == "close" and rng.random() < 0.7:
            op = "send"
        if op == "send":
            item = (next(counter), rng.choice(ODD_ITEMS[:9]))
            try:
                await ch.send(item)
            except ChannelClosed:
                assert closed
            else:
                assert not closed
                if blocked:
                    kind, task = blocked.pop(0)
                    res = await outcome(task)
                    assert res[0] == "ok" and res[1] is item, (seed, res)
                else:
                    buffer.append(item)
        elif op == "recv":
            kind = rng.choice("ri")
            task = asyncio.ensure_future(ch.receive() if kind == "r" else ch.__anext__())
            await spin()
            if buffer:
                res = await outcome(task)
                assert res[0] == "ok" and res[1] is buffer.pop(0), (seed, res)
            elif closed:
                res = await outcome(task)
                if kind == "r":
                    assert res[:2] == ("raise", ChannelDone), (seed, res)
                else:
                    assert res[:2] == ("raise", StopAsyncIteration), (seed, res)
            else:
                assert not task.done(), seed
                blocked.append((kind, task))
        elif op == "cancel":
            if blocked:
                kind, task = blocked.pop(rng.randrange(len(blocked)))
                task.cancel()
                assert await outcome(task) == ("cancelled",), seed
        else:
            ch.close()
            closed = True
            await spin()
            for kind, task in blocked:
                res = await outcome(task)
                if kind == "r":
                    assert res == ("ok", None), (seed, res)
                else:
                    assert res[:2] == ("raise", StopAsyncIteration), (seed, res)
            blocked = []
        await spin(3)
        assert ch.closed() == closed
        assert ch.done() == (closed and not buffer), (seed, closed, buffer)
        checks += 1
    for kind, task in blocked:
        task.cancel()
    return checks


async def main():
    c1 = await basics()
    c2 = 0
    digest = hashlib.sha256()
    for n_senders, n_items, n_recv, limit in itertools.product(
        (1, 2), (1, 2, 3), (1, 2, 3), (0, 1, 2)
    ):
        for kinds in itertools.product("ri", repeat=n_recv):
            for cancel_at in (None, 0, 1, 2, 3, 5, 8):
                for close_after in (0, 1, 3):
                    trace = await run_config(
                        n_senders, n_items, kinds, limit, cancel_at, close_after
                    )
                    digest.update(repr(trace).encode())
                    c2 += 1
    c3 = 0
    for seed in range(150):
        c3 += await model_based(seed)
    print(f"OK: {c1} basic checks, {c2} configurations, {c3} model steps")
    # informational: identical on the pristine and the refactored tree
    print("trace digest:", digest.hexdigest()[:16])


if __name__ == "__main__":
    asyncio.run(main())
