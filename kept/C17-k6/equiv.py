"""Equivalence check for decode_varint decoding the buffer in place.

1. decode_varint against an independent model and against load_varint on a BytesIO
   (value, new position, exception type and message) for exhaustive short buffers,
   boundary lengths (9/10/11 bytes), every start position, random buffers.
2. Its users: parse_fields (compared with load_fields on the same bytes) and the packed
   repeated branch of Message.load (truncated / over-long varints inside a packed run),
   the latter also compared with google.protobuf's accept/reject decision and values.
3. A digest of all outcomes is pinned to the value obtained on the pristine tree.
"""
import hashlib
import itertools
import random
import struct
from dataclasses import dataclass
from io import BytesIO
from typing import List

import betterproto
from betterproto import decode_varint, load_fields, load_varint, parse_fields

from google.protobuf import descriptor_pb2, descriptor_pool, message_factory
from google.protobuf.message import DecodeError

digest = hashlib.sha256()
EOF_MSG = "Stream ended unexpectedly while attempting to load varint."
LONG_MSG = "Too many bytes when decoding varint."


def model(buf, pos):
    """Independent description of the contract."""
    value, n = 0, 0
    while True:
        if n == 10:
            return ValueError, LONG_MSG
        if pos + n >= len(buf):
            return EOFError, EOF_MSG
        b = buf[pos + n]
        value += (b % 128) * 128**n
        n += 1
        if b < 128:
            return value, pos + n


def outcome(fn, *args):
    try:
        return fn(*args)
    except Exception as exc:  # noqa
        return type(exc), str(exc)


def via_stream(buf, pos):
    stream = BytesIO(buf)
    stream.seek(pos)
    value, raw = load_varint(stream)
    assert buf[pos : pos + len(raw)] == raw
    return value, pos + len(raw)


n_checked = 0


def check(buf):
    global n_checked
    for pos in range(len(buf) + 3):
        got = outcome(decode_varint, buf, pos)
        assert got == model(buf, pos), (buf.hex(), pos, got, model(buf, pos))
        assert got == outcome(via_stream, buf, pos), (buf.hex(), pos)
        if not isinstance(got[0], type):
            assert type(got[0]) is int and type(got[1]) is int
        digest.update(repr((buf, pos, got)).encode())
        n_checked += 1


# exhaustive: all buffers of length <= 2, and length 3 over interesting byte values
for length in range(3):
    for t in itertools.product(range(256), repeat=length):
        if length == 2 and (t[0] % 8 not in (0, 1, 7) and t[1] % 16 not in (0, 15)):
            continue
        check(bytes(t))
INTERESTING = (0x00, 0x01, 0x7F, 0x80, 0x81, 0xFF)
for length in (3, 4):
    for t in itertools.product(INTERESTING, repeat=length):
        check(bytes(t))
# boundary lengths: 8..12 continuation bytes followed by each kind of terminator
for n_cont in range(7, 13):
    for cont in (0x80, 0x81, 0xFF, 0xAA):
        for last in (None, 0x00, 0x01, 0x02, 0x7F, 0x80):
            buf = bytes([cont]) * n_cont + (b"" if last is None else bytes([last]))
            check(buf)
            check(b"\x05" + buf + b"\x07")
# canonical encodings of boundary values
for v in [0, 1, 127, 128, 16383, 16384, 2**31 - 1, 2**31, 2**32 - 1, 2**32, 2**35,
          2**56 - 1, 2**56, 2**63 - 1, 2**63, 2**64 - 1]:
    out = bytearray()
    x = v
    while True:
        b = x & 0x7F
        x >>= 7
        out.append(b | (0x80 if x else 0))
        if not x:
            break
    enc = bytes(out)
    assert decode_varint(enc, 0) == (v, len(enc))
    check(enc)
    for cut in range(len(enc)):
        assert outcome(decode_varint, enc, 0)[0] == v
        assert outcome(decode_varint, enc[:cut], 0) == (EOFError, EOF_MSG)
    check(enc + enc)
rng = random.Random(17)
for _ in range(3000):
    length = rng.randrange(0, 16)
    hi = rng.random()
    buf = bytes(rng.randrange(256) | (0x80 if rng.random() < hi else 0) for _ in range(length))
    check(buf)
print("decode_varint:", n_checked, "(buffer, pos) cases ok")


# ---------------------------------------------------------------- parse_fields
def fields_outcome(gen_fn, data):
    out = []
    try:
        for f in gen_fn(data):
            out.append((f.number, f.wire_type, f.value, f.raw))
    except Exception as exc:  # noqa
        out.append((type(exc), str(exc)))
    return out


n_pf = n_pf_err = 0
rng = random.Random(1717)
for _ in range(6000):
    parts = []
    for _ in range(rng.randrange(0, 4)):
        wt = rng.choice((0, 0, 1, 2, 2, 5, 3, 4, 6, 7))
        num = rng.choice((0, 1, 2, 15, 16, 2047, 2048, 2**28))
        t = num << 3 | wt
        tag = bytearray()
        while True:
            b = t & 0x7F
            t >>= 7
            tag.append(b | (0x80 if t else 0))
            if not t:
                break
        if wt == 0:
            n = rng.randrange(1, 12)
            body = bytes([rng.randrange(128, 256)] * (n - 1) + [rng.randrange(128)])
        elif wt == 1:
            body = bytes(rng.randrange(256) for _ in range(8))
        elif wt == 5:
            body = bytes(rng.randrange(256) for _ in range(4))
        else:
            ln = rng.randrange(0, 6)
            body = bytes([ln]) + bytes(rng.randrange(256) for _ in range(ln))
        parts.append(bytes(tag) + body)
    data = b"".join(parts)
    if rng.random() < 0.5 and data:
        data = data[: rng.randrange(len(data))]
    if rng.random() < 0.1:
        data = bytes(rng.randrange(256) for _ in range(rng.randrange(12)))
    a = fields_outcome(parse_fields, data)
    b = fields_outcome(lambda d: load_fields(BytesIO(d)), data)
    # same fields; both reject or both accept (messages may differ for truncated payloads)
    a_err = bool(a) and isinstance(a[-1][0], type)
    b_err = bool(b) and isinstance(b[-1][0], type)
    assert a_err == b_err, (data.hex(), a, b)
    if a_err:
        n_pf_err += 1
        assert a[:-1] == b[:-1] and a[-1][0] is b[-1][0], (data.hex(), a, b)
    else:
        assert a == b
        assert b"".join(f[3] for f in a) == data
    digest.update(repr((data, a)).encode())
    n_pf += 1
assert n_pf_err > 500 and n_pf - n_pf_err > 500
print("parse_fields:", n_pf, "inputs ok,", n_pf_err, "rejected")


# ---------------------------------------------------------------- packed runs
class Color(betterproto.Enum):
    ZERO = 0
    ONE = 1


@dataclass(eq=False, repr=False)
class Packed(betterproto.Message):
    i32: List[int] = betterproto.int32_field(1)
    i64: List[int] = betterproto.int64_field(2)
    u32: List[int] = betterproto.uint32_field(3)
    u64: List[int] = betterproto.uint64_field(4)
    s32: List[int] = betterproto.sint32_field(5)
    s64: List[int] = betterproto.sint64_field(6)
    b: List[bool] = betterproto.bool_field(7)
    e: List["Color"] = betterproto.enum_field(8)
    tail: int = betterproto.int32_field(9)


NAMES = ["i32", "i64", "u32", "u64", "s32", "s64", "b", "e"]


def build_reference():
    F = descriptor_pb2.FieldDescriptorProto
    fd = descriptor_pb2.FileDescriptorProto(name="c17_keep2.proto", package="c17k2",
                                            syntax="proto3")
    en = fd.enum_type.add(name="Color")
    en.value.add(name="ZERO", number=0)
    en.value.add(name="ONE", number=1)
    m = fd.message_type.add(name="Packed")
    types = [F.TYPE_INT32, F.TYPE_INT64, F.TYPE_UINT32, F.TYPE_UINT64, F.TYPE_SINT32,
             F.TYPE_SINT64, F.TYPE_BOOL, F.TYPE_ENUM]
    for i, (nm, t) in enumerate(zip(NAMES, types), start=1):
        f = m.field.add(name=nm, number=i, type=t, label=F.LABEL_REPEATED)
        if t == F.TYPE_ENUM:
            f.type_name = ".c17k2.Color"
    m.field.add(name="tail", number=9, type=F.TYPE_INT32, label=F.LABEL_OPTIONAL)
    pool = descriptor_pool.DescriptorPool()
    pool.Add(fd)
    return message_factory.GetMessageClass(pool.FindMessageTypeByName("c17k2.Packed"))


Ref = build_reference()
RUNS = [
    b"", b"\x00", b"\x01", b"\x7f", b"\x80", b"\x80\x01", b"\x01\x80", b"\x01\x02\x03",
    b"\xff\xff\xff\xff\x07", b"\xff\xff\xff\xff\x0f", b"\x80\x80\x80\x80\x10",
    b"\xff" * 9 + b"\x01", b"\xff" * 9 + b"\x00", b"\x80" * 9 + b"\x01",
    b"\xff" * 9, b"\xff" * 10, b"\xff" * 10 + b"\x01", b"\x80" * 10 + b"\x00",
    b"\x05" + b"\xff" * 9 + b"\x01" + b"\x06", b"\x05\xff", b"\x96\x01\x96",
    b"\x96\x01" * 5, b"\x02\x03\x04\x80\x80", b"\x80\x00", b"\x81\x80\x00",
]
TAIL = b"\x48\x2a"
n_run = n_rej = n_agree = 0
value_diff = set()
for number, name in enumerate(NAMES, start=1):
    for run in RUNS:
        occ = bytes([number << 3 | 2, len(run)]) + run
        for data in (occ, occ + TAIL, TAIL + occ, occ + occ, occ[:-1], occ + b"\x80"):
            outs = []
            for decode in (lambda d: Packed().parse(d), Packed.FromString,
                           lambda d: Packed().load(BytesIO(d))):
                r = outcome(decode, data)
                outs.append(r if isinstance(r, tuple) else (bytes(r), repr(r)))
            assert outs[0] == outs[1] == outs[2], (data.hex(), outs)
            digest.update(repr((data, outs[0])).encode())
            try:
                ref = Ref.FromString(data)
            except DecodeError:
                ref = None
            got = outcome(Packed().parse, data)
            n_run += 1
            if isinstance(got, tuple):
                n_rej += 1
                assert got[0] in (EOFError, ValueError), got
                assert ref is None, (data.hex(), got)
                continue
            assert ref is not None, (data.hex(), got)
            n_agree += 1
            assert type(got.tail) is int and got.tail == ref.tail
            for other in NAMES:
                val = getattr(got, other)
                assert type(val) is list
                for it in val:
                    assert isinstance(it, bool if other == "b" else int)
                if [int(x) for x in val] != [int(x) for x in getattr(ref, other)]:
                    value_diff.add(other)
                if other != name:
                    assert val == []
            again = bytes(got)
            assert bytes(Packed().parse(again)) == again
print("packed runs:", n_run, "inputs,", n_rej, "rejected by both,", n_agree, "accepted by both;",
      "value differences from reference in", sorted(value_diff))
assert n_rej > 300 and n_agree > 300
# known, unrelated: uint32/sint32/uint64/sint64 are not truncated to their width
assert value_diff <= {"u32", "s32", "u64", "s64"}, value_diff

print("digest of all outcomes:", digest.hexdigest())
EXPECTED_DIGEST = "b225d26b803dbd1bfe733e1e90afe516009d9f509f5c4ab59b04ac57fbc74378"
assert digest.hexdigest() == EXPECTED_DIGEST, "outcomes differ from the pristine tree"
print("ok")
