"""C04 keep2: Message.to_dict emits enum-typed fields (plain, optional, oneof,
repeated, map values) exactly as before - names for defined numbers, the number for
undefined ones - and such messages round-trip through dict / JSON.  Checked against
(1) an independent re-implementation of the old type-hint based lookup, (2) the
official google.protobuf json_format, (3) the round trip itself."""
import itertools
import json
import random
import typing
from dataclasses import dataclass
from typing import Dict, List, Optional

import betterproto
from betterproto import Casing
from google.protobuf import descriptor_pb2, descriptor_pool, json_format, message_factory


class Colour(betterproto.Enum):
    COLOUR_UNSPECIFIED = 0
    RED = 1
    GREEN = 2
    DEEP_BLUE = 7
    NEGATIVE = -3
    BIG = 2**31 - 1


class Mood(betterproto.Enum):
    CALM = 0
    ANGRY = 1


@dataclass(eq=False, repr=False)
class Leaf(betterproto.Message):
    colour: "Colour" = betterproto.enum_field(1)
    moods: List["Mood"] = betterproto.enum_field(2)


@dataclass(eq=False, repr=False)
class Palette(betterproto.Message):
    main_colour: Colour = betterproto.enum_field(1)
    colours: List[Colour] = betterproto.enum_field(2)
    opt_colour: Optional[Colour] = betterproto.enum_field(3, optional=True)
    pick_colour: Colour = betterproto.enum_field(4, group="pick")
    pick_mood: Mood = betterproto.enum_field(5, group="pick")
    pick_number: int = betterproto.int32_field(6, group="pick")
    by_name: Dict[str, Colour] = betterproto.map_field(
        7, betterproto.TYPE_STRING, betterproto.TYPE_ENUM)
    by_id: Dict[int, Mood] = betterproto.map_field(
        8, betterproto.TYPE_INT32, betterproto.TYPE_ENUM)
    by_flag: Dict[bool, Colour] = betterproto.map_field(
        9, betterproto.TYPE_BOOL, betterproto.TYPE_ENUM)
    leaf: Leaf = betterproto.message_field(10)
    leaves: List[Leaf] = betterproto.message_field(11)
    leaf_by_name: Dict[str, Leaf] = betterproto.map_field(
        12, betterproto.TYPE_STRING, betterproto.TYPE_MESSAGE)
    mood_: Mood = betterproto.enum_field(13)
    label: str = betterproto.string_field(14)
    counts: Dict[str, int] = betterproto.map_field(
        15, betterproto.TYPE_STRING, betterproto.TYPE_INT64)


# ---- (1) independent reference: the old, type-hint based enum lookup ----------
def ref_name(enum_class, number):
    member = enum_class.try_value(number)
    return member.name if member.name is not None else int(member)


def ref_enum_entries(msg, casing, include_default_values):
    """Expected to_dict entries of the enum-typed (and enum-valued map) fields of
    ``msg``, computed the way to_dict did before the refactor."""
    hints = typing.get_type_hints(type(msg))
    expected = {}
    for field_name, meta in msg._betterproto.meta_by_field_name.items():
        key = casing(field_name).rstrip("_")
        repeated = msg._betterproto.default_gen[field_name] is list
        try:
            value = getattr(msg, field_name)
        except AttributeError:
            value = msg._get_field_default(field_name)
        if meta.proto_type == betterproto.TYPE_MAP:
            if meta.map_types[1] != betterproto.TYPE_ENUM:
                continue
            enum_class = hints[field_name].__args__[1]
            if value or include_default_values:
                expected[key] = {k: ref_name(enum_class, v) for k, v in value.items()}
            continue
        if meta.proto_type != betterproto.TYPE_ENUM:
            continue
        current = (meta.group is not None
                   and msg._group_current.get(meta.group) == field_name)
        if not (value != msg._get_field_default(field_name)
                or include_default_values or current):
            continue
        if repeated:
            enum_class = hints[field_name].__args__[0]
            if isinstance(value, typing.Iterable) and not isinstance(value, str):
                expected[key] = [ref_name(enum_class, el) for el in value]
            else:
                expected[key] = [ref_name(enum_class, value)]
        elif value is None:
            if include_default_values:
                expected[key] = value
        elif meta.optional:
            expected[key] = ref_name(hints[field_name].__args__[0], value)
        else:
            expected[key] = ref_name(hints[field_name], value)
    return expected


ENUM_KEYS = {
    c(n).rstrip("_")
    for c in (Casing.CAMEL, Casing.SNAKE)
    for n in ("main_colour", "colours", "opt_colour", "pick_colour", "pick_mood",
              "by_name", "by_id", "by_flag", "mood_")
}


def check_against_reference(m):
    for casing in (Casing.CAMEL, Casing.SNAKE):
        for idv in (False, True):
            out = m.to_dict(casing=casing, include_default_values=idv)
            json.dumps(out)
            got = {k: v for k, v in out.items() if k in ENUM_KEYS}
            want = ref_enum_entries(m, casing, idv)
            assert got == want, (casing, idv, m, got, want)
            assert list(got) == list(want)  # same emission order
            for k in got:  # same JSON types (str name vs int number), same order
                assert json.dumps(got[k]) == json.dumps(want[k]), (k, got[k], want[k])


def round_trip(m):
    wire = bytes(m)
    for casing in (Casing.CAMEL, Casing.SNAKE):
        d = m.to_dict(casing=casing)
        text = json.dumps(d)
        for back in (type(m).from_dict(d), type(m)().from_dict(d),
                     type(m)().from_json(text),
                     type(m)().from_json(m.to_json(casing=casing))):
            assert back == m, (casing, m, back)
            assert bytes(back) == wire, (casing, m, back)


# ---- (2) google.protobuf as oracle ---------------------------------------------
def build_pb_class():
    f = descriptor_pb2.FileDescriptorProto(name="c04_keep2.proto", package="c04k2",
                                           syntax="proto3")
    for ename, members in (("Colour", Colour), ("Mood", Mood)):
        e = f.enum_type.add(name=ename)
        for mem in members:
            e.value.add(name=mem.name, number=int(mem))
    F = descriptor_pb2.FieldDescriptorProto
    leaf = f.message_type.add(name="Leaf")
    leaf.field.add(name="colour", number=1, type=F.TYPE_ENUM, type_name=".c04k2.Colour",
                   label=F.LABEL_OPTIONAL)
    leaf.field.add(name="moods", number=2, type=F.TYPE_ENUM, type_name=".c04k2.Mood",
                   label=F.LABEL_REPEATED)
    pal = f.message_type.add(name="Palette")
    pal.field.add(name="main_colour", number=1, type=F.TYPE_ENUM,
                  type_name=".c04k2.Colour", label=F.LABEL_OPTIONAL)
    pal.field.add(name="colours", number=2, type=F.TYPE_ENUM,
                  type_name=".c04k2.Colour", label=F.LABEL_REPEATED)
    pal.oneof_decl.add(name="pick")
    pal.oneof_decl.add(name="_opt_colour")
    pal.field.add(name="opt_colour", number=3, type=F.TYPE_ENUM,
                  type_name=".c04k2.Colour", label=F.LABEL_OPTIONAL,
                  proto3_optional=True, oneof_index=1)
    pal.field.add(name="pick_colour", number=4, type=F.TYPE_ENUM,
                  type_name=".c04k2.Colour", label=F.LABEL_OPTIONAL, oneof_index=0)
    pal.field.add(name="pick_mood", number=5, type=F.TYPE_ENUM,
                  type_name=".c04k2.Mood", label=F.LABEL_OPTIONAL, oneof_index=0)
    pal.field.add(name="pick_number", number=6, type=F.TYPE_INT32,
                  label=F.LABEL_OPTIONAL, oneof_index=0)

    def add_map(name, number, key_type, value_type, value_type_name=None):
        entry_name = "".join(p.capitalize() for p in name.split("_")) + "Entry"
        entry = pal.nested_type.add(name=entry_name)
        entry.options.map_entry = True
        entry.field.add(name="key", number=1, type=key_type, label=F.LABEL_OPTIONAL)
        v = entry.field.add(name="value", number=2, type=value_type,
                            label=F.LABEL_OPTIONAL)
        if value_type_name:
            v.type_name = value_type_name
        pal.field.add(name=name, number=number, type=F.TYPE_MESSAGE,
                      type_name=f".c04k2.Palette.{entry_name}", label=F.LABEL_REPEATED)

    add_map("by_name", 7, F.TYPE_STRING, F.TYPE_ENUM, ".c04k2.Colour")
    add_map("by_id", 8, F.TYPE_INT32, F.TYPE_ENUM, ".c04k2.Mood")
    add_map("by_flag", 9, F.TYPE_BOOL, F.TYPE_ENUM, ".c04k2.Colour")
    pal.field.add(name="leaf", number=10, type=F.TYPE_MESSAGE, type_name=".c04k2.Leaf",
                  label=F.LABEL_OPTIONAL)
    pal.field.add(name="leaves", number=11, type=F.TYPE_MESSAGE,
                  type_name=".c04k2.Leaf", label=F.LABEL_REPEATED)
    add_map("leaf_by_name", 12, F.TYPE_STRING, F.TYPE_MESSAGE, ".c04k2.Leaf")
    pal.field.add(name="mood_", number=13, type=F.TYPE_ENUM, type_name=".c04k2.Mood",
                  label=F.LABEL_OPTIONAL, json_name="mood")
    pal.field.add(name="label", number=14, type=F.TYPE_STRING, label=F.LABEL_OPTIONAL)
    add_map("counts", 15, F.TYPE_STRING, F.TYPE_INT64)
    pool = descriptor_pool.DescriptorPool()
    pool.Add(f)
    return message_factory.GetMessageClass(pool.FindMessageTypeByName("c04k2.Palette"))


PbPalette = build_pb_class()


def normalise_keys(d):
    """betterproto keeps typed map keys in to_dict; JSON text has strings."""
    return json.loads(json.dumps(d))


def check_against_google(m):
    pb = PbPalette()
    pb.ParseFromString(bytes(m))
    want = json_format.MessageToDict(pb)
    got = normalise_keys(m.to_dict())
    assert got == want, (m, got, want)
    # and the other direction: google's JSON is read back to the same message
    assert type(m)().from_json(json_format.MessageToJson(pb)) == m


# ---- inputs ----------------------------------------------------------------------
colour_numbers = [0, 1, 2, 7, -3, 2**31 - 1, 3, 5, -1, 100, -(2**31)]
mood_numbers = [0, 1, 2, -1, 99]
colours = [Colour(n) if n in set(map(int, Colour)) else n for n in colour_numbers]
colours += list(Colour)
moods = [Mood.CALM, Mood.ANGRY, 0, 1, 2, -1, 99]

messages = [Palette()]
for c in colours:
    messages += [
        Palette(main_colour=c),
        Palette(colours=[c]),
        Palette(colours=[c, Colour.COLOUR_UNSPECIFIED, c, 0]),
        Palette(opt_colour=c),
        Palette(pick_colour=c),
        Palette(by_name={"a": c, "": Colour.RED, "zero": 0}),
        Palette(by_flag={True: c, False: Colour.COLOUR_UNSPECIFIED}),
        Palette(by_flag={False: c}),
        Palette(leaf=Leaf(colour=c)),
        Palette(leaves=[Leaf(colour=c), Leaf(), Leaf(moods=[1, 0])]),
        Palette(leaf_by_name={"k": Leaf(colour=c), "e": Leaf()}),
    ]
for md in moods:
    messages += [
        Palette(pick_mood=md),
        Palette(mood_=md),
        Palette(by_id={-5: md, 0: Mood.CALM, 2**31 - 1: 1}),
        Palette(leaf=Leaf(moods=[md, md, Mood.ANGRY])),
    ]
messages += [
    Palette(pick_number=0), Palette(pick_number=4), Palette(opt_colour=None),
    Palette(leaf=Leaf()), Palette(colours=[]), Palette(by_name={}),
    Palette(label="x", counts={"n": 2**63 - 1, "m": -1}),
    Palette(main_colour=Colour.RED, colours=list(Colour), opt_colour=Colour.COLOUR_UNSPECIFIED,
            pick_mood=Mood.CALM, by_name={m.name: m for m in Colour},
            by_id={int(m): m for m in Mood}, by_flag={True: Colour.BIG},
            leaf=Leaf(Colour.NEGATIVE, [Mood.ANGRY]), leaves=[Leaf(Colour.GREEN)],
            leaf_by_name={"x": Leaf(Colour.DEEP_BLUE)}, mood_=Mood.ANGRY, label="all"),
]
# messages that went through the wire (values become enum members / plain ints)
messages += [Palette().parse(bytes(m)) for m in list(messages)]
# a oneof member that was displaced, fields set by attribute, in-place filling
m = Palette(pick_colour=Colour.RED); m.pick_mood = Mood.CALM; messages.append(m)
m = Palette(pick_mood=Mood.ANGRY); m.pick_colour = 0; messages.append(m)
m = Palette(); m.colours.append(Colour.GREEN); m.by_name["k"] = 7; m.leaf.moods.append(1)
messages.append(m)
m = Palette(); m.main_colour = 2; m.opt_colour = 0; messages.append(m)

rnd = random.Random(404)
for _ in range(1500):
    kw = {}
    if rnd.random() < 0.5:
        kw["main_colour"] = rnd.choice(colours)
    if rnd.random() < 0.5:
        kw["colours"] = [rnd.choice(colours) for _ in range(rnd.randint(0, 5))]
    if rnd.random() < 0.5:
        kw["opt_colour"] = rnd.choice(colours + [None])
    pick = rnd.randrange(4)
    if pick == 0:
        kw["pick_colour"] = rnd.choice(colours)
    elif pick == 1:
        kw["pick_mood"] = rnd.choice(moods)
    elif pick == 2:
        kw["pick_number"] = rnd.choice([0, 1, -1])
    if rnd.random() < 0.5:
        kw["by_name"] = {rnd.choice(["", "a", "b", "RED", "0"]): rnd.choice(colours)
                         for _ in range(rnd.randint(0, 4))}
    if rnd.random() < 0.5:
        kw["by_id"] = {rnd.choice([0, 1, -1, 7, -2**31]): rnd.choice(moods)
                       for _ in range(rnd.randint(0, 4))}
    if rnd.random() < 0.3:
        kw["by_flag"] = {rnd.choice([True, False]): rnd.choice(colours)
                         for _ in range(rnd.randint(0, 2))}
    if rnd.random() < 0.4:
        kw["leaf"] = Leaf(rnd.choice(colours), [rnd.choice(moods) for _ in range(rnd.randint(0, 3))])
    if rnd.random() < 0.3:
        kw["leaves"] = [Leaf(rnd.choice(colours)) for _ in range(rnd.randint(0, 3))]
    if rnd.random() < 0.3:
        kw["leaf_by_name"] = {rnd.choice("abc"): Leaf(rnd.choice(colours), [rnd.choice(moods)])
                              for _ in range(rnd.randint(0, 3))}
    if rnd.random() < 0.4:
        kw["mood_"] = rnd.choice(moods)
    messages.append(Palette(**kw))

for m in messages:
    check_against_reference(m)
    round_trip(m)
    check_against_google(m)

# ---- pinned literal expectations -------------------------------------------------
assert Palette(main_colour=Colour.DEEP_BLUE).to_dict() == {"mainColour": "DEEP_BLUE"}
assert Palette(main_colour=7).to_dict(Casing.SNAKE) == {"main_colour": "DEEP_BLUE"}
assert Palette(main_colour=5).to_dict() == {"mainColour": 5}
assert Palette(colours=[1, 5, Colour.NEGATIVE, 0]).to_dict() == {
    "colours": ["RED", 5, "NEGATIVE", "COLOUR_UNSPECIFIED"]}
assert Palette(opt_colour=Colour.COLOUR_UNSPECIFIED).to_dict() == {
    "optColour": "COLOUR_UNSPECIFIED"}
assert Palette(pick_mood=Mood.CALM).to_dict() == {"pickMood": "CALM"}
assert Palette(mood_=1).to_dict() == {"mood": "ANGRY"}
assert Palette(mood_=1).to_dict(Casing.SNAKE) == {"mood": "ANGRY"}
assert Palette(by_id={3: 1, 4: 9}).to_dict() == {"byId": {3: "ANGRY", 4: 9}}
assert Palette(by_flag={True: 0}).to_dict() == {"byFlag": {True: "COLOUR_UNSPECIFIED"}}
full = Palette().to_dict(include_default_values=True)
assert full["mainColour"] == "COLOUR_UNSPECIFIED" and full["colours"] == []
assert full["optColour"] is None and full["byName"] == {} and full["mood"] == "CALM"
assert full["pickColour"] == "COLOUR_UNSPECIFIED" and full["pickMood"] == "CALM"
# a single value in a repeated enum field is still upgraded to a list
single = Palette(); single.colours = Colour.GREEN
assert single.to_dict() == {"colours": ["GREEN"]}
single.colours = 9
assert single.to_dict() == {"colours": [9]}
single.colours = (Colour.RED, 9)
assert single.to_dict() == {"colours": ["RED", 9]}

print(f"C04 keep2 equiv OK: {len(messages)} messages x 2 casings x 2 default modes")
