"""C18 keep2: the import section of every generated module (templates/header.py.j2,
TypingCompiler.import_lines, OutputTemplate.python_module_imports) must stay the same.

Checked here
 1. TypingCompiler.import_lines() for the three compilers after many call sequences,
    and for a custom compiler with several modules, against a spelled-out expectation;
    it is still a lazy iterator.
 2. A family of 80 schemas (nothing / message / field / rpc / everything deprecated
    x builtin-shadowing field or not x no / Duration / Timestamp / both well-known types
    x scalars-only or rich: optional, repeated, map, oneof, cross-package reference,
    service with all four cardinalities) is run through the plugin under all 3 x 2
    option combinations.  For each of the 480 results
      - OutputTemplate.python_module_imports is exactly the expected set,
      - the header part of the module is compared character by character with an
        independent re-statement of what the header has to contain,
      - the module-level imports found with `ast` are the expected ones,
    and the variants of a schema are imported and compared with the default
    configuration (same classes / fields, same bytes and JSON for equal values,
    deprecation warnings raised by every variant).
 3. The rendered sources of all 480 modules are pinned by a digest taken on the
    reference tree.

Run:  PYTHONPATH=<worktree>/src /venv/bin/python equiv.py
"""
import ast
import dataclasses
import hashlib
import importlib
import itertools
import os
import shutil
import sys
import tempfile
import warnings
from datetime import datetime, timedelta, timezone

import grpc_tools
from grpc_tools import protoc as _protoc

import betterproto
import betterproto.plugin.compiler as plugin_compiler
import betterproto.plugin.parser as plugin_parser
from betterproto.lib.google.protobuf import FileDescriptorSet
from betterproto.lib.google.protobuf.compiler import CodeGeneratorRequest
from betterproto.plugin.models import monkey_patch_oneof_index
from betterproto.plugin.typing_compiler import (
    DirectImportTypingCompiler,
    NoTyping310TypingCompiler,
    TypingCompiler,
    TypingImportTypingCompiler,
)

plugin_compiler.subprocess.check_output = lambda cmd, input, encoding: input
monkey_patch_oneof_index()

SOURCES_SHA256 = "925d7051b67544b3c2ce1ce7329e8c48776fe0513ba6c6826e10ef1a9d0d97c1"

TYPING = ["typing.direct", "typing.root", "typing.310"]
CONFIGS = [t + (",pydantic_dataclasses" if p else "") for t in TYPING for p in (False, True)]
DEFAULT = "typing.direct"


# ----------------------------------------------------------------------------- 1
def part_import_lines():
    methods = ["optional", "list", "dict", "union", "iterable", "async_iterable", "async_iterator"]
    typing_name = {
        "optional": "Optional", "list": "List", "dict": "Dict", "union": "Union",
        "iterable": "Iterable", "async_iterable": "AsyncIterable", "async_iterator": "AsyncIterator",
    }
    abc_methods = {"iterable", "async_iterable", "async_iterator"}

    def call(compiler, method):
        if method in ("dict", "union"):
            return getattr(compiler, method)("str", "int")
        return getattr(compiler, method)("str")

    checked = 0
    for r in range(0, 8):
        for combo in itertools.combinations(methods, r):
            for order in (combo, tuple(reversed(combo))):
                direct, root, no310 = (
                    DirectImportTypingCompiler(), TypingImportTypingCompiler(), NoTyping310TypingCompiler(),
                )
                for m in order:
                    call(direct, m), call(root, m), call(no310, m)
                names = sorted(typing_name[m] for m in combo)
                want_direct = (
                    ["from typing import (", *[f"    {n}," for n in names], ")"] if names else []
                )
                want_root = ["import typing"] if combo else []
                abc = sorted(typing_name[m] for m in combo if m in abc_methods)
                want_310 = (
                    ["from collections.abc import (", *[f"    {n}," for n in abc], ")"] if abc else []
                )
                for compiler, want in ((direct, want_direct), (root, want_root), (no310, want_310)):
                    lines = compiler.import_lines()
                    assert iter(lines) is lines and not isinstance(lines, (list, tuple))
                    assert list(lines) == want, (type(compiler).__name__, order, want)
                    # asking twice gives the same answer, imports() is untouched
                    assert list(compiler.import_lines()) == want
                    assert bool(compiler.imports()) == bool(want)
                    checked += 1

    class Custom(TypingCompiler):
        def __init__(self, table):
            self.table = table
            self.calls = 0

        optional = list = iterable = async_iterable = async_iterator = lambda self, type: type
        dict = lambda self, key, value: key
        union = lambda self, *types: types[0]

        def imports(self):
            self.calls += 1
            return self.table

    custom = Custom({"zeta": None, "alpha.beta": {"b", "C", "a", "_x"}, "mid": {"only"}, "last": None})
    lines = custom.import_lines()
    assert custom.calls == 0  # nothing is evaluated before the first line is asked for
    assert list(lines) == [
        "import zeta",
        "from alpha.beta import (", "    C,", "    _x,", "    a,", "    b,", ")",
        "from mid import (", "    only,", ")",
        "import last",
    ]
    assert custom.calls == 1
    assert list(Custom({}).import_lines()) == []
    assert list(Custom({"m": set()}).import_lines()) == ["from m import (", ")"]
    return checked


# ----------------------------------------------------------------------------- 2
DEPRECATION = ["none", "message", "field", "method", "all"]
WELL_KNOWN = ["none", "duration", "timestamp", "both"]


def schema(dep, shadow, wk, rich):
    msg_opt = "option deprecated = true;" if dep in ("message", "all") else ""
    field_opt = " [deprecated = true]" if dep in ("field", "all") else ""
    method_opt = "{ option deprecated = true; }" if dep in ("method", "all") else ";"
    imports, fields = [], []
    if wk in ("duration", "both"):
        imports.append('import "google/protobuf/duration.proto";')
        fields.append("google.protobuf.Duration took = 20;")
    if wk in ("timestamp", "both"):
        imports.append('import "google/protobuf/timestamp.proto";')
        fields.append("google.protobuf.Timestamp at = 21;")
    if wk == "both":
        fields.append("map<string, google.protobuf.Duration> laps = 22;")
    if shadow:
        # python name `int` shadows the builtin for the later annotations
        fields.append("string int = 30;")
        fields.append("int32 after = 31;")
    if rich:
        imports.append('import "pkg/sub/other.proto";')
        fields += [
            "optional int32 maybe = 40;",
            "repeated string tags = 41;",
            "map<string, int64> counts = 42;",
            "oneof pick { int32 a = 43; string b = 44; Leaf leaf = 45; }",
            "pkg.sub.Other other = 46;",
            "Mode mode = 47;",
        ]
    service = ""
    if rich or dep in ("method", "all"):
        streaming = """
  rpc Watch(Leaf) returns (stream Main);
  rpc Upload(stream Main) returns (Leaf);
  rpc Chat(stream Leaf) returns (stream Leaf);""" if rich else ""
        service = f"""
service Api {{
  rpc Get(Leaf) returns (Main){method_opt}{streaming}
}}"""
    main = f"""
syntax = "proto3";
package pkg;
{chr(10).join(imports)}
enum Mode {{ MODE_OFF = 0; MODE_ON = 1; }}
message Leaf {{ int32 n = 1; }}
message Main {{
  {msg_opt}
  int32 id = 1;
  string old = 2{field_opt};
  {chr(10).join("  " + f for f in fields)}
}}
{service}
"""
    protos = {"pkg/main.proto": main}
    if rich:
        protos["pkg/sub/other.proto"] = 'syntax = "proto3";\npackage pkg.sub;\nmessage Other { string name = 1; }\n'
    return protos


def descriptor_set(protos):
    d = tempfile.mkdtemp(prefix="c18proto")
    try:
        for name, text in protos.items():
            path = os.path.join(d, name)
            os.makedirs(os.path.dirname(path), exist_ok=True)
            with open(path, "w") as fh:
                fh.write(text)
        out = os.path.join(d, "set.bin")
        inc = os.path.join(os.path.dirname(grpc_tools.__file__), "_proto")
        rc = _protoc.main(
            ["protoc", f"-I{d}", f"-I{inc}", f"--descriptor_set_out={out}",
             "--include_imports", "--include_source_info", *protos]
        )
        assert rc == 0
        with open(out, "rb") as fh:
            return fh.read()
    finally:
        shutil.rmtree(d)


_captured = []
_original_outputfile_compiler = plugin_parser.outputfile_compiler


def _capturing_outputfile_compiler(output_file):
    _captured.append(output_file)
    return _original_outputfile_compiler(output_file=output_file)


plugin_parser.outputfile_compiler = _capturing_outputfile_compiler


def run_plugin(fds_bytes, names, option):
    fds = FileDescriptorSet().parse(fds_bytes)
    request = CodeGeneratorRequest(file_to_generate=list(names), parameter=option, proto_file=fds.file)
    del _captured[:]
    saved, sys.stderr = sys.stderr, open(os.devnull, "w")
    try:
        response = plugin_parser.generate_code(request)
    finally:
        sys.stderr.close()
        sys.stderr = saved
    models = {m.package: m for m in _captured}
    return {f.name: f.content for f in response.file}, models


_counter = itertools.count()


def materialize(files, root):
    pkg = f"c18keep2_{next(_counter)}"
    base = os.path.join(root, pkg)
    os.makedirs(base)
    for name, content in files.items():
        path = os.path.join(base, name)
        os.makedirs(os.path.dirname(path), exist_ok=True)
        with open(path, "w") as fh:
            fh.write(content)
    return pkg


def expected_header(model, option, dep, shadow, wk, rich):
    """What the header of pkg/__init__.py has to be, written down independently
    (derived from the case parameters, not from the model's import bookkeeping)."""
    pydantic = "pydantic_dataclasses" in option
    typing_opt = option.split(",")[0]
    has_service = rich or dep in ("method", "all")
    names = ["Mode", "Leaf", "Main"]
    text = "# Generated by the protocol buffer compiler.  DO NOT EDIT!\n"
    text += "# sources: pkg/main.proto\n# plugin: python-betterproto\n# This file has been @generated\n\n"
    text += "__all__ = (" + "".join(f'"{n}",' for n in names)
    if has_service:
        text += '"ApiStub",\n        "ApiBase",'
    text += ")\n\n"
    if shadow:
        text += "import builtins\n"
    if dep != "none":
        text += "import warnings\n"
    text += "\n"
    text += "from pydantic.dataclasses import dataclass\n" if pydantic else "from dataclasses import dataclass\n\n"
    dt = {"none": [], "duration": ["timedelta"], "timestamp": ["datetime"], "both": ["datetime", "timedelta"]}[wk]
    if dt:
        text += f"from datetime import {', '.join(dt)}\n"
    # typing names used by the module
    used = set()
    if rich:
        used |= {"Optional", "List", "Dict"}
    if wk == "both":
        used |= {"Dict"}
    if pydantic and rich:
        used |= {"Optional"}
    if has_service:
        used |= {"Optional", "Dict"}
    if rich:
        used |= {"AsyncIterator", "AsyncIterable", "Iterable", "Union"}
    if typing_opt == "typing.direct" and used:
        text += "from typing import (\n" + "".join(f"    {n},\n" for n in sorted(used)) + ")\n"
    elif typing_opt == "typing.root" and used:
        text += "import typing\n"
    elif typing_opt == "typing.310":
        abc = sorted(used & {"AsyncIterator", "AsyncIterable", "Iterable"})
        if abc:
            text += "from collections.abc import (\n" + "".join(f"    {n},\n" for n in abc) + ")\n"
    text += "\n"
    if pydantic and rich:
        text += "from pydantic import model_validator\n"
    text += "\nimport betterproto\n"
    if has_service:
        text += "from betterproto.grpc.grpclib_server import ServiceBase\nimport grpclib\n"
    text += "\n"
    if has_service:
        text += "from typing import TYPE_CHECKING\n\nif TYPE_CHECKING:\n"
        text += "    from betterproto.grpc.grpclib_client import MetadataLike\n"
        text += "    from grpclib.metadata import Deadline\n"
        text += "    import grpclib.server\n"
    return text


def top_level_imports(source):
    found = []
    for node in ast.parse(source).body:
        if isinstance(node, ast.Import):
            found += [("import", a.name, a.asname) for a in node.names]
        elif isinstance(node, ast.ImportFrom):
            found += [("from", "." * node.level + (node.module or ""), a.name, a.asname) for a in node.names]
    return found


def shape(module):
    out = {}
    for name in module.__all__:
        obj = getattr(module, name)
        if isinstance(obj, type) and issubclass(obj, betterproto.Enum):
            out[name] = tuple((m.name, int(m)) for m in obj)
        elif isinstance(obj, type) and issubclass(obj, betterproto.Message):
            out[name] = tuple(
                (f.name, m.number, m.proto_type, m.map_types, m.group, m.wraps)
                for f in dataclasses.fields(obj)
                for m in [f.metadata["betterproto"]]
            )
    return out


def exercise(pkg, dep, shadow, wk, rich):
    """Import a variant and encode a fixed set of values with it."""
    mod = importlib.import_module(f"{pkg}.pkg")
    kwargs = {"id": 5}
    if wk in ("duration", "both"):
        kwargs["took"] = timedelta(seconds=3, microseconds=500)
    if wk in ("timestamp", "both"):
        kwargs["at"] = datetime(2020, 5, 17, 1, 2, 3, tzinfo=timezone.utc)
    if wk == "both":
        kwargs["laps"] = {"one": timedelta(seconds=61)}
    if shadow:
        kwargs["int"] = "text"
        kwargs["after"] = 9
    if rich:
        sub = importlib.import_module(f"{pkg}.pkg.sub")
        kwargs.update(maybe=0, tags=["x", "y"], counts={"k": 2**40}, leaf=mod.Leaf(n=1),
                      other=sub.Other(name="o"), mode=mod.Mode.ON)
    results = []
    with warnings.catch_warnings(record=True) as caught:
        warnings.simplefilter("always")
        plain = mod.Main(**kwargs)
        with_old = mod.Main(old="legacy", **kwargs)
        empty = mod.Main()
    texts = sorted(str(w.message) for w in caught if issubclass(w.category, DeprecationWarning))
    for message in (plain, with_old, empty):
        results.append((bytes(message), message.to_json()))
        again = type(message)().parse(bytes(message)) if dep not in ("message", "all") else None
        if again is not None:
            assert bytes(again) == bytes(message)
    has_service = rich or dep in ("method", "all")
    assert hasattr(mod, "ApiStub") == hasattr(mod, "ApiBase") == has_service
    if has_service:
        mapping = mod.ApiBase().__mapping__()
        results.append(tuple(sorted((route, handler.cardinality.name) for route, handler in mapping.items())))
    return shape(mod), results, texts


def part_schemas():
    root = tempfile.mkdtemp(prefix="c18gen")
    sys.path.insert(0, root)
    digest = hashlib.sha256()
    count = 0
    try:
        for dep, shadow, wk, rich in itertools.product(DEPRECATION, (False, True), WELL_KNOWN, (False, True)):
            protos = schema(dep, shadow, wk, rich)
            fds = descriptor_set(protos)
            reference = None
            for option in CONFIGS:
                files, models = run_plugin(fds, list(protos), option)
                for name in sorted(files):
                    digest.update(name.encode())
                    digest.update(files[name].encode())
                model = models["pkg"]
                source = files["pkg/__init__.py"]
                case = (dep, shadow, wk, rich, option)

                # -- python_module_imports
                want_modules = ({"warnings"} if dep != "none" else set()) | ({"builtins"} if shadow else set())
                got_modules = model.python_module_imports
                assert isinstance(got_modules, set) and got_modules == want_modules, (case, got_modules)
                if rich:
                    assert models["pkg.sub"].python_module_imports == set()

                # -- header text
                want_header = expected_header(model, option, dep, shadow, wk, rich)
                assert source.startswith(want_header), (
                    case, source[: len(want_header) + 80], want_header)
                rest = source[len(want_header):]
                assert rest.startswith("class Mode(betterproto.Enum):"), (case, rest[:80])

                # -- imports as python sees them
                imports = top_level_imports(source)
                assert (("import", "warnings", None) in imports) == (dep != "none"), case
                assert (("import", "builtins", None) in imports) == bool(shadow), case
                dt = [i[2] for i in imports if i[0] == "from" and i[1] == "datetime"]
                assert dt == {"none": [], "duration": ["timedelta"], "timestamp": ["datetime"],
                              "both": ["datetime", "timedelta"]}[wk], (case, dt)
                pyd = [i[2] for i in imports if i[0] == "from" and i[1] == "pydantic"]
                assert pyd == (["model_validator"] if ("pydantic" in option and rich) else []), (case, pyd)
                typing_names = [i[2] for i in imports if i[0] == "from" and i[1] == "typing"]
                recorded = model.typing_compiler.imports()
                if option.startswith("typing.direct"):
                    extra = ["TYPE_CHECKING"] if "TYPE_CHECKING" in typing_names else []
                    assert typing_names == sorted(recorded.get("typing", ())) + extra, (case, typing_names)
                else:
                    assert typing_names in ([], ["TYPE_CHECKING"]), (case, typing_names)
                assert (("import", "typing", None) in imports) == (
                    option.startswith("typing.root") and recorded == {"typing": None}), case
                abc_names = [i[2] for i in imports if i[0] == "from" and i[1] == "collections.abc"]
                assert abc_names == sorted(recorded.get("collections.abc", ())) or not option.startswith("typing.310")
                if not option.startswith("typing.310"):
                    assert abc_names == []

                # -- behaviour of the variant
                pkg = materialize(files, root)
                result = exercise(pkg, dep, shadow, wk, rich)
                want_warnings = []
                if dep in ("message", "all"):
                    want_warnings += ["Main is deprecated"] * 3
                if dep in ("field", "all"):
                    want_warnings += ["Main.old is deprecated"]
                assert result[2] == sorted(want_warnings), (case, result[2])
                if reference is None:
                    assert option == DEFAULT
                    reference = result
                assert result == reference, case
                count += 1
        return count, digest.hexdigest()
    finally:
        shutil.rmtree(root, ignore_errors=True)
        sys.path.remove(root)


def main():
    n_lines = part_import_lines()
    n_modules, digest = part_schemas()
    assert n_modules == 80 * 6
    assert digest == SOURCES_SHA256, digest
    print(f"OK: {n_lines} import_lines cases, {n_modules} generated packages")


if __name__ == "__main__":
    main()
