"""equiv.py for C08 / keep2: how Message.load collects the raw bytes of unknown fields.

Checks, with an independent wire-format reader as the oracle and google.protobuf as a
reference decoder:

  1. schema evolution round trips (newer -> older with random subsets of fields deleted,
     also inside the sub-message -> newer), plain and size-delimited;
  2. random well-formed unknown-field sequences (all four wire types, field numbers up to
     2**29-1, non-minimal varints) interleaved at random positions among known fields:
     known fields decode as if the unknown ones were absent, _unknown_fields is the
     concatenation of the unknown raw bytes in arrival order, re-encoding re-emits them
     byte for byte after the known fields;
  3. known numbers arriving with a mismatching wire type are kept as unknown fields, in
     order with the other unknown fields;
  4. several loads into one instance accumulate; copies keep the bytes;
  5. error paths: input truncated at every possible byte, wrong sizes for sized loads,
     undecodable known fields - the exception type/message and the state the instance is
     left in (known fields and unknown fields read before the error).

Exits 0 on the pristine tree and with the refactor applied.
"""
import copy
import dataclasses
import random
import struct
from dataclasses import dataclass
from io import BytesIO
from typing import Dict, List

import betterproto
from betterproto import SIZE_DELIMITED
from google.protobuf import descriptor_pb2, descriptor_pool, message_factory

rnd = random.Random(0xC082)
TOP = 2**29 - 1

# ------------------------------------------------------------------ independent oracle


def varint(value: int) -> bytes:
    if value < 0:
        value += 1 << 64
    out = []
    while True:
        low = value % 128
        value //= 128
        out.append(low + 128 if value else low)
        if not value:
            return bytes(out)


def padded_varint(value: int, extra: int) -> bytes:
    """non-minimal (but well-formed) encoding: `extra` redundant groups"""
    raw = bytearray(varint(value))
    if extra and len(raw) + extra <= 10:
        raw[-1] |= 0x80
        raw += b"\x80" * (extra - 1) + b"\x00"
    return bytes(raw)


def tag(number: int, wire: int) -> bytes:
    return varint(number << 3 | wire)


def oracle_read_varint(buf: bytes, pos: int):
    shift = result = 0
    while True:
        if pos >= len(buf):
            return None
        b = buf[pos]
        pos += 1
        result |= (b & 0x7F) << shift
        if not b & 0x80:
            return result, pos
        shift += 7


def oracle_fields(buf: bytes):
    """[(number, wire_type, raw)] of the complete fields of buf, and whether buf ended
    cleanly at a field boundary."""
    out, pos = [], 0
    while pos < len(buf):
        start = pos
        r = oracle_read_varint(buf, pos)
        if r is None:
            return out, False
        key, pos = r
        number, wire = key >> 3, key & 7
        if wire == 0:
            r = oracle_read_varint(buf, pos)
            if r is None:
                return out, False
            pos = r[1]
        elif wire == 1:
            pos += 8
        elif wire == 5:
            pos += 4
        elif wire == 2:
            r = oracle_read_varint(buf, pos)
            if r is None:
                return out, False
            pos = r[1] + r[0]
        else:
            raise AssertionError("oracle: unsupported wire type")
        if pos > len(buf):
            return out, False
        out.append((number, wire, buf[start:pos]))
    return out, True


# ------------------------------------------------------------------------- schemas


@dataclass(eq=False, repr=False)
class Child(betterproto.Message):
    x: int = betterproto.int32_field(1)
    y: str = betterproto.string_field(2)
    z: bytes = betterproto.bytes_field(16)
    w: int = betterproto.fixed32_field(2048)


@dataclass(eq=False, repr=False)
class Newer(betterproto.Message):
    a: int = betterproto.int32_field(1)
    s: str = betterproto.string_field(2)
    b: bytes = betterproto.bytes_field(3)
    f32: int = betterproto.fixed32_field(4)
    f64: int = betterproto.sfixed64_field(5)
    d: float = betterproto.double_field(6)
    fl: float = betterproto.float_field(7)
    z: int = betterproto.sint64_field(8)
    flag: bool = betterproto.bool_field(9)
    child: Child = betterproto.message_field(10)
    packed: List[int] = betterproto.int64_field(11)
    rs: List[str] = betterproto.string_field(12)
    m: Dict[str, int] = betterproto.map_field(13, betterproto.TYPE_STRING, betterproto.TYPE_INT32)
    rc: List[Child] = betterproto.message_field(14)
    u15: int = betterproto.uint64_field(15)
    s16: str = betterproto.string_field(16)
    hi: int = betterproto.uint64_field(2047)
    hi2: str = betterproto.string_field(2048)
    top: int = betterproto.uint32_field(TOP)


def older_class(base, keep, overrides=None, name="Older"):
    overrides = overrides or {}
    hints = base._type_hints()
    fields = []
    for f in dataclasses.fields(base):
        if f.name in keep:
            meta = betterproto.FieldMetadata.get(f)
            fields.append(
                (
                    f.name,
                    overrides.get(f.name, hints[f.name]),
                    betterproto.dataclass_field(
                        meta.number, meta.proto_type, map_types=meta.map_types,
                        group=meta.group, wraps=meta.wraps, optional=meta.optional,
                    ),
                )
            )
    return dataclasses.make_dataclass(name, fields, bases=(betterproto.Message,), eq=False, repr=False)


def numbers_of(cls):
    return {betterproto.FieldMetadata.get(f).number for f in dataclasses.fields(cls)}


def build_google():
    fdp = descriptor_pb2.FileDescriptorProto(name="c08_equiv2.proto", package="c08b", syntax="proto3")
    F = descriptor_pb2.FieldDescriptorProto
    O, R = F.LABEL_OPTIONAL, F.LABEL_REPEATED
    child = fdp.message_type.add(name="Child")
    child.field.add(name="x", number=1, type=F.TYPE_INT32, label=O)
    child.field.add(name="y", number=2, type=F.TYPE_STRING, label=O)
    child.field.add(name="z", number=16, type=F.TYPE_BYTES, label=O)
    child.field.add(name="w", number=2048, type=F.TYPE_FIXED32, label=O)
    m = fdp.message_type.add(name="Newer")
    entry = m.nested_type.add(name="MEntry")
    entry.options.map_entry = True
    entry.field.add(name="key", number=1, type=F.TYPE_STRING, label=O)
    entry.field.add(name="value", number=2, type=F.TYPE_INT32, label=O)
    for name, number, typ, label, tn in [
        ("a", 1, F.TYPE_INT32, O, None), ("s", 2, F.TYPE_STRING, O, None),
        ("b", 3, F.TYPE_BYTES, O, None), ("f32", 4, F.TYPE_FIXED32, O, None),
        ("f64", 5, F.TYPE_SFIXED64, O, None), ("d", 6, F.TYPE_DOUBLE, O, None),
        ("fl", 7, F.TYPE_FLOAT, O, None), ("z", 8, F.TYPE_SINT64, O, None),
        ("flag", 9, F.TYPE_BOOL, O, None), ("child", 10, F.TYPE_MESSAGE, O, ".c08b.Child"),
        ("packed", 11, F.TYPE_INT64, R, None), ("rs", 12, F.TYPE_STRING, R, None),
        ("m", 13, F.TYPE_MESSAGE, R, ".c08b.Newer.MEntry"),
        ("rc", 14, F.TYPE_MESSAGE, R, ".c08b.Child"), ("u15", 15, F.TYPE_UINT64, O, None),
        ("s16", 16, F.TYPE_STRING, O, None), ("hi", 2047, F.TYPE_UINT64, O, None),
        ("hi2", 2048, F.TYPE_STRING, O, None), ("top", TOP, F.TYPE_UINT32, O, None),
    ]:
        fd = m.field.add(name=name, number=number, type=typ, label=label)
        if tn:
            fd.type_name = tn
    pool = descriptor_pool.DescriptorPool()
    pool.Add(fdp)
    return message_factory.GetMessageClass(pool.FindMessageTypeByName("c08b.Newer"))


GNewer = build_google()


def g_parse(data: bytes):
    g = GNewer()
    g.ParseFromString(data)
    return g


def g_view(data: bytes):
    """reference decoder's view; random unknown payloads may be invalid for the type the
    newer schema gives that number (bad UTF-8, ...) - then both sides must fail alike"""
    try:
        return g_parse(data)
    except Exception as e:  # noqa
        return ("decode-error", type(e).__name__)


SIZES = [0, 1, 2, 127, 128, 300]


def rand_str(n):
    return "".join(rnd.choice("abcxyz09 _") for _ in range(n))


def rand_child():
    return Child(
        x=rnd.choice([0, 1, -1, 128, 2**31 - 1, -(2**31)]),
        y=rand_str(rnd.choice(SIZES)),
        z=rnd.randbytes(rnd.choice(SIZES)),
        w=rnd.choice([0, 1, 2**32 - 1]),
    )


def rand_newer(p=0.7):
    v = Newer()
    gens = {
        "a": lambda: rnd.choice([1, -1, 127, 128, 2**31 - 1, -(2**31)]),
        "s": lambda: rand_str(rnd.choice(SIZES)),
        "b": lambda: rnd.randbytes(rnd.choice(SIZES)),
        "f32": lambda: rnd.choice([1, 2**32 - 1, 0x80]),
        "f64": lambda: rnd.choice([1, -1, 2**63 - 1, -(2**63)]),
        "d": lambda: rnd.choice([1.5, -2.25, 1e300, float("inf")]),
        "fl": lambda: rnd.choice([1.5, -2.25, 0.5]),
        "z": lambda: rnd.choice([1, -1, 63, -64, 64, -65, 2**63 - 1, -(2**63)]),
        "flag": lambda: True,
        "child": rand_child,
        "packed": lambda: [rnd.choice([0, 1, -1, 128, 2**63 - 1, -(2**63)]) for _ in range(rnd.randrange(1, 20))],
        "rs": lambda: [rand_str(rnd.choice([0, 1, 127, 128])) for _ in range(rnd.randrange(1, 4))],
        "m": lambda: {rand_str(rnd.choice([0, 1, 5, 130])): rnd.choice([0, 1, -1, 300]) for _ in range(rnd.randrange(1, 4))},
        "rc": lambda: [rand_child() for _ in range(rnd.randrange(1, 4))],
        "u15": lambda: rnd.choice([1, 127, 128, 2**64 - 1]),
        "s16": lambda: rand_str(rnd.choice(SIZES)),
        "hi": lambda: rnd.choice([1, 2**63, 2**64 - 1]),
        "hi2": lambda: rand_str(rnd.choice(SIZES)),
        "top": lambda: rnd.choice([1, 2**32 - 1]),
    }
    for name, gen in gens.items():
        if rnd.random() < p:
            setattr(v, name, gen())
    return v


# ----------------------------------------------------------------- 1. schema evolution


def check_pair(older_cls, value: Newer):
    data = bytes(value)
    known = numbers_of(older_cls)
    older = older_cls().parse(data)
    fields, clean = oracle_fields(data)
    assert clean
    want_unknown = b"".join(raw for number, _, raw in fields if number not in known)
    assert type(older._unknown_fields) is bytes
    assert older._unknown_fields == want_unknown
    again = bytes(older)
    assert again.endswith(want_unknown) and len(older) == len(again)
    back = Newer().parse(again)
    assert back == value and bytes(back) == data
    assert g_parse(again) == g_parse(data)
    # stream relay, size delimited
    src = BytesIO()
    value.dump(src, SIZE_DELIMITED)
    value.dump(src, SIZE_DELIMITED)
    src.seek(0)
    relay = BytesIO()
    for _ in range(2):
        o = older_cls().load(src, SIZE_DELIMITED)
        assert o._unknown_fields == want_unknown
        o.dump(relay, SIZE_DELIMITED)
    assert src.read(1) == b""
    relay.seek(0)
    for _ in range(2):
        assert Newer().load(relay, SIZE_DELIMITED) == value
    assert relay.read(1) == b""


def part1():
    top_names = [f.name for f in dataclasses.fields(Newer)]
    child_names = [f.name for f in dataclasses.fields(Child)]
    child_variants = [older_class(Child, set(), name="ChildNone")]
    for name in child_names:
        child_variants.append(older_class(Child, set(child_names) - {name}, name="ChildMinus_" + name))
        child_variants.append(older_class(Child, {name}, name="ChildOnly_" + name))
    subsets = [set(top_names) - {n} for n in top_names] + [{n} for n in top_names] + [set()]
    for _ in range(30):
        subsets.append({n for n in top_names if rnd.random() < 0.5})
    values = [rand_newer() for _ in range(20)] + [Newer(), Newer(child=Child(), rc=[Child(), Child()])]
    n = 0
    for i, keep in enumerate(subsets):
        overrides = {}
        if rnd.random() < 0.7:
            cv = rnd.choice(child_variants)
            overrides = {"child": cv, "rc": List[cv]}
        oc = older_class(Newer, keep, overrides, name=f"Older{i}")
        for v in rnd.sample(values, 6):
            check_pair(oc, v)
            n += 1
    return n


# --------------------------------------------------------------------- 2. interleaving


@dataclass(eq=False, repr=False)
class Older(betterproto.Message):
    a: int = betterproto.int32_field(1)
    s: str = betterproto.string_field(2)
    f32: int = betterproto.fixed32_field(4)
    d: float = betterproto.double_field(6)
    child: Child = betterproto.message_field(10)
    packed: List[int] = betterproto.int64_field(11)
    rs: List[str] = betterproto.string_field(12)
    m: Dict[str, int] = betterproto.map_field(13, betterproto.TYPE_STRING, betterproto.TYPE_INT32)


OLDER_NUMBERS = numbers_of(Older)


def rand_unknown_number():
    while True:
        n = rnd.choice([3, 5, 7, 8, 9, 14, 15, 16, 17, 100, 2047, 2048, 2**21, 2**28 - 1, 2**28, TOP,
                        rnd.randrange(1, TOP + 1)])
        if n not in OLDER_NUMBERS:
            return n


def rand_unknown_field() -> bytes:
    n = rand_unknown_number()
    wire = rnd.choice([0, 1, 2, 5])
    if wire == 0:
        v = rnd.choice([0, 1, 127, 128, 2**32, 2**63, 2**64 - 1, rnd.getrandbits(64)])
        return tag(n, 0) + padded_varint(v, rnd.choice([0, 0, 0, 1, 2]))
    if wire == 1:
        return tag(n, 1) + rnd.randbytes(8)
    if wire == 5:
        return tag(n, 5) + rnd.randbytes(4)
    payload = rnd.randbytes(rnd.choice([0, 0, 1, 2, 127, 128, 129, 1000, 16384]))
    return tag(n, 2) + padded_varint(len(payload), rnd.choice([0, 0, 0, 1])) + payload


def rand_known_fields():
    """wire fields of Older, one list item per field occurrence"""
    out = []
    if rnd.random() < 0.7:
        out.append(tag(1, 0) + varint(rnd.choice([1, -1, 300, -(2**31)])))
    if rnd.random() < 0.7:
        s = rand_str(rnd.choice([0, 1, 127, 128])).encode()
        out.append(tag(2, 2) + varint(len(s)) + s)
    if rnd.random() < 0.7:
        out.append(tag(4, 5) + struct.pack("<I", rnd.choice([0, 1, 2**32 - 1])))
    if rnd.random() < 0.7:
        out.append(tag(6, 1) + struct.pack("<d", rnd.choice([0.0, 1.5, -2.25])))
    if rnd.random() < 0.7:
        c = bytes(rand_child()) + (rand_unknown_child_field() if rnd.random() < 0.5 else b"")
        out.append(tag(10, 2) + varint(len(c)) + c)
    for _ in range(rnd.randrange(0, 3)):  # packed chunks and single occurrences
        if rnd.random() < 0.5:
            out.append(tag(11, 0) + varint(rnd.choice([0, 1, -1, 2**40])))
        else:
            body = b"".join(varint(rnd.choice([0, 1, -1, 2**40])) for _ in range(rnd.randrange(0, 5)))
            out.append(tag(11, 2) + varint(len(body)) + body)
    for _ in range(rnd.randrange(0, 3)):
        s = rand_str(rnd.choice([0, 1, 5])).encode()
        out.append(tag(12, 2) + varint(len(s)) + s)
    for _ in range(rnd.randrange(0, 3)):
        k = rand_str(rnd.choice([1, 2])).encode()
        e = tag(1, 2) + varint(len(k)) + k + tag(2, 0) + varint(rnd.choice([0, 1, -1]))
        out.append(tag(13, 2) + varint(len(e)) + e)
    return out


def rand_unknown_child_field() -> bytes:
    n = rnd.choice([3, 15, 17, 2047, TOP])
    return rnd.choice([
        tag(n, 0) + varint(rnd.getrandbits(64)),
        tag(n, 5) + rnd.randbytes(4),
        tag(n, 1) + rnd.randbytes(8),
        tag(n, 2) + varint(3) + b"abc",
    ])


def known_state(msg: Older):
    return (msg.a, msg.s, msg.f32, msg.d, bytes(msg.child), betterproto.serialized_on_wire(msg.child),
            list(msg.packed), list(msg.rs), dict(msg.m))


def interleave(known, unknown):
    """random merge keeping the relative order inside each list"""
    slots = [0] * len(known) + [1] * len(unknown)
    rnd.shuffle(slots)
    ki, ui = iter(known), iter(unknown)
    return [next(ki) if s == 0 else next(ui) for s in slots]


def part2():
    for it in range(1500):
        known = rand_known_fields()
        unknown = [rand_unknown_field() for _ in range(rnd.choice([0, 1, 1, 2, 3, 8]))]
        if it % 3 == 0:      # unknown fields at the very start / very end / both
            seq = unknown[:1] + known + unknown[1:]
        else:
            seq = interleave(known, unknown)
        data = b"".join(seq)
        got = Older().parse(data)
        plain = Older().parse(b"".join(known))
        assert plain._unknown_fields == b""
        assert known_state(got) == known_state(plain), (it, data)
        assert got == plain
        assert type(got._unknown_fields) is bytes
        assert got._unknown_fields == b"".join(unknown), (it, data)
        out = bytes(got)
        assert out == bytes(plain) + b"".join(unknown)
        assert len(got) == len(out)
        # a second pass through the older schema changes nothing
        assert bytes(Older().parse(out)) == out
        # reference decoder (as the newer schema): same view before and after
        assert g_view(out) == g_view(b"".join(known) + b"".join(unknown))
        # sized load from a longer stream stops exactly at the end of the message
        trailer = b"\x08\x01tail"
        st = BytesIO(data + trailer)
        sized = Older().load(st, len(data))
        assert st.read() == trailer
        assert known_state(sized) == known_state(plain) and sized._unknown_fields == b"".join(unknown)
        st = BytesIO(varint(len(data)) + data + trailer)
        sized = Older().load(st, SIZE_DELIMITED)
        assert st.read() == trailer
        assert known_state(sized) == known_state(plain) and sized._unknown_fields == b"".join(unknown)


# --------------------------------------------------------- 3. mismatching wire types


def part3():
    cases = [
        tag(1, 2) + b"\x02hi",            # a: int32 sent as bytes
        tag(1, 5) + b"\x01\x02\x03\x04",  # a as fixed32
        tag(1, 1) + b"\x01\x02\x03\x04\x05\x06\x07\x08",
        tag(2, 0) + b"\x05",              # s: string sent as varint
        tag(4, 0) + b"\x05",              # f32 as varint
        tag(4, 1) + bytes(8),             # f32 as fixed64
        tag(4, 2) + b"\x04abcd",          # singular fixed32 sent as length-delimited
        tag(6, 5) + bytes(4),             # double as fixed32
        tag(10, 0) + b"\x00",             # message as varint
        tag(11, 5) + bytes(4),            # repeated int64 as fixed32
        tag(12, 0) + b"\x01",             # repeated string as varint
        tag(13, 1) + bytes(8),            # map as fixed64
    ]
    for it in range(300):
        known = rand_known_fields()
        odd = [rnd.choice(cases) for _ in range(rnd.randrange(1, 4))] + [rand_unknown_field() for _ in range(rnd.randrange(0, 3))]
        rnd.shuffle(odd)
        seq = interleave(known, odd)
        got = Older().parse(b"".join(seq))
        plain = Older().parse(b"".join(known))
        assert known_state(got) == known_state(plain)
        assert got._unknown_fields == b"".join(odd)
        assert bytes(got) == bytes(plain) + b"".join(odd)
    # packed run for a repeated scalar is NOT a mismatch
    m = Older().parse(tag(11, 2) + b"\x02\x01\x02" + tag(3, 0) + b"\x07")
    assert m.packed == [1, 2] and m._unknown_fields == tag(3, 0) + b"\x07"


# -------------------------------------------------- 4. accumulation, copies, pickling


def part4():
    import pickle

    u1, u2, u3 = tag(3, 0) + b"\x01", tag(TOP, 2) + b"\x01z", tag(5, 5) + b"abcd"
    m = Older()
    assert m._unknown_fields == b""
    assert m.parse(tag(1, 0) + b"\x05" + u1) is m
    assert m._unknown_fields == u1
    m.parse(u2 + tag(2, 2) + b"\x01q" + u3)
    assert m._unknown_fields == u1 + u2 + u3 and m.a == 5 and m.s == "q"
    m.parse(b"")
    m.parse(tag(1, 0) + b"\x06")
    assert m._unknown_fields == u1 + u2 + u3 and m.a == 6
    m.load(BytesIO(u1 + b"rest"), len(u1))
    assert m._unknown_fields == u1 + u2 + u3 + u1
    assert bytes(m) == tag(1, 0) + b"\x06" + tag(2, 2) + b"\x01q" + u1 + u2 + u3 + u1
    for c in (copy.copy(m), copy.deepcopy(m), pickle.loads(pickle.dumps(m)), Older.FromString(bytes(m))):
        assert c._unknown_fields == m._unknown_fields and bytes(c) == bytes(m) and c == m
    c = copy.deepcopy(m)
    c.parse(u2)
    assert c._unknown_fields == m._unknown_fields + u2 and m._unknown_fields == u1 + u2 + u3 + u1
    # an empty message (only unknown fields) nested in a known field
    outer = Older().parse(tag(10, 2) + varint(len(u1 + u3)) + u1 + u3)
    assert outer.child._unknown_fields == u1 + u3 and outer._unknown_fields == b""
    assert bytes(outer) == tag(10, 2) + varint(len(u1 + u3)) + u1 + u3
    # a message class without any field keeps everything
    @dataclass(eq=False, repr=False)
    class Nothing(betterproto.Message):
        pass

    v = rand_newer(1.0)
    assert bytes(Nothing().parse(bytes(v))) == bytes(v)
    assert Nothing().parse(bytes(v))._unknown_fields == bytes(v)


# ----------------------------------------------------------------------- 5. error paths


def outcome(cls, action):
    """(exception type, exception text, state of the instance afterwards)"""
    msg = cls()
    try:
        action(msg)
        err = None
    except Exception as e:  # noqa
        err = (type(e), str(e))
    return err, known_state(msg), msg._unknown_fields, betterproto.serialized_on_wire(msg)


def part5():
    for it in range(60):
        known = rand_known_fields()
        unknown = [rand_unknown_field() for _ in range(rnd.randrange(1, 5))]
        # keep the sample small enough to cut at every byte
        unknown = [u if len(u) < 200 else tag(3, 2) + b"\x03abc" for u in unknown]
        known = [k for k in known if len(k) < 200]
        seq = interleave(known, unknown)
        data = b"".join(seq)
        for cut in range(len(data) + 1):
            prefix = data[:cut]
            fields, clean = oracle_fields(prefix)
            want_unknown = b"".join(raw for n, _, raw in fields if n not in OLDER_NUMBERS)
            want_known = known_state(Older().parse(b"".join(raw for n, _, raw in fields if n in OLDER_NUMBERS)))
            err, state, unk, on_wire = outcome(Older, lambda m: m.parse(prefix))
            if clean:
                assert err is None, (it, cut, err)
            else:
                assert err is not None and err[0] is EOFError, (it, cut, err)
            # everything that was complete before the cut has been applied
            assert state == want_known, (it, cut)
            assert unk == want_unknown, (it, cut, unk, want_unknown)
            assert on_wire is True

            # sized load with the full data available but a size that ends at `cut`
            err, state, unk, on_wire = outcome(Older, lambda m: m.load(BytesIO(data + b"\x08\x01"), cut))
            if clean:
                assert err is None, (it, cut, err)
                assert state == want_known and unk == want_unknown
            else:
                # the field that straddles the boundary is read, accounted and applied,
                # then the over-run is reported
                nfields, _ = oracle_fields(data)
                straddle = nfields[len(fields)]
                done = sum(len(r) for _, _, r in fields)
                assert err == (
                    ValueError,
                    f"Expected message of size {cut}, can only read either {done} or "
                    f"{done + len(straddle[2])} bytes - there is no message of the expected size in the stream.",
                ), (it, cut, err)
                assert unk == want_unknown, (it, cut)
                assert state == want_known
            # sized load, stream shorter than the size
            if cut < len(data):
                err, state, unk, on_wire = outcome(Older, lambda m: m.load(BytesIO(prefix), len(data)))
                assert err is not None
                if clean:
                    assert err == (
                        ValueError,
                        f"Expected message of size {len(data)}, but was only able to read {cut} bytes - "
                        "the stream may have ended too soon, or the expected size may have been incorrect.",
                    ), (it, cut, err)
                else:
                    assert err[0] is EOFError
                assert state == want_known and unk == want_unknown

    # malformed input after some unknown fields: they are kept, the error is the reader's
    u1, u2 = tag(3, 0) + b"\x01", tag(TOP, 5) + b"abcd"
    bad_inputs = [
        (u1 + u2 + b"\x00\x00", ValueError, "Invalid field number 0."),
        (u1 + u2 + tag(7, 3), ValueError, "Unsupported wire type 3 in field 7."),
        (u1 + u2 + tag(7, 4), ValueError, "Unsupported wire type 4 in field 7."),
        (u1 + u2 + tag(7, 6), ValueError, "Unsupported wire type 6 in field 7."),
        (u1 + u2 + tag(7, 0) + b"\xff" * 10 + b"\x01", ValueError, "Too many bytes when decoding varint."),
        (u1 + u2 + tag(2, 2) + b"\x02\xff\xfe", UnicodeDecodeError, None),   # known string, bad utf-8
        (u1 + u2 + tag(10, 2) + b"\x02\x08\x80", EOFError, None),           # known child, truncated inside
        (u1 + u2 + tag(10, 2) + b"\x01\x00", ValueError, None),             # known child, field number 0
        (u1 + u2 + tag(11, 2) + b"\x02\x01\x80", EOFError, None),           # packed run, truncated varint
    ]
    for data, exc, text in bad_inputs:
        err, state, unk, on_wire = outcome(Older, lambda m: m.parse(data))
        assert err is not None and err[0] is exc, (data, err)
        if text is not None:
            assert err[1] == text, (data, err)
        assert unk == u1 + u2, (data, unk)
        assert state == known_state(Older())
        # with a known field and a third unknown field in front as well
        err, state, unk, on_wire = outcome(Older, lambda m: m.parse(tag(1, 0) + b"\x09" + u2 + data))
        assert err is not None and err[0] is exc
        assert unk == u2 + u1 + u2 and state[0] == 9
    # delimiter itself truncated: nothing happens to the instance
    err, state, unk, on_wire = outcome(Older, lambda m: m.load(BytesIO(b"\x80"), SIZE_DELIMITED))
    assert err is not None and err[0] is EOFError and unk == b"" and on_wire is False
    err, state, unk, on_wire = outcome(Older, lambda m: m.load(BytesIO(b""), SIZE_DELIMITED))
    assert err is not None and err[0] is EOFError and unk == b"" and on_wire is False
    # empty delimited message consumes only its prefix
    st = BytesIO(b"\x00" + u1)
    m = Older().load(st, SIZE_DELIMITED)
    assert m._unknown_fields == b"" and st.read() == u1 and betterproto.serialized_on_wire(m)


if __name__ == "__main__":
    n = part1()
    part2()
    part3()
    part4()
    part5()
    print("ok", n, "schema/value pairs")
