"""C05 keep1: _Timestamp.timestamp_to_json must keep emitting RFC 3339 UTC text with 0, 3
or 6 fractional digits, identical to the reference (google.protobuf Timestamp.ToJsonString)
for every microsecond-resolution time, and whole messages with Timestamp fields must
round-trip betterproto <-> google.protobuf.json_format in both directions."""
import json
import random
from dataclasses import dataclass
from datetime import datetime, timedelta, timezone
from typing import Dict, List

import betterproto
from betterproto import _Timestamp
from google.protobuf import (
    descriptor_pb2,
    descriptor_pool,
    json_format,
    message_factory,
    timestamp_pb2,
)

F = descriptor_pb2.FieldDescriptorProto
UTC = timezone.utc


def literal(dt: datetime) -> str:
    """What the spec says, written out independently (dt is UTC or naive-as-UTC)."""
    base = "%04d-%02d-%02dT%02d:%02d:%02d" % (
        dt.year, dt.month, dt.day, dt.hour, dt.minute, dt.second
    )
    us = dt.microsecond
    if us == 0:
        return base + "Z"
    if us % 1000 == 0:
        return base + ".%03dZ" % (us // 1000)
    return base + ".%06dZ" % us


def reference_text(dt: datetime) -> str:
    ts = timestamp_pb2.Timestamp()
    ts.FromDatetime(dt)
    return ts.ToJsonString()


# ---------------------------------------------------------------------------------------
# 1. the function itself
# ---------------------------------------------------------------------------------------
rng = random.Random(505)
MICROS = [0, 1, 9, 10, 99, 100, 999, 1000, 1001, 1999, 2000, 10000, 99999, 100000,
          123000, 123456, 500000, 999000, 999001, 999999]
MICROS += [rng.randrange(10**6) for _ in range(300)]
MICROS += [rng.randrange(1000) * 1000 for _ in range(100)]
BASES = [
    datetime(1, 1, 1, 0, 0, 0),
    datetime(1, 1, 1, 0, 0, 1),
    datetime(9, 9, 9, 9, 9, 9),
    datetime(99, 12, 31, 23, 59, 59),
    datetime(999, 12, 31, 23, 59, 59),
    datetime(1000, 1, 1, 0, 0, 0),
    datetime(1969, 12, 31, 23, 59, 59),
    datetime(1970, 1, 1, 0, 0, 0),
    datetime(1970, 1, 1, 0, 0, 1),
    datetime(2000, 2, 29, 12, 0, 0),
    datetime(2023, 10, 11, 9, 41, 12),
    datetime(2038, 1, 19, 3, 14, 7),
    datetime(2038, 1, 19, 3, 14, 8),
    datetime(2242, 12, 31, 23, 0, 0),
    datetime(9999, 12, 31, 23, 59, 59),
]
for _ in range(300):
    BASES.append(
        datetime(1, 1, 1) + timedelta(seconds=rng.randrange(0, 315537897599))
    )

count = 0
for base in BASES:
    for us in MICROS[: 20 + 40]:
        naive = base.replace(microsecond=us)
        aware = naive.replace(tzinfo=UTC)
        want = literal(naive)
        assert _Timestamp.timestamp_to_json(naive) == want, (naive, want)
        assert _Timestamp.timestamp_to_json(aware) == want, (aware, want)
        assert reference_text(aware) == want, (aware, want)
        count += 1
for us in MICROS:
    for base in BASES[:15]:
        aware = base.replace(microsecond=us, tzinfo=UTC)
        got = _Timestamp.timestamp_to_json(aware)
        assert got == literal(aware) == reference_text(aware), (aware, got)
        # never 9 digits, never a bare '.', always a trailing Z
        frac = got[19:-1]
        assert got.endswith("Z") and len(frac) in (0, 4, 7), got
        count += 1

# timezone-aware, not UTC: converted to UTC first (sub-minute offsets included)
OFFSETS = [
    timedelta(0), timedelta(hours=1), timedelta(hours=-1), timedelta(hours=5, minutes=30),
    timedelta(hours=-9, minutes=-30), timedelta(hours=14), timedelta(hours=-12),
    timedelta(hours=23, minutes=59), timedelta(hours=-23, minutes=-59),
    timedelta(seconds=1), timedelta(seconds=-37), timedelta(minutes=7, seconds=21),
]
for off in OFFSETS:
    tz = timezone(off)
    for base in BASES[4:14] + BASES[20:60]:
        for us in MICROS[:25]:
            local = base.replace(microsecond=us, tzinfo=tz)
            utc = local.astimezone(UTC)
            got = _Timestamp.timestamp_to_json(local)
            assert got == literal(utc), (local, got)
            assert got == reference_text(local), (local, got)
            count += 1


# ---------------------------------------------------------------------------------------
# 2. whole messages against google.protobuf.json_format
# ---------------------------------------------------------------------------------------
fdp = descriptor_pb2.FileDescriptorProto(
    name="c05_keep1.proto", package="c05keep1", syntax="proto3",
    dependency=["google/protobuf/timestamp.proto"],
)
msg = fdp.message_type.add(name="T")
TS = ".google.protobuf.Timestamp"
msg.field.add(name="created_at", number=1, type=F.TYPE_MESSAGE, label=F.LABEL_OPTIONAL, type_name=TS)
msg.field.add(name="history", number=2, type=F.TYPE_MESSAGE, label=F.LABEL_REPEATED, type_name=TS)
entry = msg.nested_type.add(name="ByNameEntry")
entry.options.map_entry = True
entry.field.add(name="key", number=1, type=F.TYPE_STRING, label=F.LABEL_OPTIONAL)
entry.field.add(name="value", number=2, type=F.TYPE_MESSAGE, label=F.LABEL_OPTIONAL, type_name=TS)
msg.field.add(name="by_name", number=3, type=F.TYPE_MESSAGE, label=F.LABEL_REPEATED,
              type_name=".c05keep1.T.ByNameEntry")
msg.oneof_decl.add(name="when")
msg.field.add(name="at_1", number=4, type=F.TYPE_MESSAGE, label=F.LABEL_OPTIONAL, type_name=TS, oneof_index=0)
msg.field.add(name="label", number=5, type=F.TYPE_STRING, label=F.LABEL_OPTIONAL, oneof_index=0)
pool = descriptor_pool.Default()
pool.Add(fdp)
RefT = message_factory.GetMessageClass(pool.FindMessageTypeByName("c05keep1.T"))


@dataclass(eq=False, repr=False)
class T(betterproto.Message):
    created_at: datetime = betterproto.message_field(1)
    history: List[datetime] = betterproto.message_field(2)
    by_name: Dict[str, datetime] = betterproto.map_field(
        3, betterproto.TYPE_STRING, betterproto.TYPE_MESSAGE
    )
    at_1: datetime = betterproto.message_field(4, group="when")
    label: str = betterproto.string_field(5, group="when")


def canon(data: bytes) -> bytes:
    return RefT.FromString(data).SerializeToString(deterministic=True)


def pick() -> datetime:
    base = rng.choice(BASES)
    us = rng.choice(MICROS)
    return base.replace(microsecond=us, tzinfo=UTC)


messages = 0
for i in range(600):
    kwargs = {}
    if i % 3 != 2:
        kwargs["created_at"] = pick()
    if i % 2:
        kwargs["history"] = [pick() for _ in range(rng.randrange(1, 5))]
    if i % 5 in (1, 2):
        kwargs["by_name"] = {f"k{j}": pick() for j in range(rng.randrange(1, 4))}
    if i % 7 == 0:
        kwargs["at_1"] = pick()
    elif i % 7 == 1:
        kwargs["at_1"] = betterproto.DATETIME_ZERO  # set-but-default oneof member
    elif i % 7 == 2:
        kwargs["label"] = "x"
    bp = T(**kwargs)
    wire = canon(bytes(bp))

    # betterproto -> JSON -> reference
    text = bp.to_json()
    ref = json_format.Parse(text, RefT())
    assert ref.SerializeToString(deterministic=True) == wire, (kwargs, text)
    # keys are the lowerCamelCase JSON names
    assert set(json.loads(text)) <= {"createdAt", "history", "byName", "at1", "label"}, text

    # reference -> JSON -> betterproto
    ref_text = json_format.MessageToJson(RefT.FromString(bytes(bp)))
    back = T().from_json(ref_text)
    assert canon(bytes(back)) == wire, (kwargs, ref_text)
    # and both sides agree on the text of every timestamp
    assert json.loads(ref_text) == json.loads(text), (text, ref_text)
    messages += 1

print(f"C05 keep1 equiv: OK ({count} datetimes, {messages} messages)")
