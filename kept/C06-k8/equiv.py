"""C06 keep2 equivalence check: Message._from_dict_init / from_dict (the 'via from_dict' path).

 1. _from_dict_init is called directly for every field kind with JSON forms of default and
    non-default values and compared with an independently written table of expected
    Python values (types included); pass-through lists keep their identity.
 2. from_dict (class form and instance form) of every scalar kind x {implicit, proto3
    optional, oneof member, repeated} x boundary values, of wrappers, well-known types,
    sub-messages and maps is compared with google.protobuf.json_format.ParseDict: presence
    (is_set / which_one_of vs HasField / WhichOneof) and the encoded bytes must agree.
 3. null values, unknown keys, snake_case keys, empty dicts for sub-messages.
"""
import dataclasses
import math
import struct
from datetime import datetime, timedelta, timezone
from typing import Dict, List, Optional

import betterproto
from betterproto import FieldMetadata
from google.protobuf import (
    json_format,
    descriptor_pb2,
    descriptor_pool,
    duration_pb2,
    message_factory,
    timestamp_pb2,
    wrappers_pb2,
)

F = descriptor_pb2.FieldDescriptorProto
I32 = (0, 1, -1, 127, 128, -128, 2**31 - 1, -(2**31), 300, -300)
I64 = I32 + (2**31, -(2**31) - 1, 2**63 - 1, -(2**63), 2**53 + 1)
U32 = (0, 1, 127, 128, 2**31, 2**32 - 1, 16384)
U64 = U32 + (2**32, 2**63, 2**64 - 1)
FLT = (0.0, 1.0, -1.0, 0.5, -2.5, 3.4028234663852886e38, 1.401298464324817e-45,
       float("inf"), float("-inf"), float("nan"))
DBL = FLT + (1e308, 5e-324, 0.1, -0.1)

SCALARS = [
    # name, descriptor type, betterproto field factory, python type, values
    ("int32", F.TYPE_INT32, betterproto.int32_field, int, I32),
    ("int64", F.TYPE_INT64, betterproto.int64_field, int, I64),
    ("uint32", F.TYPE_UINT32, betterproto.uint32_field, int, U32),
    ("uint64", F.TYPE_UINT64, betterproto.uint64_field, int, U64),
    ("sint32", F.TYPE_SINT32, betterproto.sint32_field, int, I32),
    ("sint64", F.TYPE_SINT64, betterproto.sint64_field, int, I64),
    ("fixed32", F.TYPE_FIXED32, betterproto.fixed32_field, int, U32),
    ("fixed64", F.TYPE_FIXED64, betterproto.fixed64_field, int, U64),
    ("sfixed32", F.TYPE_SFIXED32, betterproto.sfixed32_field, int, I32),
    ("sfixed64", F.TYPE_SFIXED64, betterproto.sfixed64_field, int, I64),
    ("float", F.TYPE_FLOAT, betterproto.float_field, float, FLT),
    ("double", F.TYPE_DOUBLE, betterproto.double_field, float, DBL),
    ("bool", F.TYPE_BOOL, betterproto.bool_field, bool, (False, True)),
    ("string", F.TYPE_STRING, betterproto.string_field, str, ("", "a", "héllo ☃", "x" * 200)),
    ("bytes", F.TYPE_BYTES, betterproto.bytes_field, bytes, (b"", b"\x00", b"\xff\xfe", b"y" * 200)),
    ("enum", F.TYPE_ENUM, betterproto.enum_field, None, (0, 1, 2, -1)),
]


class Color(betterproto.Enum):
    ZERO = 0
    ONE = 1
    TWO = 2
    NEG = -1


# ------------------------------------------------------------------ reference schema
fdp = descriptor_pb2.FileDescriptorProto(
    name="c06_keep2.proto", package="c06k2", syntax="proto3",
    dependency=[
        "google/protobuf/wrappers.proto",
        "google/protobuf/timestamp.proto",
        "google/protobuf/duration.proto",
    ],
)
en = fdp.enum_type.add(name="Color")
for n, v in (("ZERO", 0), ("ONE", 1), ("TWO", 2), ("NEG", -1)):
    en.value.add(name=n, number=v)
sub_d = fdp.message_type.add(name="Sub")
sub_d.field.add(name="val", number=1, type=F.TYPE_INT32, label=F.LABEL_OPTIONAL)
sub_d.field.add(name="txt", number=2, type=F.TYPE_STRING, label=F.LABEL_OPTIONAL)

all_d = fdp.message_type.add(name="All")
all_d.oneof_decl.add(name="g")  # index 0
bp_fields = []


def add(name, number, ftype, *, label=F.LABEL_OPTIONAL, type_name=None, oneof=None, p3opt=False):
    kw = dict(name=name, number=number, type=ftype, label=label)
    if type_name:
        kw["type_name"] = type_name
    fd = all_d.field.add(**kw)
    if oneof is not None:
        fd.oneof_index = oneof
    if p3opt:
        fd.proto3_optional = True
    return fd


synthetic = []  # proto3 optional fields need their synthetic oneofs after the real ones
for i, (tname, ftype, factory, pytype, _values) in enumerate(SCALARS):
    tn = ".c06k2.Color" if tname == "enum" else None
    py = Color if tname == "enum" else pytype
    add(f"i_{tname}", 1 + i, ftype, type_name=tn)
    bp_fields.append((f"i_{tname}", py, factory(1 + i)))
    synthetic.append((f"o_{tname}", 21 + i, ftype, tn))
    bp_fields.append((f"o_{tname}", Optional[py], factory(21 + i, optional=True, group=f"_o_{tname}")))
    add(f"g_{tname}", 41 + i, ftype, type_name=tn, oneof=0)
    bp_fields.append((f"g_{tname}", py, factory(41 + i, group="g")))
    add(f"r_{tname}", 61 + i, ftype, type_name=tn, label=F.LABEL_REPEATED)
    bp_fields.append((f"r_{tname}", List[py], factory(61 + i)))

WRAPPERS = [
    ("bool", betterproto.TYPE_BOOL, "BoolValue", bool, (False, True)),
    ("bytes", betterproto.TYPE_BYTES, "BytesValue", bytes, (b"", b"\x00ab")),
    ("double", betterproto.TYPE_DOUBLE, "DoubleValue", float, (0.0, -1.5, float("inf"))),
    ("float", betterproto.TYPE_FLOAT, "FloatValue", float, (0.0, 0.5)),
    ("int32", betterproto.TYPE_INT32, "Int32Value", int, (0, -1, 2**31 - 1, -(2**31))),
    ("int64", betterproto.TYPE_INT64, "Int64Value", int, (0, -1, 2**63 - 1, -(2**63))),
    ("string", betterproto.TYPE_STRING, "StringValue", str, ("", "wü")),
    ("uint32", betterproto.TYPE_UINT32, "UInt32Value", int, (0, 2**32 - 1)),
    ("uint64", betterproto.TYPE_UINT64, "UInt64Value", int, (0, 2**64 - 1)),
]
for i, (wname, wtype, wmsg, pytype, _values) in enumerate(WRAPPERS):
    add(f"w_{wname}", 101 + i, F.TYPE_MESSAGE, type_name=f".google.protobuf.{wmsg}")
    bp_fields.append((f"w_{wname}", Optional[pytype], betterproto.message_field(101 + i, wraps=wtype)))

add("ts", 110, F.TYPE_MESSAGE, type_name=".google.protobuf.Timestamp")
add("dur", 111, F.TYPE_MESSAGE, type_name=".google.protobuf.Duration")
add("sub", 112, F.TYPE_MESSAGE, type_name=".c06k2.Sub")
synthetic.append(("o_sub", 113, F.TYPE_MESSAGE, ".c06k2.Sub"))
add("r_sub", 116, F.TYPE_MESSAGE, type_name=".c06k2.Sub", label=F.LABEL_REPEATED)
add("g_sub", 58, F.TYPE_MESSAGE, type_name=".c06k2.Sub", oneof=0)
add("g_w", 59, F.TYPE_MESSAGE, type_name=".google.protobuf.Int32Value", oneof=0)
add("g_ts", 60, F.TYPE_MESSAGE, type_name=".google.protobuf.Timestamp", oneof=0)

# maps
for mname, number, ktype, vtype, vtn in (
    ("m_sub", 114, F.TYPE_STRING, F.TYPE_MESSAGE, ".c06k2.Sub"),
    ("m_num", 115, F.TYPE_INT32, F.TYPE_SINT64, None),
):
    entry = all_d.nested_type.add(name=f"{mname.title().replace('_', '')}Entry")
    entry.options.map_entry = True
    entry.field.add(name="key", number=1, type=ktype, label=F.LABEL_OPTIONAL)
    kw = dict(name="value", number=2, type=vtype, label=F.LABEL_OPTIONAL)
    if vtn:
        kw["type_name"] = vtn
    entry.field.add(**kw)
    add(mname, number, F.TYPE_MESSAGE, type_name=f".c06k2.All.{entry.name}", label=F.LABEL_REPEATED)

for idx, (name, number, ftype, tn) in enumerate(synthetic, start=1):
    all_d.oneof_decl.add(name=f"_{name}")
    add(name, number, ftype, type_name=tn, oneof=idx, p3opt=True)

pool = descriptor_pool.Default()
pool.Add(fdp)
RefAll = message_factory.GetMessageClass(pool.FindMessageTypeByName("c06k2.All"))
RefSub = message_factory.GetMessageClass(pool.FindMessageTypeByName("c06k2.Sub"))


# ------------------------------------------------------------------ betterproto schema
@dataclasses.dataclass(eq=False, repr=False)
class Sub(betterproto.Message):
    val: int = betterproto.int32_field(1)
    txt: str = betterproto.string_field(2)


bp_fields += [
    ("ts", datetime, betterproto.message_field(110)),
    ("dur", timedelta, betterproto.message_field(111)),
    ("sub", Sub, betterproto.message_field(112)),
    ("o_sub", Optional[Sub], betterproto.message_field(113, optional=True, group="_o_sub")),
    ("r_sub", List[Sub], betterproto.message_field(116)),
    ("g_sub", Sub, betterproto.message_field(58, group="g")),
    ("g_w", Optional[int], betterproto.message_field(59, group="g", wraps=betterproto.TYPE_INT32)),
    ("g_ts", datetime, betterproto.message_field(60, group="g")),
    ("m_sub", Dict[str, Sub], betterproto.map_field(114, betterproto.TYPE_STRING, betterproto.TYPE_MESSAGE)),
    ("m_num", Dict[int, int], betterproto.map_field(115, betterproto.TYPE_INT32, betterproto.TYPE_SINT64)),
]
All = dataclasses.make_dataclass(
    "All", bp_fields, bases=(betterproto.Message,), eq=False, repr=False
)
All.__module__ = __name__

from base64 import b64encode

checks = 0
EPOCH = datetime(1970, 1, 1, tzinfo=timezone.utc)
INT64_KINDS = ("int64", "uint64", "sint64", "fixed64", "sfixed64")


def same(a, b) -> bool:
    if isinstance(a, float) and isinstance(b, float) and math.isnan(a) and math.isnan(b):
        return True
    return a == b and type(a) is type(b)


def json_forms(tname, v):
    """(JSON form, expected Python value) pairs for value ``v`` of scalar kind ``tname``."""
    if tname in INT64_KINDS:
        return [(str(v), v), (v, v)]
    if tname in ("float", "double"):
        if math.isnan(v):
            return [("NaN", v)]
        if math.isinf(v):
            return [("Infinity" if v > 0 else "-Infinity", v)]
        out = [(v, v), (repr(v), v)]
        if v == int(v) and abs(v) < 2**53:
            out.append((int(v), float(int(v))))
        return out
    if tname == "bytes":
        return [(b64encode(v).decode("ascii"), v)]
    if tname == "enum":
        return [(Color(v).name, Color(v)), (v, v)]
    return [(v, v)]


def camel(name: str) -> str:
    head, *rest = name.split("_")
    return head + "".join(p.title() for p in rest)


def presence_agrees(got, ref, label):
    global checks
    ref_which = ref.WhichOneof("g") or ""
    assert betterproto.which_one_of(got, "g")[0] == ref_which, (label, ref_which)
    for name, _t, _f in bp_fields:
        fd = RefAll.DESCRIPTOR.fields_by_name[name]
        if fd.is_repeated or not fd.has_presence or name in ("ts", "dur"):
            continue
        assert got.is_set(name) == ref.HasField(name), (label, name, got.is_set(name))
        checks += 1
    return ref_which


def canon(ref_msg) -> bytes:
    return ref_msg.SerializeToString(deterministic=True)


def both_forms(d):
    """The message built by the class form and by the instance form of from_dict."""
    a = All.from_dict(d)
    b = All().from_dict(d)
    assert bytes(a) == bytes(b), d
    assert betterproto.serialized_on_wire(a) and betterproto.serialized_on_wire(b)
    return a, b


def against_reference(d, label, compare_bytes=True):
    global checks
    ref = json_format.ParseDict(d, RefAll())
    for got in both_forms(d):
        presence_agrees(got, ref, label)
        if compare_bytes:
            assert canon(RefAll.FromString(bytes(got))) == canon(ref), (label, d)
        # and decoding our own bytes gives the same presence again
        presence_agrees(All().parse(bytes(got)), ref, label)
        checks += 1
    return ref


# ------------------------------------------------------------------ 1. _from_dict_init directly
for tname, _ftype, _factory, pytype, values in SCALARS:
    for v in values:
        for form, expect in json_forms(tname, v):
            for prefix in ("i_", "o_", "g_"):
                for keyname in (prefix + tname, camel(prefix + tname)):
                    out = All._from_dict_init({keyname: form})
                    assert list(out) == [prefix + tname], (keyname, out)
                    assert same(out[prefix + tname], expect), (keyname, form, out)
                    checks += 1
            lst = [form, json_forms(tname, values[-1])[0][0], form]
            out = All._from_dict_init({camel("r_" + tname): lst})
            exp_list = [expect, json_forms(tname, values[-1])[0][1], expect]
            got_list = out["r_" + tname]
            assert isinstance(got_list, list) and len(got_list) == 3
            assert all(same(x, y) for x, y in zip(got_list, exp_list)), (tname, form, got_list)
            if tname in ("int32", "uint32", "sint32", "fixed32", "sfixed32", "bool", "string"):
                # nothing to convert: the caller's list is passed through as it is
                assert got_list is lst, tname
            else:
                assert got_list is not lst, tname
            checks += 1
    assert All._from_dict_init({camel("r_" + tname): []}) == {"r_" + tname: []}
    assert All._from_dict_init({camel("i_" + tname): None, camel("r_" + tname): None}) == {}

for wname, _wtype, _wmsg, pytype, values in WRAPPERS:
    for v in values:
        for form, expect in json_forms(wname, v):
            out = All._from_dict_init({camel("w_" + wname): form})
            assert same(out["w_" + wname], expect), (wname, form, out)
            checks += 1
assert All._from_dict_init({"gW": 0}) == {"g_w": 0}
assert All._from_dict_init({"wInt32": None}) == {}

out = All._from_dict_init({"ts": "2023-11-14T22:13:20.123456Z", "dur": "-1.500s", "gTs": "1970-01-01T00:00:00Z"})
assert out == {
    "ts": EPOCH + timedelta(seconds=1700000000, microseconds=123456),
    "dur": timedelta(seconds=-1.5),
    "g_ts": EPOCH,
}
out = All._from_dict_init({"sub": {}, "oSub": {"val": 0}, "gSub": {"txt": "t"}, "rSub": [{}, {"val": 3}]})
assert list(out) == ["sub", "o_sub", "g_sub", "r_sub"]
assert all(type(out[k]) is Sub and betterproto.serialized_on_wire(out[k]) for k in ("sub", "o_sub", "g_sub"))
assert [type(s) for s in out["r_sub"]] == [Sub, Sub] and all(betterproto.serialized_on_wire(s) for s in out["r_sub"])
assert (out["o_sub"].val, out["g_sub"].txt, out["r_sub"][1].val) == (0, "t", 3)
src_map = {"0": "0", "-5": "-9223372036854775808", "7": 7}
out = All._from_dict_init({"mNum": src_map, "mSub": {"k": {"val": 1}, "": {}}})
assert out["m_num"] == {0: 0, -5: -(2**63), 7: 7} and out["m_num"] is not src_map
assert all(type(k) is int and type(v) is int for k, v in out["m_num"].items())
assert {k: (type(s), s.val, betterproto.serialized_on_wire(s)) for k, s in out["m_sub"].items()} == {
    "k": (Sub, 1, True), "": (Sub, 0, True)}
assert All._from_dict_init({"mNum": {}, "mSub": {}}) == {"m_num": {}, "m_sub": {}}
# unknown keys are ignored, order of the known ones is kept
out = All._from_dict_init({"nope": 1, "iString": "s", "alsoNope": {"x": 1}, "i_int32": 4, "": 0})
assert list(out.items()) == [("i_string", "s"), ("i_int32", 4)]
assert All._from_dict_init({}) == {}

# ------------------------------------------------------------------ 2. from_dict vs the reference
for tname, _ftype, _factory, pytype, values in SCALARS:
    for v in values:
        for form, expect in json_forms(tname, v):
            if tname in ("float", "double") and isinstance(form, str) and form not in ("NaN", "Infinity", "-Infinity"):
                pass  # numeric strings are valid proto3 JSON as well
            d = {
                camel("i_" + tname): form,
                camel("o_" + tname): form,
                camel("g_" + tname): form,
                camel("r_" + tname): [form, form],
            }
            ref = against_reference(d, (tname, form))
            assert ref.WhichOneof("g") == "g_" + tname and ref.HasField("o_" + tname)
            # one at a time as well
            for prefix in ("i_", "o_", "g_"):
                against_reference({camel(prefix + tname): form}, (prefix + tname, form))
            # a oneof member given after another one of the same group: the instance form
            # applies the keys in order
            m = All().from_dict({"gSub": {"val": 1}}).from_dict({camel("g_" + tname): form})
            assert betterproto.which_one_of(m, "g")[0] == "g_" + tname
            assert not m.is_set("g_sub") and m.is_set("g_" + tname)

for wname, _wtype, _wmsg, pytype, values in WRAPPERS:
    for v in values:
        for form, expect in json_forms(wname, v):
            ref = against_reference({camel("w_" + wname): form}, ("wrapper", wname, form))
            assert ref.HasField("w_" + wname)
against_reference({"gW": 0}, "oneof wrapper default")
against_reference({"gW": -7, "wBool": False, "wString": "", "wBytes": ""}, "wrappers mixed")

for kw in ({}, {"val": 0}, {"val": 7}, {"txt": ""}, {"txt": "t"}, {"val": -1, "txt": "both"}):
    for field in ("sub", "oSub", "gSub"):
        ref = against_reference({field: kw}, (field, kw))
    against_reference({"rSub": [kw, {}, kw], "mSub": {"k": kw, "": {}}, "mNum": {"1": "-1", "-2147483648": "9223372036854775807"}}, ("containers", kw))
    against_reference({"sub": kw, "oSub": kw, "gSub": kw, "iInt32": 0, "oInt32": 0, "wInt32": 0}, ("combined", kw))

for text in ("1970-01-01T00:00:00Z", "1970-01-01T00:00:01Z", "1969-12-31T23:59:59Z", "2023-11-14T22:13:20.123456Z", "0001-01-01T00:00:00Z", "9999-12-31T23:59:59.999999Z"):
    # a plain datetime field cannot tell the epoch from "unset": bytes differ there
    against_reference({"ts": text, "gTs": text}, ("timestamp", text), compare_bytes=not text.startswith("1970-01-01T00:00:00"))
for text in ("0s", "1s", "-1s", "3.500s", "-3.500s", "315576000000s", "0.000001s", "-0.000001s"):
    against_reference({"dur": text}, ("duration", text), compare_bytes=text != "0s")

# ------------------------------------------------------------------ 3. nulls, defaults, casing
empty_a, empty_b = both_forms({})
assert bytes(empty_a) == b""
for name, _t, _f in bp_fields:
    assert not empty_a.is_set(name) and not empty_b.is_set(name), name
nulls = {camel(name): None for name, _t, _f in bp_fields}
na, nb = both_forms(nulls)
assert bytes(na) == b"" and betterproto.which_one_of(na, "g") == ("", None)
for name, _t, _f in bp_fields:
    assert not na.is_set(name) and not nb.is_set(name), name
# implicit-presence fields holding the default are not emitted, explicit-presence ones are
d = {"iInt32": 0, "iString": "", "iBool": False, "iBytes": "", "iDouble": 0, "iEnum": "ZERO", "iInt64": "0"}
for got in both_forms(d):
    assert bytes(got) == b"", bytes(got)
d = {"o_int32": 0, "o_string": "", "o_bool": False, "o_bytes": "", "o_double": 0, "o_enum": "ZERO", "o_int64": "0", "o_sub": {}}
ref = json_format.ParseDict({camel(k): v for k, v in d.items()}, RefAll())
for got in both_forms(d):
    presence_agrees(got, ref, "snake_case optional defaults")
    assert canon(RefAll.FromString(bytes(got))) == canon(ref)
    for k in d:
        assert got.is_set(k), k

print(f"C06 keep2 equiv: OK ({checks} checks)")
