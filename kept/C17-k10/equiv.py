"""C17 equivalence check for the refactor of load_fields (payload reading moved
into a helper with early returns, `while first := stream.read(1)` loop).

load_fields is compared, field by field, with an independent wire-format reader
written here from the protobuf encoding spec: the same ParsedField values, the
same raw bytes, the same exception type and text at the same stream position,
and the same laziness (nothing is read beyond the field that was just yielded).
Inputs: random well-formed field sequences, every truncation point, every
single-byte corruption, invalid wire types, field number 0, over-long varints,
oversized lengths and random byte strings. On top of that Message.parse / load
(plain, sized, size-delimited, several messages per stream) are exercised and
compared with google.protobuf's accept/reject decision.
"""
import io
import random
import struct
import sys
from dataclasses import dataclass
from typing import Dict, List, Optional

import betterproto
from betterproto import Message, ParsedField, load_fields, parse_fields

VARINT, FIXED64, LEN, FIXED32 = 0, 1, 2, 5
EOF_VARINT = "Stream ended unexpectedly while attempting to load varint."
LONG_VARINT = "Too many bytes when decoding varint."


# ---------------------------------------------------------------- the oracle reader
class Stop(Exception):
    def __init__(self, kind, text, consumed):
        self.kind, self.text, self.consumed = kind, text, consumed


def o_varint(data: bytes, pos: int):
    """value, new position -- at most ten bytes."""
    value = 0
    for k in range(10):
        if pos + k >= len(data):
            raise Stop(EOFError, EOF_VARINT, len(data))
        byte = data[pos + k]
        value |= (byte & 0x7F) << (7 * k)
        if byte < 0x80:
            return value, pos + k + 1
    raise Stop(ValueError, LONG_VARINT, pos + 10)


def o_exact(data: bytes, pos: int, size: int):
    if size > sys.maxsize:
        raise Stop(OverflowError, None, pos)
    got = data[pos : pos + size]
    if len(got) != size:
        raise Stop(
            EOFError,
            f"Stream ended unexpectedly: expected {size} bytes but got {len(got)}.",
            len(data),
        )
    return got, pos + size


def oracle(data: bytes):
    """([(number, wire type, value, raw, end position)], None | Stop)"""
    out = []
    pos = 0
    try:
        while pos < len(data):
            start = pos
            key, pos = o_varint(data, pos)
            number, wt = divmod(key, 8)
            if number == 0:
                raise Stop(ValueError, "Invalid field number 0.", pos)
            if wt == VARINT:
                value, pos = o_varint(data, pos)
            elif wt == FIXED64:
                value, pos = o_exact(data, pos, 8)
            elif wt == FIXED32:
                value, pos = o_exact(data, pos, 4)
            elif wt == LEN:
                size, pos = o_varint(data, pos)
                value, pos = o_exact(data, pos, size)
            else:
                raise Stop(
                    ValueError, f"Unsupported wire type {wt} in field {number}.", pos
                )
            out.append((number, wt, value, data[start:pos], pos))
    except Stop as stop:
        return out, stop
    return out, None


checked = {"inputs": 0, "fields": 0, "errors": 0}


def check_load_fields(data: bytes) -> None:
    expected, stop = oracle(data)
    stream = io.BytesIO(data)
    gen = load_fields(stream)
    for number, wt, value, raw, end in expected:
        got = next(gen)
        assert type(got) is ParsedField
        assert (got.number, got.wire_type, got.value, got.raw) == (number, wt, value, raw), (data, got)
        assert type(got.raw) is bytes and type(got.value) is (int if wt == VARINT else bytes)
        # lazy: nothing beyond this field has been consumed
        assert stream.tell() == end, (data, stream.tell(), end)
        checked["fields"] += 1
    if stop is None:
        assert next(gen, "done") == "done", data
        assert stream.tell() == len(data)
        assert next(gen, "done") == "done"
    else:
        try:
            got = next(gen)
        except Exception as exc:  # noqa: BLE001
            assert type(exc) is stop.kind, (data, exc, stop.kind)
            if stop.text is not None:
                assert str(exc) == stop.text, (data, exc, stop.text)
            assert stream.tell() == stop.consumed, (data, stream.tell(), stop.consumed)
            # a generator that raised is finished
            assert next(gen, "done") == "done"
            checked["errors"] += 1
        else:
            raise AssertionError(f"{data!r}: expected {stop.kind}, got {got}")
    checked["inputs"] += 1


# --------------------------------------------------------------------- input makers
def varint(v: int) -> bytes:
    out = bytearray()
    while True:
        b = v & 0x7F
        v >>= 7
        if v:
            out.append(b | 0x80)
        else:
            out.append(b)
            return bytes(out)


def tag(number: int, wt: int) -> bytes:
    return varint(number << 3 | wt)


rng = random.Random(1717)
NUMBERS = [1, 2, 15, 16, 17, 2047, 2048, 2**28, 2**29 - 1, 2**40, 2**61 - 1]
VARINTS = [0, 1, 127, 128, 16383, 16384, 2**31 - 1, 2**31, 2**32, 2**63 - 1, 2**63, 2**64 - 1]


def random_field() -> bytes:
    wt = rng.choice((VARINT, FIXED64, LEN, FIXED32))
    number = rng.choice(NUMBERS) if rng.random() < 0.5 else rng.randrange(1, 5000)
    if wt == VARINT:
        body = varint(rng.choice(VARINTS) if rng.random() < 0.6 else rng.getrandbits(rng.randrange(1, 65)))
    elif wt == FIXED64:
        body = bytes(rng.randrange(256) for _ in range(8))
    elif wt == FIXED32:
        body = bytes(rng.randrange(256) for _ in range(4))
    else:
        n = rng.choice((0, 1, 2, 5, 127, 128, 129, 300))
        body = varint(n) + bytes(rng.randrange(256) for _ in range(n))
    return tag(number, wt) + body


# 1. hand picked boundary inputs
SPECIAL = [
    b"", b"\x00", b"\x00\x00", b"\x01", b"\x02\x00", b"\x05\x00\x00\x00\x00",
    b"\x08", b"\x08\x80", b"\x80", b"\x80\x80", b"\x08\x00", b"\x09" + b"\x01" * 8, b"\x09" + b"\x01" * 7,
    b"\x0d\x01\x02\x03", b"\x0d\x01\x02\x03\x04", b"\x0a\x00", b"\x0a\x01", b"\x0a\x03ab",
    b"\x0a\x80", b"\x0a\x80\x01" + b"x" * 127, b"\x0a\x80\x01" + b"x" * 128,
    b"\x0b", b"\x0c", b"\x0e", b"\x0f", b"\x0b\x08\x01\x0c", b"\x0e\x00", b"\x1b\x1c",
    b"\x03", b"\x04", b"\x06", b"\x07",  # number 0 with every invalid wire type
    b"\x80\x00", b"\x88\x00\x01",  # non-minimal tags: number 0 / number 1
    b"\xff" * 9 + b"\x01\x00", b"\xff" * 9 + b"\x7f\x00", b"\xff" * 10, b"\xff" * 10 + b"\x01",
    b"\x08" + b"\xff" * 9 + b"\x01", b"\x08" + b"\xff" * 9 + b"\x7f", b"\x08" + b"\xff" * 10 + b"\x01",
    b"\x08" + b"\x80" * 9 + b"\x00", b"\x08" + b"\x80" * 10 + b"\x00",
    b"\x0a" + b"\xff" * 9 + b"\x01" + b"abc",  # length 2**64-1
    b"\x0a" + b"\xff" * 8 + b"\x7f" + b"abc",  # length 2**63-1
    b"\x0a" + b"\xff" * 8 + b"\xff\x00" + b"abc",
    b"\x0a" + b"\xff" * 4 + b"\x0f" + b"abc",  # length 2**32-1
    b"\x08\x01\x00", b"\x08\x01\x0f", b"\x08\x01\x10", b"\x08\x01\x10\x80",
]
for data in SPECIAL:
    check_load_fields(data)

# 2. every (number, wire type 0..7) with a short / exact / long payload
for number in (0, 1, 15, 16, 300, 2**29 - 1):
    for wt in range(8):
        for body in (b"", b"\x00", b"\x01\x02", b"\x03abc", b"\x01\x02\x03\x04",
                     b"\x01\x02\x03\x04\x05\x06\x07\x08", b"\x80", b"\x96\x01", b"\x09" + b"z" * 9):
            check_load_fields(tag(number, wt) + body)
            check_load_fields(b"\x08\x01" + tag(number, wt) + body + b"\x10\x02")

# 3. random well-formed messages: all truncation points, single-byte corruptions
for _ in range(300):
    data = b"".join(random_field() for _ in range(rng.randrange(1, 6)))
    check_load_fields(data)
    fields, stop = oracle(data)
    assert stop is None
    assert [(f.number, f.wire_type, f.value, f.raw) for f in parse_fields(data)] == [
        f[:4] for f in fields
    ]
    cuts = range(len(data)) if len(data) < 80 else rng.sample(range(len(data)), 80)
    for cut in cuts:
        check_load_fields(data[:cut])
    spots = range(len(data)) if len(data) < 40 else rng.sample(range(len(data)), 40)
    for at in spots:
        for mask in (0x01, 0x04, 0x07, 0x80, 0xFF):
            mutated = bytearray(data)
            mutated[at] ^= mask
            check_load_fields(bytes(mutated))

# 4. random byte strings
for _ in range(20000):
    n = rng.choice((1, 2, 3, 4, 5, 8, 12, 20, 40))
    check_load_fields(bytes(rng.randrange(256) for _ in range(n)))
print("load_fields vs oracle:", checked)
assert checked["fields"] > 20000 and checked["errors"] > 10000


# 5. a stream that is not a BytesIO (returns what it has, in bytes)
class Chunky:
    def __init__(self, data: bytes):
        self.data, self.pos, self.calls = data, 0, []

    def read(self, size: int = -1) -> bytes:
        self.calls.append(size)
        end = len(self.data) if size < 0 else min(len(self.data), self.pos + size)
        out = self.data[self.pos : end]
        self.pos = end
        return out


for data in SPECIAL + [b"".join(random_field() for _ in range(4)) for _ in range(200)]:
    if b"\xff" * 8 in data:
        continue
    expected, stop = oracle(data)
    src = Chunky(data)
    got = []
    try:
        for fld in load_fields(src):
            got.append((fld.number, fld.wire_type, fld.value, fld.raw, src.pos))
        ended = None
    except Exception as exc:  # noqa: BLE001
        ended = exc
    assert got == expected, data
    if stop is None:
        assert ended is None and src.pos == len(data)
    else:
        assert type(ended) is stop.kind and str(ended) == stop.text and src.pos == stop.consumed
    # only ever asks for 1 byte (tag / varint bytes), 4, 8 or a declared length
    lengths = {len(f[2]) for f in expected if f[1] == LEN}
    assert all(c in (1, 4, 8) or c in lengths or stop is not None for c in src.calls), (data, src.calls)


# ------------------------------------------------------------ Message level checks
class Colour(betterproto.Enum):
    ZERO = 0
    RED = 1


@dataclass(eq=False, repr=False)
class Sub(Message):
    x: int = betterproto.int32_field(1)
    y: str = betterproto.string_field(2)


@dataclass(eq=False, repr=False)
class Top(Message):
    a: int = betterproto.int32_field(1)
    l: int = betterproto.fixed64_field(2)
    i: int = betterproto.sfixed32_field(3)
    s: str = betterproto.string_field(4)
    sub: Sub = betterproto.message_field(5)
    ra: List[int] = betterproto.sint32_field(6)
    rn: List[float] = betterproto.double_field(7)
    mp: Dict[int, str] = betterproto.map_field(8, betterproto.TYPE_UINT32, betterproto.TYPE_STRING)
    h: Colour = betterproto.enum_field(9)
    opt: Optional[bool] = betterproto.bool_field(10, optional=True)
    big: int = betterproto.uint64_field(300)


from google.protobuf import descriptor_pb2, descriptor_pool, message_factory
from google.protobuf.message import DecodeError

F = descriptor_pb2.FieldDescriptorProto
fdp = descriptor_pb2.FileDescriptorProto(name="c17_keep2_top.proto", package="c17k2", syntax="proto3")
en = fdp.enum_type.add(name="Colour")
en.value.add(name="ZERO", number=0)
en.value.add(name="RED", number=1)
sm = fdp.message_type.add(name="Sub")
sm.field.add(name="x", number=1, type=F.TYPE_INT32, label=F.LABEL_OPTIONAL)
sm.field.add(name="y", number=2, type=F.TYPE_STRING, label=F.LABEL_OPTIONAL)
tm = fdp.message_type.add(name="Top")
ent = tm.nested_type.add(name="MpEntry")
ent.options.map_entry = True
ent.field.add(name="key", number=1, type=F.TYPE_UINT32, label=F.LABEL_OPTIONAL)
ent.field.add(name="value", number=2, type=F.TYPE_STRING, label=F.LABEL_OPTIONAL)
tm.oneof_decl.add(name="_opt")
O, R = F.LABEL_OPTIONAL, F.LABEL_REPEATED
for name, number, typ, label, extra in [
    ("a", 1, F.TYPE_INT32, O, {}), ("l", 2, F.TYPE_FIXED64, O, {}), ("i", 3, F.TYPE_SFIXED32, O, {}),
    ("s", 4, F.TYPE_STRING, O, {}), ("sub", 5, F.TYPE_MESSAGE, O, {"type_name": ".c17k2.Sub"}),
    ("ra", 6, F.TYPE_SINT32, R, {}), ("rn", 7, F.TYPE_DOUBLE, R, {}),
    ("mp", 8, F.TYPE_MESSAGE, R, {"type_name": ".c17k2.Top.MpEntry"}),
    ("h", 9, F.TYPE_ENUM, O, {"type_name": ".c17k2.Colour"}),
    ("opt", 10, F.TYPE_BOOL, O, {"oneof_index": 0, "proto3_optional": True}),
    ("big", 300, F.TYPE_UINT64, O, {}),
]:
    tm.field.add(name=name, number=number, type=typ, label=label, **extra)
pool = descriptor_pool.Default()
pool.Add(fdp) if hasattr(pool, "Add") else pool.AddSerializedFile(fdp.SerializeToString())
RefTop = message_factory.GetMessageClass(pool.FindMessageTypeByName("c17k2.Top"))


def ref_accepts(data: bytes) -> bool:
    try:
        RefTop.FromString(data)
    except DecodeError:
        return False
    return True


def check_types(m: Top) -> None:
    assert type(m.a) is int and type(m.l) is int and type(m.i) is int and type(m.big) is int
    assert type(m.s) is str and type(m.sub) is Sub and type(m.sub.x) is int and type(m.sub.y) is str
    assert all(type(v) is int for v in m.ra) and all(type(v) is float for v in m.rn)
    assert all(type(k) is int and type(v) is str for k, v in m.mp.items())
    assert isinstance(m.h, Colour) and (m.opt is None or type(m.opt) is bool)


import hashlib

outcomes = hashlib.sha256()


def bp_decode(data: bytes):
    try:
        m = Top().parse(data)
    except Exception as exc:  # noqa: BLE001
        outcomes.update(f"ERR {type(exc).__name__}: {exc}\n".encode())
        return None, exc
    check_types(m)
    out = bytes(m)
    assert bytes(Top().parse(out)) == out
    outcomes.update(f"OK {out.hex()} U {m._unknown_fields.hex()} {m.to_pydict()!r}\n".encode())
    return m, None


good = Top(a=-7, l=2**63 + 9, i=-5, s="grüß", sub=Sub(x=300, y="in"), ra=[-1, 2, -300],
           rn=[1.5, -2.5], mp={7: "seven"}, h=Colour.RED, opt=False, big=2**64 - 1)
wire = bytes(good) + tag(77, LEN) + b"\x03unk" + tag(78, FIXED32) + b"\x01\x02\x03\x04"
m, exc = bp_decode(wire)
assert exc is None and bytes(m) == wire and ref_accepts(wire)
bounds = {0}
for f in oracle(wire)[0]:
    bounds.add(f[4])

# every truncation point: clean only at a top-level field boundary
for cut in range(len(wire) + 1):
    m, exc = bp_decode(wire[:cut])
    if cut in bounds:
        assert exc is None and bytes(m) == wire[:cut] and ref_accepts(wire[:cut]), cut
    else:
        assert type(exc) is EOFError and not ref_accepts(wire[:cut]), (cut, exc)

# every single-byte corruption: outcome consistent with the oracle's field split,
# accept/reject agreement with google.protobuf recorded
agree = disagree = 0
for at in range(len(wire)):
    for mask in (0x01, 0x02, 0x03, 0x04, 0x07, 0x10, 0x80, 0xFF):
        data = bytearray(wire)
        data[at] ^= mask
        data = bytes(data)
        m, exc = bp_decode(data)
        fields, stop = oracle(data)
        if stop is not None:
            # the top level split already fails: must be rejected, with that error
            # (unless an earlier field's own payload is rejected first)
            assert exc is not None, data
            if type(exc) is stop.kind and stop.text is not None and str(exc) == stop.text:
                pass
            else:
                assert isinstance(exc, (ValueError, EOFError, struct.error, OverflowError)), exc
        elif exc is None:
            unknown = b"".join(f[3] for f in fields if f[0] in (77, 78) or f[0] > 300)
            assert unknown in m._unknown_fields or m._unknown_fields.endswith(unknown[-4:])
        if (exc is None) == ref_accepts(data):
            agree += 1
        else:
            disagree += 1
print("message corruptions: agree with google.protobuf", agree, "disagree", disagree)
assert agree > 20 * disagree

# sized and size-delimited loads from a stream holding several messages
msgs = [good, Top(), Top(a=1), Top(s="x" * 200), Top(sub=Sub()), good]
blob = b"".join(varint(len(bytes(x))) + bytes(x) for x in msgs) + b"TRAILER"
stream = io.BytesIO(blob)
for x in msgs:
    got = Top().load(stream, betterproto.SIZE_DELIMITED)
    assert bytes(got) == bytes(x)
assert stream.read() == b"TRAILER"
stream = io.BytesIO(blob)
for x in msgs:
    size = len(bytes(x))
    assert stream.read(len(varint(size))) == varint(size)
    before = stream.tell()
    got = Top().load(stream, size)
    assert bytes(got) == bytes(x) and stream.tell() == before + size
# a declared size that ends inside a field, or beyond the data
body = bytes(good)
inner = {f[4] for f in oracle(body)[0]} | {0}
for size in range(len(body) + 3):
    stream = io.BytesIO(body)
    try:
        got = Top().load(stream, size)
    except Exception as exc:  # noqa: BLE001
        assert size not in inner, size
        assert type(exc) is ValueError and str(exc).startswith(f"Expected message of size {size},"), exc
    else:
        assert size in inner and bytes(got) == body[:size] and stream.tell() == size
for cut in range(len(body)):
    stream = io.BytesIO(varint(len(body)) + body[:cut])
    try:
        Top().load(stream, betterproto.SIZE_DELIMITED)
    except (EOFError, ValueError) as exc:
        assert type(exc) is (ValueError if cut in inner else EOFError), (cut, exc)
    else:
        raise AssertionError(f"truncated delimited message accepted at {cut}")

# random byte strings through Message.parse: terminates, typed, re-encodable
ok = bad = same = 0
for _ in range(8000):
    n = rng.choice((1, 2, 3, 5, 8, 13, 21))
    data = bytes(rng.randrange(256) for _ in range(n))
    m, exc = bp_decode(data)
    fields, stop = oracle(data)
    if stop is not None:
        assert exc is not None, data
    ok += exc is None
    bad += exc is not None
    same += (exc is None) == ref_accepts(data)
print("random strings: accepted", ok, "rejected", bad, "same decision as google.protobuf", same)
assert same > 0.95 * (ok + bad)
print("outcome digest:", outcomes.hexdigest())
if "--print" not in sys.argv:
    # complete outcomes (exception type and text, or re-encoded bytes, unknown
    # bytes and field values) of all Message.parse calls above on the reference tree
    assert outcomes.hexdigest() == "e2ec18b7b29c8206893e61351dd31805567cc4c14f4f15cd8b0a1b6107047851", "outcomes changed"
print("equiv ok")
