"""Equivalence checks for size_varint and the size computations built on it
(C16 keep2).  Exits 0 on the pristine tree and on the refactored one."""
import enum
import random
from dataclasses import dataclass, field
from io import BytesIO
from typing import Dict, List

import betterproto
from betterproto import encode_varint, size_varint
from google.protobuf.internal import encoder as pb_encoder

MSG = (
    "Negative value is not representable as a 64-bit integer - unable to encode "
    "a varint within 10 bytes."
)


def ref_size(v: int) -> int:
    """Independent reference: bytes of the canonical base-128 encoding."""
    assert v >= -(2**63)
    if v < 0:
        v += 2**64
    n = 1
    while v >= 128:
        v //= 128
        n += 1
    return n


def check(v):
    got = size_varint(v)
    assert type(got) is int, (v, type(got))
    assert got == ref_size(int(v)), (v, got)
    assert got == len(encode_varint(v)), (v, got)
    return got


def values():
    for v in range(0, 1 << 18):
        yield v
    for v in range(-(1 << 13), 0):
        yield v
    for k in range(1, 90):
        for d in range(-3, 4):
            yield (1 << k) + d
            yield -(1 << k) + d
    for k in range(7, 78, 7):  # every 7-bit boundary, widely
        for d in range(-200, 201):
            yield (1 << k) + d
    rnd = random.Random(16122)
    for _ in range(60000):
        yield rnd.getrandbits(rnd.randint(1, 64))
    for _ in range(30000):
        yield -rnd.getrandbits(rnd.randint(1, 63))
    for _ in range(3000):
        yield rnd.getrandbits(rnd.randint(65, 400))
    for v in (-(2**63), 2**63 - 1, 2**63, 2**64 - 1, 2**64, 2**70 - 1, 2**70):
        yield v


count = 0
for v in values():
    if v < -(2**63):
        continue
    n = check(v)
    count += 1
    if v < 0:
        assert n == 10
        assert n == pb_encoder._SignedVarintSize(v)
    elif v < 2**64:
        assert 1 <= n <= 10
        assert n == pb_encoder._VarintSize(v)
        # exact thresholds: n bytes hold 7*n bits
        assert v < (1 << (7 * n)) and (n == 1 or v >= (1 << (7 * (n - 1))))

# table of exact boundaries
for n in range(1, 10):
    assert size_varint((1 << (7 * n)) - 1) == n
    assert size_varint(1 << (7 * n)) == n + 1
assert size_varint(0) == 1
assert size_varint(2**63) == 10 and size_varint(2**64 - 1) == 10
assert size_varint(2**64) == 10 and size_varint(2**70 - 1) == 10
assert size_varint(2**70) == 11
assert size_varint(-1) == 10 and size_varint(-(2**63)) == 10

# int subclasses
assert check(True) == 1 and check(False) == 1


class Plain(enum.IntEnum):
    NEG = -5
    ZERO = 0
    MID = 16384
    BIG = 1 << 40


class Colour(betterproto.Enum):
    NEG = -7
    ZERO = 0
    RED = 300


for member in list(Plain) + list(Colour):
    check(member)

# rejection below -2**63
rnd = random.Random(5)
for v in [-(2**63) - 1, -(2**63) - 2, -(2**64), -(2**64) - 1, -(2**200)] + [
    -(2**63) - 1 - rnd.getrandbits(rnd.randint(1, 90)) for _ in range(1000)
]:
    try:
        size_varint(v)
    except ValueError as exc:
        assert type(exc) is ValueError and exc.args == (MSG,), exc.args
    else:
        raise AssertionError(v)

# non-numeric input
for bad in (None, "1", b"\x01", [1]):
    try:
        size_varint(bad)
    except TypeError:
        pass
    else:
        raise AssertionError(bad)

# users of size_varint: len(message) == len(bytes(message)) for every kind


class E(betterproto.Enum):
    ZERO = 0
    ONE = 1
    NEG = -1
    BIG = 2**31 - 1


@dataclass(eq=False, repr=False)
class Inner(betterproto.Message):
    v: int = betterproto.sint64_field(1)
    name: str = betterproto.string_field(2)


@dataclass(eq=False, repr=False)
class Everything(betterproto.Message):
    i32: int = betterproto.int32_field(1)
    i64: int = betterproto.int64_field(2)
    u32: int = betterproto.uint32_field(3)
    u64: int = betterproto.uint64_field(4)
    s32: int = betterproto.sint32_field(5)
    s64: int = betterproto.sint64_field(6)
    b: bool = betterproto.bool_field(7)
    e: E = betterproto.enum_field(8)
    f32: int = betterproto.fixed32_field(9)
    f64: int = betterproto.fixed64_field(10)
    sf32: int = betterproto.sfixed32_field(11)
    sf64: int = betterproto.sfixed64_field(12)
    fl: float = betterproto.float_field(13)
    db: float = betterproto.double_field(14)
    s: str = betterproto.string_field(15)
    by: bytes = betterproto.bytes_field(30)
    inner: Inner = betterproto.message_field(17)
    ri64: List[int] = betterproto.int64_field(18)
    rs32: List[int] = betterproto.sint32_field(19)
    rstr: List[str] = betterproto.string_field(20)
    m: Dict[int, int] = betterproto.map_field(
        21, betterproto.TYPE_INT64, betterproto.TYPE_UINT64
    )
    rin: List[Inner] = betterproto.message_field(22)
    far: int = betterproto.uint64_field(2**29 - 1)
    mid: int = betterproto.int32_field(2048)
    near: int = betterproto.int32_field(16)


edge32 = [0, 1, -1, 127, 128, -128, 16383, 16384, 2**21 - 1, 2**21, 2**28, 2**31 - 1, -(2**31)]
edge64 = edge32 + [2**31, 2**32, 2**35, 2**42, 2**49, 2**56, 2**63 - 1, -(2**63), -(2**35)]
uedge = [0, 1, 127, 128, 2**32 - 1, 2**32, 2**63, 2**64 - 1]
rnd = random.Random(424242)


def r32():
    return rnd.choice(edge32 + [rnd.randint(-(2**31), 2**31 - 1)] * 6)


def r64():
    return rnd.choice(edge64 + [rnd.randint(-(2**63), 2**63 - 1)] * 8)


def ru64():
    return rnd.choice(uedge + [rnd.getrandbits(rnd.randint(0, 64))] * 6)


def rstr():
    return "é" * rnd.choice([0, 1, 63, 64, 127, 128, 8191, 8192]) if rnd.random() < 0.5 else "a" * rnd.choice([0, 1, 127, 128, 16383, 16384])


msgs = 0
for _ in range(1500):
    m = Everything(
        i32=r32(), i64=r64(), u32=rnd.getrandbits(rnd.randint(0, 32)), u64=ru64(),
        s32=r32(), s64=r64(), b=rnd.random() < 0.5, e=rnd.choice(list(E)),
        f32=rnd.getrandbits(32), f64=rnd.getrandbits(64),
        sf32=r32(), sf64=r64(), fl=rnd.choice([0.0, 1.5, -2.25]), db=rnd.uniform(-1e300, 1e300),
        s=rstr(), by=bytes(rnd.choice([0, 1, 127, 128, 300])),
        ri64=[r64() for _ in range(rnd.choice([0, 1, 2, 13, 14, 40]))],
        rs32=[r32() for _ in range(rnd.choice([0, 1, 127, 128]))],
        rstr=[rstr() for _ in range(rnd.choice([0, 1, 3]))],
        m={r64(): ru64() for _ in range(rnd.choice([0, 1, 5]))},
        rin=[Inner(v=r64(), name=rstr()) for _ in range(rnd.choice([0, 1, 3]))],
        far=ru64(), mid=r32(), near=r32(),
    )
    if rnd.random() < 0.7:
        m.inner = Inner(v=r64(), name=rstr())
    data = bytes(m)
    assert len(m) == len(data), (len(m), len(data))
    out = BytesIO()
    m.dump(out, betterproto.SIZE_DELIMITED)
    framed = out.getvalue()
    assert framed == encode_varint(len(data)) + data
    assert len(framed) == size_varint(len(data)) + len(data)
    back = Everything().load(BytesIO(framed), betterproto.SIZE_DELIMITED)
    assert bytes(back) == data and len(back) == len(data)
    msgs += 1

# direct use of the private sizing helpers against the encoders
for ptype in (
    betterproto.TYPE_INT32, betterproto.TYPE_INT64, betterproto.TYPE_UINT32,
    betterproto.TYPE_UINT64, betterproto.TYPE_SINT32, betterproto.TYPE_SINT64,
    betterproto.TYPE_BOOL, betterproto.TYPE_ENUM,
):
    for _ in range(3000):
        if ptype == betterproto.TYPE_BOOL:
            v = rnd.random() < 0.5
        elif ptype in (betterproto.TYPE_UINT32, betterproto.TYPE_UINT64):
            v = ru64()
        else:
            v = r64()
        num = rnd.choice([1, 15, 16, 2047, 2048, 2**18 - 1, 2**18, 2**29 - 1])
        assert betterproto._len_preprocessed_single(ptype, "", v) == len(
            betterproto._preprocess_single(ptype, "", v)
        )
        assert betterproto._len_single(num, ptype, v) == len(
            betterproto._serialize_single(num, ptype, v)
        )

# out-of-range values are rejected by the size computation as by the encoder
for ctor in (lambda: Everything(i64=-(2**63) - 1), lambda: Everything(ri64=[0, -(2**64)])):
    for fn in (len, bytes):
        try:
            fn(ctor())
        except ValueError as exc:
            assert exc.args == (MSG,)
        else:
            raise AssertionError

print(f"keep2 equiv OK ({count} values, {msgs} messages)")
