"""Exercises enum class construction (EnumType.__new__) and everything that is built
on the two maps it fills: lookups, iteration, aliases, non-member attributes,
immutability, copy/pickle and enum fields in messages (compared to google.protobuf).
"""
import copy
import json
import pickle
import random
import sys
import types
from dataclasses import dataclass
from typing import Dict, List, Optional

import betterproto
from betterproto.enum import EnumType

INT32_MIN, INT32_MAX = -(2**31), 2**31 - 1
rng = random.Random(20)


# --------------------------------------------------------------------------- helpers
def check_definition(enum_cls, declared, extras=()):
    """`declared` is the ordered list of (name, number) of the class body."""
    first_name = {}
    for name, number in declared:
        first_name.setdefault(number, name)

    # the two maps
    assert list(enum_cls._member_map_) == [n for n, _ in declared]
    assert list(enum_cls._value_map_) == list(first_name)
    assert len(enum_cls) == len(declared)
    assert list(enum_cls.__members__) == [n for n, _ in declared]
    assert isinstance(enum_cls.__members__, types.MappingProxyType)

    canon = {}
    for number, name in first_name.items():
        member = enum_cls(number)
        canon[number] = member
        assert type(member) is enum_cls
        assert member.name == name and member.value == number
        assert member == number and int(member) == number
        assert hash(member) == hash(number)
        assert enum_cls._value_map_[number] is member
        assert str(member) == name
        assert repr(member) == f"{enum_cls.__name__}.{name}"
    # one object per distinct number
    assert len({id(m) for m in canon.values()}) == len(first_name)

    for name, number in declared:
        member = canon[number]
        assert enum_cls[name] is member
        assert enum_cls.from_string(name) is member
        assert enum_cls.try_value(number) is member
        assert getattr(enum_cls, name) is member
        assert enum_cls.__members__[name] is member
        assert member in enum_cls
        # members live on the metaclass, not in the class dict, and cannot be
        # reached through other members
        assert name not in vars(enum_cls)
        assert name in vars(type(enum_cls))
        try:
            getattr(member, name)
        except AttributeError:
            pass
        else:
            raise AssertionError("member reachable through a member")
        assert copy.copy(member) is member
        assert copy.deepcopy(member) is member
        assert copy.deepcopy([member, {1: member}])[1][1] is member

    assert [m for m in enum_cls] == [canon[v] for _, v in declared]
    assert all(a is b for a, b in zip(enum_cls, [canon[v] for _, v in declared]))
    assert list(reversed(enum_cls)) == list(enum_cls)[::-1]

    for extra in extras:
        assert extra in vars(enum_cls), extra
        assert extra not in enum_cls._member_map_
        if not extra.startswith("__"):
            assert extra not in vars(type(enum_cls))

    # undefined numbers / names
    defined = set(first_name)
    probes = {0, 1, -1, INT32_MIN, INT32_MAX, 7, -7, 1000}
    probes |= {rng.randint(INT32_MIN, INT32_MAX) for _ in range(20)}
    for number in probes - defined:
        try:
            enum_cls(number)
        except ValueError:
            pass
        else:
            raise AssertionError("closed lookup accepted an undefined number")
        unknown = enum_cls.try_value(number)
        assert type(unknown) is enum_cls
        assert unknown.name is None and unknown.value == number
        assert unknown == number and int(unknown) == number
        assert unknown not in enum_cls
        assert number not in enum_cls._value_map_
    for bad in ("", "NOPE", "name", "value", "__doc__"):
        if bad in enum_cls._member_map_:
            continue
        try:
            enum_cls.from_string(bad)
        except ValueError:
            pass
        else:
            raise AssertionError("from_string accepted an undefined name")
        try:
            enum_cls[bad]
        except KeyError:
            pass
        else:
            raise AssertionError("indexing accepted an undefined name")

    # immutability of class and members
    some_name = declared[0][0] if declared else "X"
    for target_name in (some_name, "BRAND_NEW", "_value_map_", "__doc__"):
        try:
            setattr(enum_cls, target_name, 5)
        except AttributeError:
            pass
        else:
            raise AssertionError("enum class is mutable")
    for target_name in (some_name, "_member_map_"):
        try:
            delattr(enum_cls, target_name)
        except AttributeError:
            pass
        else:
            raise AssertionError("enum class is mutable")
    for member in canon.values():
        for attr in ("name", "value", "other"):
            try:
                setattr(member, attr, 1)
            except AttributeError:
                pass
            else:
                raise AssertionError("enum member is mutable")
            try:
                delattr(member, attr)
            except AttributeError:
                pass
            else:
                raise AssertionError("enum member is mutable")
    assert list(enum_cls._member_map_) == [n for n, _ in declared]


def check_pickle(enum_cls):
    for member in list(enum_cls) + [enum_cls.try_value(123456), enum_cls.try_value(-9)]:
        for proto in range(pickle.HIGHEST_PROTOCOL + 1):
            clone = pickle.loads(pickle.dumps(member, protocol=proto))
            assert type(clone) is enum_cls
            assert clone.name == member.name and clone.value == member.value
            assert clone == member
            assert enum_cls.try_value(clone) == member
            if member.name is not None:
                assert enum_cls(clone) is enum_cls(int(member))


# ------------------------------------------------------------------ fixed definitions
class Colour(betterproto.Enum):
    """doc string"""

    BLACK = 0
    RED = 1
    GREEN = 2
    CRIMSON = 1
    DARK = -1
    NOTHING = 0
    MIN = INT32_MIN
    MAX = INT32_MAX
    _hidden = 40
    _ = 41
    lower_case = 42

    def describe(self):
        return f"{self.name}:{self.value}"

    @classmethod
    def first(cls):
        return next(iter(cls))

    @staticmethod
    def static():
        return "static"

    @property
    def negative(self):
        return self < 0

    __custom_dunder__ = 99


COLOUR = [
    ("BLACK", 0),
    ("RED", 1),
    ("GREEN", 2),
    ("CRIMSON", 1),
    ("DARK", -1),
    ("NOTHING", 0),
    ("MIN", INT32_MIN),
    ("MAX", INT32_MAX),
    ("_hidden", 40),
    ("_", 41),
    ("lower_case", 42),
]
check_definition(
    Colour,
    COLOUR,
    extras=("describe", "first", "static", "negative", "__custom_dunder__", "__doc__"),
)
check_pickle(Colour)
assert Colour.__doc__ == "doc string"
assert Colour.__custom_dunder__ == 99
assert Colour.__module__ == __name__ and Colour.__qualname__ == "Colour"
assert Colour.RED.describe() == "RED:1"
assert Colour.try_value(77).describe() == "None:77"
assert Colour.first() is Colour.BLACK
assert Colour.static() == "static" and Colour.RED.static() == "static"
assert Colour.DARK.negative is True and Colour.MAX.negative is False
assert repr(Colour) == "<enum 'Colour'>"
assert type(Colour).__name__ == "ColourType"
assert isinstance(Colour, EnumType) and type(Colour) is not EnumType
assert type(Colour)._value_map_ is Colour._value_map_
assert Colour.CRIMSON is Colour.RED and Colour.NOTHING is Colour.BLACK


class Single(betterproto.Enum):
    ONLY = -5


check_definition(Single, [("ONLY", -5)])
check_pickle(Single)


class Empty(betterproto.Enum):
    pass


check_definition(Empty, [])
assert list(Empty) == [] and len(Empty) == 0
assert Empty.try_value().name is None and Empty.try_value() == 0

# the base class itself has no members
assert len(betterproto.Enum) == 0 and dict(betterproto.Enum._member_map_) == {}
assert "try_value" in vars(betterproto.Enum) and "from_string" in vars(betterproto.Enum)

# an unhashable plain value in the body is rejected while building the class
try:

    class Bad(betterproto.Enum):
        A = 1
        B = []

except TypeError:
    pass
else:
    raise AssertionError("unhashable member value accepted")


# ---------------------------------------------------------------- random definitions
def random_definition(index):
    count = rng.randint(1, 12)
    pool = [0, 0, 1, -1, 2, -2, 5, INT32_MIN, INT32_MAX, INT32_MIN + 1, INT32_MAX - 1]
    declared = []
    for i in range(count):
        r = rng.random()
        if declared and r < 0.3:
            number = rng.choice(declared)[1]  # alias
        elif r < 0.7:
            number = rng.choice(pool)
        else:
            number = rng.randint(INT32_MIN, INT32_MAX)
        prefix = rng.choice(["M", "_m", "value_", "Name"])
        declared.append((f"{prefix}{i}", number))
    return declared


for index in range(300):
    declared = random_definition(index)
    how = index % 3
    cls_name = f"Gen{index}"
    if how == 0:
        body = "\n".join(f"    {n} = {v}" for n, v in declared)
        body += "\n    def method(self):\n        return self.value * 2\n"
        ns = {"betterproto": betterproto, "__name__": __name__}
        exec(f"class {cls_name}(betterproto.Enum):\n{body}", ns)
        enum_cls = ns[cls_name]
        extras = ("method",)
    elif how == 1:
        enum_cls = types.new_class(
            cls_name, (betterproto.Enum,), exec_body=lambda ns: ns.update(declared)
        )
        extras = ()
    else:
        namespace = dict(declared)
        namespace["__module__"] = __name__
        namespace["__qualname__"] = cls_name
        namespace["helper"] = classmethod(lambda cls: len(cls))
        enum_cls = EnumType(cls_name, (betterproto.Enum,), namespace)
        extras = ("helper", "__module__")
        assert enum_cls.__qualname__ == cls_name
        assert enum_cls.helper() == len(declared)
    check_definition(enum_cls, declared, extras)
    if how == 0:
        assert enum_cls(declared[0][1]).method() == declared[0][1] * 2
    # make the class importable for pickle
    setattr(sys.modules[__name__], cls_name, enum_cls)
    enum_cls_module = enum_cls.__module__
    if enum_cls_module == __name__ and index % 10 == 0:
        check_pickle(enum_cls)


# --------------------------------------------------- enum fields, vs. google.protobuf
@dataclass(eq=False, repr=False)
class Msg(betterproto.Message):
    single: "Colour" = betterproto.enum_field(1)
    many: List["Colour"] = betterproto.enum_field(2)
    by_key: Dict[str, "Colour"] = betterproto.map_field(
        3, betterproto.TYPE_STRING, betterproto.TYPE_ENUM
    )
    one_a: "Colour" = betterproto.enum_field(4, group="choice")
    one_b: int = betterproto.int32_field(5, group="choice")
    maybe: Optional["Colour"] = betterproto.enum_field(6, optional=True)


def build_google():
    from google.protobuf import descriptor_pb2, descriptor_pool, message_factory

    f = descriptor_pb2.FileDescriptorProto(
        name="c20_keep1.proto", package="c20k1", syntax="proto3"
    )
    e = f.enum_type.add(name="Colour")
    e.options.allow_alias = True
    for name, number in COLOUR:
        e.value.add(name=name, number=number)
    m = f.message_type.add(name="Msg")
    F = descriptor_pb2.FieldDescriptorProto
    m.field.add(name="single", number=1, type=F.TYPE_ENUM, type_name=".c20k1.Colour",
                label=F.LABEL_OPTIONAL)
    m.field.add(name="many", number=2, type=F.TYPE_ENUM, type_name=".c20k1.Colour",
                label=F.LABEL_REPEATED)
    entry = m.nested_type.add(name="ByKeyEntry")
    entry.options.map_entry = True
    entry.field.add(name="key", number=1, type=F.TYPE_STRING, label=F.LABEL_OPTIONAL)
    entry.field.add(name="value", number=2, type=F.TYPE_ENUM,
                    type_name=".c20k1.Colour", label=F.LABEL_OPTIONAL)
    m.field.add(name="by_key", number=3, type=F.TYPE_MESSAGE,
                type_name=".c20k1.Msg.ByKeyEntry", label=F.LABEL_REPEATED)
    m.oneof_decl.add(name="choice")
    m.oneof_decl.add(name="_maybe")
    m.field.add(name="one_a", number=4, type=F.TYPE_ENUM, type_name=".c20k1.Colour",
                label=F.LABEL_OPTIONAL, oneof_index=0)
    m.field.add(name="one_b", number=5, type=F.TYPE_INT32, label=F.LABEL_OPTIONAL,
                oneof_index=0)
    m.field.add(name="maybe", number=6, type=F.TYPE_ENUM, type_name=".c20k1.Colour",
                label=F.LABEL_OPTIONAL, oneof_index=1, proto3_optional=True)
    pool = descriptor_pool.DescriptorPool()
    pool.Add(f)
    return message_factory.GetMessageClass(pool.FindMessageTypeByName("c20k1.Msg"))


GMsg = build_google()
from google.protobuf import json_format  # noqa: E402

defined_numbers = sorted({v for _, v in COLOUR})
interesting = defined_numbers + [3, -2, 100, -100, INT32_MIN + 1, INT32_MAX - 1]
interesting += [rng.randint(INT32_MIN, INT32_MAX) for _ in range(30)]


def canonical_or_number(number):
    member = Colour.try_value(number)
    return member.name if member.name is not None else number


def same_value(decoded, number):
    assert type(decoded) is Colour
    assert decoded == number and decoded.value == number
    if number in Colour._value_map_:
        assert decoded is Colour(number)
    else:
        assert decoded.name is None


for trial in range(400):
    number = rng.choice(interesting)
    others = [rng.choice(interesting) for _ in range(rng.randint(0, 4))]
    mapping = {f"k{i}": rng.choice(interesting) for i in range(rng.randint(0, 3))}
    use_oneof = trial % 3
    maybe = rng.choice([None, rng.choice(interesting), 0])
    as_member = trial % 2 == 0  # members and plain ints are accepted alike

    def wrap(n):
        return Colour.try_value(n) if as_member else n

    kwargs = dict(single=wrap(number), many=[wrap(n) for n in others],
                  by_key={k: wrap(v) for k, v in mapping.items()})
    if use_oneof == 1:
        kwargs["one_a"] = wrap(number)
    elif use_oneof == 2:
        kwargs["one_b"] = 17
    if maybe is not None:
        kwargs["maybe"] = wrap(maybe)
    msg = Msg(**kwargs)

    g = GMsg(single=number, many=others, by_key=mapping)
    if use_oneof == 1:
        g.one_a = number
    elif use_oneof == 2:
        g.one_b = 17
    if maybe is not None:
        g.maybe = maybe

    # binary: both directions, against the reference implementation
    data = bytes(msg)
    assert len(msg) == len(data)
    g2 = GMsg.FromString(data)
    assert g2 == g, (g2, g)
    for payload in (data, g.SerializeToString()):
        back = Msg().parse(payload)
        same_value(back.single, number)
        assert len(back.many) == len(others)
        for d, n in zip(back.many, others):
            same_value(d, n)
        assert set(back.by_key) == set(mapping)
        for k, n in mapping.items():
            same_value(back.by_key[k], n)
        which, value = betterproto.which_one_of(back, "choice")
        if use_oneof == 1:
            assert which == "one_a"
            same_value(value, number)
        elif use_oneof == 2:
            assert (which, value) == ("one_b", 17)
        else:
            assert which == ""
        if maybe is None:
            assert back.maybe is None
        else:
            same_value(back.maybe, maybe)
        assert back == msg
        # (the reference implementation emits map entries in arbitrary order)
        assert GMsg.FromString(bytes(back)) == g
        if payload is data or len(mapping) < 2:
            assert bytes(back) == data

    # JSON
    as_dict = msg.to_dict()
    reference = json_format.MessageToDict(g)
    assert json.loads(json.dumps(as_dict)) == as_dict
    if number != 0:
        assert as_dict["single"] == canonical_or_number(number) == reference["single"]
    else:
        assert "single" not in as_dict and "single" not in reference
    if others:
        assert as_dict["many"] == [canonical_or_number(n) for n in others]
        assert as_dict["many"] == reference["many"]
    if mapping:
        assert as_dict["byKey"] == {k: canonical_or_number(v) for k, v in mapping.items()}
        assert as_dict["byKey"] == reference["byKey"]
    if use_oneof == 1:
        assert as_dict["oneA"] == canonical_or_number(number) == reference["oneA"]
    if maybe is not None:
        assert as_dict["maybe"] == canonical_or_number(maybe) == reference["maybe"]
    for source in (as_dict, reference, json.loads(msg.to_json())):
        back = Msg().from_dict(source)
        assert back == msg, (back, msg)
        assert back.single == number
        assert [int(x) for x in back.many] == others
        assert {k: int(v) for k, v in back.by_key.items()} == mapping
        assert GMsg.FromString(bytes(back)) == g
        if source is not reference or len(mapping) < 2:
            assert bytes(back) == data
    # alias names are accepted on input
    assert Msg().from_dict({"single": "CRIMSON", "many": ["NOTHING", "CRIMSON"]}) == Msg(
        single=Colour.RED, many=[Colour.BLACK, Colour.RED]
    )

    # copies keep member identity
    dup = copy.deepcopy(msg)
    assert dup == msg and bytes(dup) == data
    if as_member:
        assert dup.single is msg.single
        assert all(a is b for a, b in zip(dup.many, msg.many))

print("ok")
