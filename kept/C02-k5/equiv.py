"""C02 equivalence check (decode side, Message._postprocess_single).

Part 1  calls Message._postprocess_single directly for every scalar type with
        boundary payloads and compares with an independent oracle (values AND
        Python types), plus the length-delimited branches.
Part 2  google.protobuf <-> betterproto differential test on one wide schema
        (all scalar types singular / repeated / oneof / map / proto3-optional,
        nested messages, Timestamp, Duration, wrappers):
          a) reference bytes           -> betterproto.parse   -> same values
          b) legal re-encodings of (a) -> betterproto.parse   -> same values
             (field permutation, packed <-> unpacked, packed chunks, padded
             varints, duplicated singular scalars / oneof members / map keys,
             interleaved unknown fields, applied recursively)
          c) betterproto bytes         -> google.protobuf     -> same values

Plain asserts; exits 0 when everything agrees.
"""
import math
import random
import struct
import time
from dataclasses import dataclass  # noqa: F401  (used by the generated source)
from datetime import datetime, timedelta, timezone
from typing import Dict, List, Optional  # noqa: F401

from google.protobuf import (
    descriptor_pb2,
    descriptor_pool,
    duration_pb2,
    message_factory,
    timestamp_pb2,
    wrappers_pb2,
)

import betterproto

T0 = time.time()
F = descriptor_pb2.FieldDescriptorProto
UTC = timezone.utc

# --------------------------------------------------------------------------- #
# schema table
# --------------------------------------------------------------------------- #
SCALARS = [
    # proto type, python annotation, wire type
    ("int32", "int", 0),
    ("int64", "int", 0),
    ("uint32", "int", 0),
    ("uint64", "int", 0),
    ("sint32", "int", 0),
    ("sint64", "int", 0),
    ("bool", "bool", 0),
    ("enum", "Color", 0),
    ("fixed32", "int", 5),
    ("fixed64", "int", 1),
    ("sfixed32", "int", 5),
    ("sfixed64", "int", 1),
    ("float", "float", 5),
    ("double", "float", 1),
    ("string", "str", 2),
    ("bytes", "bytes", 2),
]
PYTYPE = {t: p for t, p, _ in SCALARS}
WIRE = {t: w for t, _, w in SCALARS}
PACKABLE = [t for t, _, w in SCALARS if w != 2]
ENUM_MEMBERS = [("ZERO", 0), ("ONE", 1), ("NEG", -1), ("BIG", 2147483647), ("MIN", -2147483648)]
WRAPPERS = [
    ("double", "DoubleValue"),
    ("float", "FloatValue"),
    ("int64", "Int64Value"),
    ("uint64", "UInt64Value"),
    ("int32", "Int32Value"),
    ("uint32", "UInt32Value"),
    ("bool", "BoolValue"),
    ("string", "StringValue"),
    ("bytes", "BytesValue"),
]
MAPS = [
    ("string", "int32"),
    ("int64", "msg"),
    ("bool", "enum"),
    ("sint32", "double"),
    ("fixed32", "bytes"),
    ("uint64", "string"),
    ("sfixed64", "sint64"),
    ("int32", "float"),
]
ONEOF = ["int32", "string", "msg", "bool", "enum", "sint64", "double", "bytes", "fixed32"]
OPTIONALS = ["int32", "string", "bool", "enum", "double", "msg", "sint32", "bytes", "uint64"]


@dataclass
class Fld:
    name: str
    number: int
    type: str  # scalar proto type, "msg", "map", "ts", "du", "wrap"
    kind: str  # single / repeated / oneof / map / optional
    key: str = ""  # map key type
    val: str = ""  # map value type / wrapped type


ALL_FIELDS: List[Fld] = []
for i, (t, _, _) in enumerate(SCALARS):
    ALL_FIELDS.append(Fld(f"s_{t}", 1 + i, t, "single"))
ALL_FIELDS.append(Fld("s_msg", 17, "msg", "single"))
for i, (t, _, _) in enumerate(SCALARS):
    ALL_FIELDS.append(Fld(f"r_{t}", 21 + i, t, "repeated"))
ALL_FIELDS.append(Fld("r_msg", 37, "msg", "repeated"))
for i, t in enumerate(ONEOF):
    ALL_FIELDS.append(Fld(f"o_{t}", 41 + i, t, "oneof"))
for i, (k, v) in enumerate(MAPS):
    ALL_FIELDS.append(Fld(f"m_{k}_{v}", 51 + i, "map", "map", k, v))
ALL_FIELDS.append(Fld("ts", 61, "ts", "single"))
ALL_FIELDS.append(Fld("du", 62, "du", "single"))
for i, (t, _) in enumerate(WRAPPERS):
    ALL_FIELDS.append(Fld(f"w_{t}", 63 + i, "wrap", "single", val=t))
for i, t in enumerate(OPTIONALS):
    ALL_FIELDS.append(Fld(f"opt_{t}", 81 + i, t, "optional"))
# key-size boundaries: 2-byte / 3-byte keys and the largest field number
ALL_FIELDS.append(Fld("k2047", 2047, "int32", "single"))
ALL_FIELDS.append(Fld("k2048", 2048, "sint32", "repeated"))
ALL_FIELDS.append(Fld("kmax", 536870911, "uint32", "single"))

SUB_FIELDS = [
    Fld("a", 1, "int32", "single"),
    Fld("b", 2, "string", "single"),
    Fld("r", 3, "int64", "repeated"),
    Fld("e", 4, "enum", "single"),
]
BY_NAME = {f.name: f for f in ALL_FIELDS}


# --------------------------------------------------------------------------- #
# reference classes (google.protobuf)
# --------------------------------------------------------------------------- #
def _ref_type(t):
    return getattr(F, "TYPE_" + t.upper())


def _add_ref_field(msg, f: Fld, pkg, oneof_index=None):
    label = F.LABEL_REPEATED if f.kind in ("repeated", "map") else F.LABEL_OPTIONAL
    kw = dict(name=f.name, number=f.number, label=label)
    t = f.type
    if t == "msg":
        kw.update(type=F.TYPE_MESSAGE, type_name=f".{pkg}.Sub")
    elif t == "enum":
        kw.update(type=F.TYPE_ENUM, type_name=f".{pkg}.Color")
    elif t == "ts":
        kw.update(type=F.TYPE_MESSAGE, type_name=".google.protobuf.Timestamp")
    elif t == "du":
        kw.update(type=F.TYPE_MESSAGE, type_name=".google.protobuf.Duration")
    elif t == "wrap":
        kw.update(type=F.TYPE_MESSAGE, type_name=".google.protobuf." + dict(WRAPPERS)[f.val])
    elif t == "map":
        entry = msg.nested_type.add(name="E%dEntry" % f.number)
        entry.options.map_entry = True
        _add_ref_field(entry, Fld("key", 1, f.key, "single"), pkg)
        _add_ref_field(entry, Fld("value", 2, f.val, "single"), pkg)
        kw.update(type=F.TYPE_MESSAGE, type_name=f".{pkg}.{msg.name}.{entry.name}")
    else:
        kw.update(type=_ref_type(t))
    fd = msg.field.add(**kw)
    if oneof_index is not None:
        fd.oneof_index = oneof_index
    return fd


def build_reference(pkg):
    fdp = descriptor_pb2.FileDescriptorProto(name=pkg + ".proto", package=pkg, syntax="proto3")
    fdp.dependency.extend(
        [
            "google/protobuf/timestamp.proto",
            "google/protobuf/duration.proto",
            "google/protobuf/wrappers.proto",
        ]
    )
    en = fdp.enum_type.add(name="Color")
    for n, v in ENUM_MEMBERS:
        en.value.add(name=n, number=v)
    sub = fdp.message_type.add(name="Sub")
    for f in SUB_FIELDS:
        _add_ref_field(sub, f, pkg)
    al = fdp.message_type.add(name="All")
    al.oneof_decl.add(name="choice")
    synthetic = []
    for f in ALL_FIELDS:
        if f.kind == "oneof":
            _add_ref_field(al, f, pkg, oneof_index=0)
        elif f.kind == "optional":
            synthetic.append(_add_ref_field(al, f, pkg))
        else:
            _add_ref_field(al, f, pkg)
    for fd in synthetic:  # proto3 optional = synthetic oneof, declared after real ones
        al.oneof_decl.add(name="_" + fd.name)
        fd.oneof_index = len(al.oneof_decl) - 1
        fd.proto3_optional = True
    pool = descriptor_pool.Default()
    # make sure the well-known types are registered in the default pool
    assert timestamp_pb2.DESCRIPTOR and duration_pb2.DESCRIPTOR and wrappers_pb2.DESCRIPTOR
    pool.Add(fdp)
    get = lambda n: message_factory.GetMessageClass(pool.FindMessageTypeByName(f"{pkg}.{n}"))
    return get("Sub"), get("All")


RefSub, RefAll = build_reference("c02equiv")


# --------------------------------------------------------------------------- #
# betterproto classes, generated from the same table
# --------------------------------------------------------------------------- #
def _bp_field_src(f: Fld) -> str:
    t = f.type
    opts = ""
    if f.kind == "oneof":
        opts = ', group="choice"'
    elif f.kind == "optional":
        opts = ", optional=True"
    if t == "map":
        py = lambda x: "Sub" if x == "msg" else PYTYPE[x]
        bt = lambda x: "betterproto.TYPE_" + ("MESSAGE" if x == "msg" else x.upper())
        return f"    {f.name}: Dict[{py(f.key)}, {py(f.val)}] = betterproto.map_field({f.number}, {bt(f.key)}, {bt(f.val)})"
    if t == "ts":
        return f"    {f.name}: datetime = betterproto.message_field({f.number})"
    if t == "du":
        return f"    {f.name}: timedelta = betterproto.message_field({f.number})"
    if t == "wrap":
        return (
            f"    {f.name}: Optional[{PYTYPE[f.val]}] = betterproto.message_field("
            f"{f.number}, wraps=betterproto.TYPE_{f.val.upper()})"
        )
    ann = "Sub" if t == "msg" else PYTYPE[t]
    if f.kind == "repeated":
        ann = f"List[{ann}]"
    elif f.kind == "optional":
        ann = f"Optional[{ann}]"
    fn = "message" if t == "msg" else t
    return f"    {f.name}: {ann} = betterproto.{fn}_field({f.number}{opts})"


SRC = ["class Color(betterproto.Enum):"]
SRC += [f"    {n} = {v}" for n, v in ENUM_MEMBERS]
SRC += ["", "@dataclass(eq=False, repr=False)", "class Sub(betterproto.Message):"]
SRC += [_bp_field_src(f) for f in SUB_FIELDS]
SRC += ["", "@dataclass(eq=False, repr=False)", "class All(betterproto.Message):"]
SRC += [_bp_field_src(f) for f in ALL_FIELDS]
exec("\n".join(SRC), globals())  # defines Color, Sub, All in this module
Color, Sub, All = globals()["Color"], globals()["Sub"], globals()["All"]

for f in ALL_FIELDS:  # the two schemas really are the same
    meta = All._betterproto.meta_by_field_name[f.name]
    assert meta.number == f.number
    assert RefAll.DESCRIPTOR.fields_by_name[f.name].number == f.number


# --------------------------------------------------------------------------- #
# value pools
# --------------------------------------------------------------------------- #
def f32(x):
    return struct.unpack("<f", struct.pack("<f", x))[0]


POOL = {
    "int32": [0, 1, -1, 127, 128, -128, 2**31 - 1, -(2**31), 300, -300],
    "int64": [0, 1, -1, 2**31, -(2**31) - 1, 2**63 - 1, -(2**63), 2**62, 12345678901],
    "uint32": [0, 1, 127, 128, 2**31, 2**32 - 1, 16384],
    "uint64": [0, 1, 2**32, 2**63 - 1, 2**63, 2**64 - 1],
    "sint32": [0, 1, -1, 63, -64, 64, -65, 2**31 - 1, -(2**31)],
    "sint64": [0, 1, -1, 2**31, -(2**31) - 1, 2**63 - 1, -(2**63), -(2**62)],
    "bool": [False, True],
    "enum": [0, 1, -1, 2147483647, -2147483648, 5, -7, 128],
    "fixed32": [0, 1, 2**31, 2**32 - 1, 255, 256],
    "fixed64": [0, 1, 2**63, 2**64 - 1, 2**32],
    "sfixed32": [0, 1, -1, 2**31 - 1, -(2**31)],
    "sfixed64": [0, 1, -1, 2**63 - 1, -(2**63)],
    "float": [0.0, 1.5, -2.25, float("inf"), float("-inf"), float("nan"), f32(3.4028234663852886e38), f32(1e-45), f32(0.1)],
    "double": [0.0, 1.5, -2.25, float("inf"), float("-inf"), float("nan"), 1.7976931348623157e308, 5e-324, 0.1],
    "string": ["", "a", "héllo ✓", "\U0001F600", "x" * 200, "nul\x00inside", "\x7f"],
    "bytes": [b"", b"\x00", b"\xff\xfe", bytes(range(256)), b"\x80" * 130],
}
TS_POOL = [
    datetime(1969, 12, 31, 23, 59, 59, 999999, tzinfo=UTC),
    datetime(1970, 1, 1, 0, 0, 0, 1, tzinfo=UTC),
    datetime(2000, 2, 29, 12, 0, 0, tzinfo=UTC),
    datetime(1, 1, 1, tzinfo=UTC),
    datetime(9999, 12, 31, 23, 59, 59, 999999, tzinfo=UTC),
    datetime(1900, 6, 15, 1, 2, 3, 500000, tzinfo=UTC),
    datetime(2038, 1, 19, 3, 14, 8, tzinfo=UTC),
]
DU_POOL = [
    timedelta(microseconds=1),
    timedelta(microseconds=-1),
    timedelta(seconds=-1, microseconds=-500000),
    timedelta(days=100000, seconds=3, microseconds=7),
    timedelta(days=-100000, microseconds=-999999),
    timedelta(seconds=1),
    timedelta(seconds=-2),
    timedelta(milliseconds=1500),
]


def rnd_scalar(rng, t, neg_zero=False):
    if rng.random() < 0.7:
        v = rng.choice(POOL[t])
    elif t in ("int32", "sint32", "sfixed32", "enum"):
        v = rng.randint(-(2**31), 2**31 - 1)
    elif t in ("int64", "sint64", "sfixed64"):
        v = rng.randint(-(2**63), 2**63 - 1)
    elif t in ("uint32", "fixed32"):
        v = rng.randint(0, 2**32 - 1)
    elif t in ("uint64", "fixed64"):
        v = rng.randint(0, 2**64 - 1)
    elif t == "bool":
        v = rng.random() < 0.5
    elif t == "float":
        v = f32(rng.uniform(-1e6, 1e6))
    elif t == "double":
        v = rng.uniform(-1e12, 1e12)
    elif t == "string":
        v = "".join(rng.choice("abé中\U0001F600 z") for _ in range(rng.randint(0, 12)))
    else:
        v = bytes(rng.randrange(256) for _ in range(rng.randint(0, 12)))
    if neg_zero and t in ("float", "double") and rng.random() < 0.15:
        v = -0.0
    return v


def rnd_sub(rng):
    return {
        "a": rnd_scalar(rng, "int32") if rng.random() < 0.6 else 0,
        "b": rnd_scalar(rng, "string") if rng.random() < 0.6 else "",
        "r": [rnd_scalar(rng, "int64") for _ in range(rng.choice([0, 0, 1, 3]))],
        "e": rnd_scalar(rng, "enum") if rng.random() < 0.5 else 0,
    }


def rnd_value(rng, t, neg_zero=False):
    return rnd_sub(rng) if t == "msg" else rnd_scalar(rng, t, neg_zero)


def default_of(t):
    return {"bool": False, "float": 0.0, "double": 0.0, "string": "", "bytes": b""}.get(t, 0)


def rnd_spec(rng, density):
    """A dict field name -> plain python value.  Missing name = field not set."""
    spec = {}
    oneof_pick = rng.choice([None] + [f.name for f in ALL_FIELDS if f.kind == "oneof"])
    for f in ALL_FIELDS:
        if f.kind == "oneof":
            if f.name == oneof_pick:
                # default values are interesting for the selected member
                spec[f.name] = (
                    default_of(f.type)
                    if f.type != "msg" and rng.random() < 0.3
                    else rnd_value(rng, f.type, neg_zero=True)
                )
            continue
        if rng.random() > density:
            continue
        if f.type == "ts":
            spec[f.name] = rng.choice(TS_POOL)
        elif f.type == "du":
            spec[f.name] = rng.choice(DU_POOL)
        elif f.type == "wrap":
            spec[f.name] = default_of(f.val) if rng.random() < 0.3 else rnd_scalar(rng, f.val)
        elif f.kind == "single":
            spec[f.name] = rnd_value(rng, f.type)
        elif f.kind == "optional":
            spec[f.name] = (
                default_of(f.type)
                if f.type != "msg" and rng.random() < 0.3
                else rnd_value(rng, f.type, neg_zero=True)
            )
        elif f.kind == "repeated":
            n = rng.choice([1, 1, 2, 3, 5, 9])
            spec[f.name] = [rnd_value(rng, f.type, neg_zero=True) for _ in range(n)]
        elif f.kind == "map":
            d = {}
            for _ in range(rng.choice([1, 2, 4])):
                k = rnd_scalar(rng, f.key)
                d[k] = rnd_value(rng, f.val, neg_zero=True)
            spec[f.name] = d
    return spec


# --------------------------------------------------------------------------- #
# spec -> reference message / betterproto message
# --------------------------------------------------------------------------- #
def fill_ref_sub(dst, s):
    dst.a = s["a"]
    dst.b = s["b"]
    dst.r.extend(s["r"])
    dst.e = s["e"]


def make_ref(spec):
    m = RefAll()
    for name, v in spec.items():
        f = BY_NAME[name]
        if f.type == "ts":
            m.ts.FromDatetime(v)
        elif f.type == "du":
            m.du.FromTimedelta(v)
        elif f.type == "wrap":
            getattr(m, name).value = v
        elif f.kind == "map":
            for k, x in v.items():
                if f.val == "msg":
                    getattr(m, name)[k].SetInParent()
                    fill_ref_sub(getattr(m, name)[k], x)
                else:
                    getattr(m, name)[k] = x
        elif f.kind == "repeated":
            if f.type == "msg":
                for x in v:
                    fill_ref_sub(getattr(m, name).add(), x)
            else:
                getattr(m, name).extend(v)
        elif f.type == "msg":
            getattr(m, name).SetInParent()
            fill_ref_sub(getattr(m, name), v)
        else:
            setattr(m, name, v)
    return m


def make_bp_sub(s):
    return Sub(a=s["a"], b=s["b"], r=list(s["r"]), e=Color.try_value(s["e"]))


def make_bp(spec):
    kw = {}
    for name, v in spec.items():
        f = BY_NAME[name]
        conv = lambda t, x: (
            make_bp_sub(x) if t == "msg" else Color.try_value(x) if t == "enum" else x
        )
        if f.kind == "map":
            kw[name] = {k: conv(f.val, x) for k, x in v.items()}
        elif f.kind == "repeated":
            kw[name] = [conv(f.type, x) for x in v]
        elif f.type in ("ts", "du", "wrap"):
            kw[name] = v
        else:
            kw[name] = conv(f.type, v)
    return All(**kw)


# --------------------------------------------------------------------------- #
# comparison reference message <-> betterproto message
# --------------------------------------------------------------------------- #
INT_TYPES = {"int32", "int64", "uint32", "uint64", "sint32", "sint64", "fixed32", "fixed64", "sfixed32", "sfixed64"}


def same_scalar(t, r, b, ctx):
    if t in ("float", "double"):
        assert type(b) is float, (ctx, b)
        if math.isnan(r):
            assert math.isnan(b), (ctx, r, b)
        else:
            assert r == b and math.copysign(1, r) == math.copysign(1, b), (ctx, r, b)
    elif t == "enum":
        assert isinstance(b, Color), (ctx, type(b))
        assert int(b) == r, (ctx, r, b)
        named = dict((v, n) for n, v in ENUM_MEMBERS)
        assert b.name == named.get(r), (ctx, b.name)
    elif t == "bool":
        assert type(b) is bool and b == r, (ctx, r, b)
    elif t in INT_TYPES:
        assert type(b) is int and b == r, (ctx, r, b)
    elif t == "string":
        assert type(b) is str and b == r, (ctx, r, b)
    else:
        assert isinstance(b, bytes) and b == r, (ctx, r, b)


def same_sub(r, b, ctx):
    assert isinstance(b, Sub), (ctx, type(b))
    same_scalar("int32", r.a, b.a, ctx + ".a")
    same_scalar("string", r.b, b.b, ctx + ".b")
    assert len(r.r) == len(b.r), (ctx, list(r.r), b.r)
    for x, y in zip(r.r, b.r):
        same_scalar("int64", x, y, ctx + ".r")
    same_scalar("enum", r.e, b.e, ctx + ".e")


def same_value(t, r, b, ctx):
    if t == "msg":
        same_sub(r, b, ctx)
    else:
        same_scalar(t, r, b, ctx)


def compare(ref, bp, ctx):
    which = ref.WhichOneof("choice")
    assert (betterproto.which_one_of(bp, "choice")[0] or None) == which, (ctx, which)
    for f in ALL_FIELDS:
        c = f"{ctx}:{f.name}"
        r = getattr(ref, f.name)
        if f.kind == "oneof":
            if f.name == which:
                same_value(f.type, r, getattr(bp, f.name), c)
            continue
        b = getattr(bp, f.name)
        if f.type == "ts":
            if ref.HasField("ts"):
                assert b == r.ToDatetime(tzinfo=UTC), (c, b)
            else:
                assert b == datetime(1970, 1, 1, tzinfo=UTC), (c, b)
        elif f.type == "du":
            assert b == (r.ToTimedelta() if ref.HasField("du") else timedelta(0)), (c, b)
        elif f.type == "wrap":
            if ref.HasField(f.name):
                same_scalar(f.val, r.value, b, c)
            else:
                assert b is None, (c, b)
        elif f.kind == "optional":
            if ref.HasField(f.name):
                same_value(f.type, r, b, c)
            else:
                assert b is None, (c, b)
        elif f.kind == "single":
            if f.type == "msg":
                assert ref.HasField(f.name) == betterproto.serialized_on_wire(b), c
            same_value(f.type, r, b, c)
        elif f.kind == "repeated":
            assert type(b) is list and len(b) == len(r), (c, len(r), b)
            for x, y in zip(r, b):
                same_value(f.type, x, y, c)
        elif f.kind == "map":
            assert type(b) is dict and set(b) == set(r), (c, sorted(r), sorted(b))
            for k in r:
                same_scalar(f.key, k, [kk for kk in b if kk == k][0], c + ".key")
                same_value(f.val, r[k], b[k], c + ".value")


def canon(ref):
    c = type(ref)()
    c.CopyFrom(ref)
    c.DiscardUnknownFields()
    return c.SerializeToString(deterministic=True)


# --------------------------------------------------------------------------- #
# independent spec-level re-encoder
# --------------------------------------------------------------------------- #
def rd_varint(buf, pos):
    shift = result = 0
    while True:
        b = buf[pos]
        pos += 1
        result |= (b & 0x7F) << shift
        shift += 7
        if not b & 0x80:
            return result, pos


def wr_varint(v, rng=None, limit=10):
    """Minimal varint, or (with rng) sometimes one padded with redundant
    continuation bytes up to ``limit`` bytes in total."""
    assert 0 <= v < 2**64
    out = []
    while True:
        b = v & 0x7F
        v >>= 7
        if v:
            out.append(b | 0x80)
        else:
            out.append(b)
            break
    if rng is not None and rng.random() < 0.35 and len(out) < limit:
        extra = rng.randint(1, limit - len(out))
        out[-1] |= 0x80
        out += [0x80] * (extra - 1) + [0x00]
    return bytes(out)


def split(buf):
    recs, pos = [], 0
    while pos < len(buf):
        key, pos = rd_varint(buf, pos)
        num, wt = key >> 3, key & 7
        if wt == 0:
            val, pos = rd_varint(buf, pos)
        elif wt == 1:
            val, pos = buf[pos : pos + 8], pos + 8
        elif wt == 5:
            val, pos = buf[pos : pos + 4], pos + 4
        else:
            assert wt == 2, wt
            n, pos = rd_varint(buf, pos)
            val, pos = buf[pos : pos + n], pos + n
        recs.append((num, wt, val))
    assert pos == len(buf)
    return recs


def join(recs, rng):
    out = bytearray()
    for num, wt, val in recs:
        # tags and lengths are 32-bit varints: parsers take at most 5 bytes for them
        out += wr_varint((num << 3) | wt, rng, limit=5)
        if wt == 0:
            out += wr_varint(val, rng)
        elif wt == 2:
            out += wr_varint(len(val), rng, limit=5) + val
        else:
            out += val
    return bytes(out)


SCHEMAS = {"All": {f.number: f for f in ALL_FIELDS}, "Sub": {f.number: f for f in SUB_FIELDS}}
SCHEMAS["ts"] = SCHEMAS["du"] = {1: Fld("seconds", 1, "int64", "single"), 2: Fld("nanos", 2, "int32", "single")}
for t, _ in WRAPPERS:
    SCHEMAS["wrap:" + t] = {1: Fld("value", 1, t, "single")}
for k, v in MAPS:
    SCHEMAS[f"map:{k}:{v}"] = {1: Fld("key", 1, k, "single"), 2: Fld("value", 2, v, "single")}


def child_schema(f: Fld):
    if f.type == "msg":
        return "Sub"
    if f.type in ("ts", "du"):
        return f.type
    if f.type == "wrap":
        return "wrap:" + f.val
    if f.type == "map":
        return f"map:{f.key}:{f.val}"
    return None


def rnd_wire_scalar(rng, t):
    """A random legal wire payload (wt, val) for scalar type t."""
    wt = WIRE[t]
    if wt == 0:
        if t == "bool":
            return 0, rng.randint(0, 1)
        if t in ("uint32",):
            return 0, rng.randint(0, 2**32 - 1)
        if t in ("int32", "enum"):
            return 0, rng.randint(-(2**31), 2**31 - 1) % 2**64
        if t == "sint32":
            return 0, rng.randint(0, 2**32 - 1)
        return 0, rng.randint(0, 2**64 - 1)
    if wt == 1:
        if t == "double":
            return 1, struct.pack("<d", rng.uniform(-1e9, 1e9))
        return 1, bytes(rng.randrange(256) for _ in range(8))
    if wt == 5:
        if t == "float":
            return 5, struct.pack("<f", rng.uniform(-1e9, 1e9))
        return 5, bytes(rng.randrange(256) for _ in range(4))
    if t == "string":
        return 2, "".join(rng.choice("pqü中") for _ in range(rng.randint(0, 5))).encode()
    return 2, bytes(rng.randrange(256) for _ in range(rng.randint(0, 5)))


def unpack_elements(t, payload):
    wt, out, pos = WIRE[t], [], 0
    while pos < len(payload):
        if wt == 0:
            v, pos = rd_varint(payload, pos)
        elif wt == 1:
            v, pos = payload[pos : pos + 8], pos + 8
        else:
            v, pos = payload[pos : pos + 4], pos + 4
        out.append(v)
    return out


def pack_elements(t, elems, rng):
    if WIRE[t] == 0:
        return b"".join(wr_varint(v, rng) for v in elems)
    return b"".join(elems)


def mutate(buf, schema_name, rng, level=0):
    """Another legal encoding of the same message."""
    schema = SCHEMAS[schema_name]
    groups = []  # list of record lists; order inside one list must be kept

    index = {}

    def grp(key):
        if key not in index:
            groups.append([])
            index[key] = len(groups) - 1
        return groups[index[key]]

    recs = split(buf)
    last_oneof = None
    for num, wt, val in recs:
        f = schema.get(num)
        if f is not None and f.kind == "oneof":
            last_oneof = num
    seen_map_keys = set()
    for num, wt, val in recs:
        f = schema.get(num)
        assert f is not None, (schema_name, num)
        gkey = ("oneof",) if f.kind == "oneof" else ("f", num)
        g = grp(gkey)
        child = child_schema(f)
        if f.kind == "repeated" and f.type in PACKABLE:
            # reference writes proto3 repeated scalars packed: re-chunk them
            assert wt == 2
            elems = unpack_elements(f.type, val)
            i = 0
            while i < len(elems):
                if rng.random() < 0.15:
                    g.append((num, 2, b""))  # an empty packed chunk
                if rng.random() < 0.4:
                    g.append((num, WIRE[f.type], elems[i]))  # unpacked element
                    i += 1
                else:
                    n = rng.randint(1, len(elems) - i)
                    g.append((num, 2, pack_elements(f.type, elems[i : i + n], rng)))
                    i += n
            continue
        if child is not None:
            assert wt == 2
            new_val = mutate(val, child, rng, level + 1)
            if f.kind == "map" and f.val != "msg" and rng.random() < 0.4:
                # an earlier entry with the same key and another value: last wins
                krecs = [r for r in split(val) if r[0] == 1]
                vwt, vval = rnd_wire_scalar(rng, f.val)
                g.append((num, 2, join(krecs + [(2, vwt, vval)], rng)))
            g.append((num, 2, new_val))
            continue
        # a scalar (singular / optional / oneof member / unpacked repeated string|bytes)
        if f.kind in ("single", "optional") and rng.random() < 0.4:
            for _ in range(rng.randint(1, 2)):
                dwt, dval = rnd_wire_scalar(rng, f.type)
                g.append((num, dwt, dval))  # overwritten by the real one below
        if f.kind == "oneof" and num == last_oneof and rng.random() < 0.6:
            for _ in range(rng.randint(1, 3)):
                other = rng.choice([x for x in schema.values() if x.kind == "oneof"])
                if other.type == "msg":
                    g.append((other.number, 2, make_ref_sub_bytes(rng)))
                else:
                    dwt, dval = rnd_wire_scalar(rng, other.type)
                    g.append((other.number, dwt, dval))
        g.append((num, wt, val))
    # a oneof whose selected member is a message: only scalar decoys, placed before
    if last_oneof is not None and schema[last_oneof].type == "msg" and rng.random() < 0.6:
        decoys = []
        for _ in range(rng.randint(1, 3)):
            other = rng.choice([x for x in schema.values() if x.kind == "oneof" and x.type != "msg"])
            dwt, dval = rnd_wire_scalar(rng, other.type)
            decoys.append((other.number, dwt, dval))
        g = grp(("oneof",))
        g[:0] = decoys
    # unknown fields (not inside map entries: the reference implementation does not
    # store an entry that carries unknown fields, so there is nothing to compare with)
    for _ in range(0 if schema_name.startswith("map:") else rng.choice([0, 0, 1, 2, 4])):
        unum = rng.choice([5000, 5001, 70000, 100, 19, 536870910])
        assert unum not in schema
        uwt = rng.choice([0, 1, 2, 5])
        uval = {
            0: rng.randint(0, 2**64 - 1),
            1: bytes(rng.randrange(256) for _ in range(8)),
            5: bytes(rng.randrange(256) for _ in range(4)),
            2: bytes(rng.randrange(256) for _ in range(rng.randint(0, 9))),
        }[uwt]
        groups.append([(unum, uwt, uval)])
    # random interleaving that keeps the order inside each group
    tickets = [i for i, g in enumerate(groups) for _ in g]
    rng.shuffle(tickets)
    cursors = [0] * len(groups)
    out = []
    for t in tickets:
        out.append(groups[t][cursors[t]])
        cursors[t] += 1
    return join(out, rng)


def make_ref_sub_bytes(rng):
    s = RefSub()
    fill_ref_sub(s, rnd_sub(rng))
    return s.SerializeToString()


# =========================================================================== #
# Part 1: Message._postprocess_single against an independent oracle
# =========================================================================== #
def oracle_varint(t, raw):
    if t in ("int32", "enum"):
        v = raw % 2**32
        return v - 2**32 if v >= 2**31 else v
    if t == "int64":
        v = raw % 2**64
        return v - 2**64 if v >= 2**63 else v
    if t in ("uint32", "uint64"):
        return raw
    if t in ("sint32", "sint64"):
        return raw // 2 if raw % 2 == 0 else -(raw // 2) - 1
    assert t == "bool"
    return raw != 0


RAW_VARINTS = sorted(
    {0, 1, 2, 3, 127, 128, 129, 255, 256, 16383, 16384}
    | {2**k + d for k in (7, 14, 21, 28, 31, 32, 33, 35, 42, 49, 56, 62, 63) for d in (-1, 0, 1)}
    | {2**64 - 1, 2**64 - 2, 2**64 - 2**31, 2**64 - 2**31 - 1, 2**64 - 2**63}
    # what a ten-byte varint can carry beyond 64 bits (tolerated on input)
    | {2**64, 2**64 + 1, 2**70 - 1, 2**69 + 2**31, 2**64 + 2**63}
)
_rng = random.Random(1)
RAW_VARINTS += [_rng.randrange(2**64) for _ in range(300)]
RAW_VARINTS += [_rng.randrange(2**32) for _ in range(300)]

probe = All()
n_checks = 0
for t in PACKABLE:
    if WIRE[t] != 0:
        continue
    for prefix in ("s_", "r_"):
        name = prefix + t
        meta = All._betterproto.meta_by_field_name[name]
        for raw in RAW_VARINTS:
            got = probe._postprocess_single(betterproto.WIRE_VARINT, meta, name, raw)
            want = oracle_varint(t, raw)
            if t == "enum":
                assert isinstance(got, Color) and int(got) == want, (t, raw, got, want)
                assert got.name == dict((v, n) for n, v in ENUM_MEMBERS).get(want)
            elif t == "bool":
                assert type(got) is bool and got is want, (t, raw, got, want)
            else:
                assert type(got) is int and got == want, (t, raw, got, want)
            n_checks += 1

FIXED_ORACLE = {
    "fixed32": lambda b: int.from_bytes(b, "little"),
    "fixed64": lambda b: int.from_bytes(b, "little"),
    "sfixed32": lambda b: int.from_bytes(b, "little", signed=True),
    "sfixed64": lambda b: int.from_bytes(b, "little", signed=True),
}
for t in PACKABLE:
    if WIRE[t] == 0:
        continue
    width = 8 if WIRE[t] == 1 else 4
    payloads = [bytes(width), b"\xff" * width, b"\x00" * (width - 1) + b"\x80", b"\xff" * (width - 1) + b"\x7f", b"\x01" + bytes(width - 1)]
    payloads += [bytes(_rng.randrange(256) for _ in range(width)) for _ in range(200)]
    wire = betterproto.WIRE_FIXED_64 if width == 8 else betterproto.WIRE_FIXED_32
    for name in ("s_" + t, "r_" + t):
        meta = All._betterproto.meta_by_field_name[name]
        for p in payloads:
            got = probe._postprocess_single(wire, meta, name, p)
            if t in FIXED_ORACLE:
                assert type(got) is int and got == FIXED_ORACLE[t](p), (t, p, got)
            else:
                want = struct.unpack("<d" if t == "double" else "<f", p)[0]
                assert type(got) is float, (t, p, got)
                assert struct.pack("<d", got) == struct.pack("<d", want) or (
                    math.isnan(got) and math.isnan(want)
                ), (t, p, got, want)
            n_checks += 1
        for bad in (b"", b"\x00" * (width - 1), b"\x00" * (width + 1)):
            try:
                probe._postprocess_single(wire, meta, name, bad)
            except struct.error:
                pass
            else:
                raise AssertionError(("short/long fixed payload accepted", t, bad))

# length-delimited branches
LD = betterproto.WIRE_LEN_DELIM
M = All._betterproto.meta_by_field_name
for s in POOL["string"]:
    got = probe._postprocess_single(LD, M["s_string"], "s_string", s.encode("utf-8"))
    assert type(got) is str and got == s
for bad in (b"\xff", b"\xc3", b"ab\x80"):
    try:
        probe._postprocess_single(LD, M["s_string"], "s_string", bad)
    except UnicodeDecodeError:
        pass
    else:
        raise AssertionError("invalid utf-8 accepted")
for b in POOL["bytes"]:
    got = probe._postprocess_single(LD, M["s_bytes"], "s_bytes", b)
    assert got is b  # bytes are handed through untouched
    got = probe._postprocess_single(LD, M["r_bytes"], "r_bytes", b)
    assert got is b
sub_bytes = RefSub(a=-5, b="q", r=[1, -1], e=-1).SerializeToString()
for name in ("s_msg", "r_msg", "o_msg", "opt_msg"):
    for payload in (sub_bytes, b""):
        got = probe._postprocess_single(LD, M[name], name, payload)
        assert type(got) is Sub and betterproto.serialized_on_wire(got) is True
        same_sub(RefSub.FromString(payload), got, name)
for dt in TS_POOL + [datetime(1970, 1, 1, tzinfo=UTC)]:
    t = timestamp_pb2.Timestamp()
    t.FromDatetime(dt)
    got = probe._postprocess_single(LD, M["ts"], "ts", t.SerializeToString())
    assert type(got) is datetime and got == dt and got.tzinfo is not None, (dt, got)
for td in DU_POOL + [timedelta(0)]:
    d = duration_pb2.Duration()
    d.FromTimedelta(td)
    got = probe._postprocess_single(LD, M["du"], "du", d.SerializeToString())
    assert type(got) is timedelta and got == td, (td, got)
for t, cls in WRAPPERS:
    for v in POOL[t]:
        w = getattr(wrappers_pb2, cls)(value=v)
        got = probe._postprocess_single(LD, M["w_" + t], "w_" + t, w.SerializeToString())
        same_scalar(t, w.value, got, "wrap " + t)
entry = probe._postprocess_single(LD, M["m_sint32_double"], "m_sint32_double", bytes.fromhex("0803") + b"\x11" + struct.pack("<d", -0.0))
assert entry.key == -2 and struct.pack("<d", entry.value) == struct.pack("<d", -0.0)
entry = probe._postprocess_single(LD, M["m_bool_enum"], "m_bool_enum", bytes.fromhex("10ffffffffffffffffff01" "0801"))
assert entry.key is True and isinstance(entry.value, Color) and entry.value == -1 and entry.value.name == "NEG"
entry = probe._postprocess_single(LD, M["m_int64_msg"], "m_int64_msg", b"")
assert entry.key == 0 and type(entry.value) is Sub
# wire types this function has nothing to do for hand the value back untouched
marker = object()
assert probe._postprocess_single(3, M["s_int32"], "s_int32", marker) is marker
assert probe._postprocess_single(LD, M["r_int32"], "r_int32", b"\x01\x02") == b"\x01\x02"
print(f"part 1 ok: {n_checks} scalar payloads + length-delimited branches")

# =========================================================================== #
# Part 2: differential test against google.protobuf
# =========================================================================== #
rng = random.Random(20260402)
n_msgs = n_variants = 0
N = 400
for i in range(N):
    density = [0.08, 0.3, 0.6, 1.0][i % 4]
    spec = rnd_spec(rng, density)
    ref = make_ref(spec)
    data = ref.SerializeToString()

    # (a) reference bytes -> betterproto
    compare(ref, All().parse(data), f"a{i}")
    compare(ref, All.FromString(data), f"a'{i}")

    # (b) legal re-encodings
    for j in range(4):
        alt = mutate(data, "All", rng)
        # the re-encoder is validated by the reference implementation itself
        assert canon(RefAll.FromString(alt)) == canon(ref), (i, j, "re-encoder changed the message")
        compare(ref, All().parse(alt), f"b{i}.{j}")
        n_variants += 1

    # (c) betterproto bytes -> reference
    bp = make_bp(spec)
    out = bytes(bp)
    ref2 = RefAll.FromString(out)
    compare(ref2, bp, f"c{i}")
    assert canon(ref2) == canon(ref), (i, "reference decodes betterproto bytes differently")
    assert len(bp) == len(out)
    n_msgs += 1

# a few hand-written corner cases of (a): signed zeros and explicit defaults
corner = RefAll(s_float=-0.0, s_double=-0.0, o_double=-0.0, opt_double=-0.0, r_float=[-0.0, 0.0], r_double=[0.0, -0.0])
compare(corner, All().parse(corner.SerializeToString()), "corner1")
corner = RefAll(o_int32=0, opt_int32=0, opt_string="", opt_bool=False, opt_enum=0, opt_bytes=b"")
corner.opt_msg.SetInParent()
corner.s_msg.SetInParent()
corner.w_int32.value = 0
corner.w_string.value = ""
corner.w_bool.value = False
data = corner.SerializeToString()
compare(corner, All().parse(data), "corner2")
for j in range(30):
    alt = mutate(data, "All", rng)
    assert canon(RefAll.FromString(alt)) == canon(corner)
    compare(corner, All().parse(alt), f"corner2.{j}")
# every selected-oneof member, default and non-default, with decoys in front
for f in ALL_FIELDS:
    if f.kind != "oneof":
        continue
    for v in ([rnd_sub(rng)] if f.type == "msg" else POOL[f.type]):
        ref = make_ref({f.name: v})
        data = ref.SerializeToString()
        compare(ref, All().parse(data), "oneof " + f.name)
        for j in range(3):
            alt = mutate(data, "All", rng)
            assert canon(RefAll.FromString(alt)) == canon(ref)
            compare(ref, All().parse(alt), f"oneof {f.name} alt")
            n_variants += 1

print(f"part 2 ok: {n_msgs} messages, {n_variants} re-encodings, both directions")
print(f"equiv ok ({time.time() - T0:.1f}s)")
