"""Equivalence check for the refactor of _preprocess_single /
_len_preprocessed_single (the per-value encoders behind Message.dump and
Message.__len__, i.e. behind the SIZE_DELIMITED length prefix).

Everything is compared with values that do not depend on the library:
an independent encoder written here, and google.protobuf.
"""
import io
import random
import struct
from dataclasses import dataclass
from datetime import datetime, timedelta, timezone
from typing import Dict, List, Optional

import betterproto
from betterproto import SIZE_DELIMITED
from google.protobuf import descriptor_pb2, descriptor_pool, message_factory, proto

rnd = random.Random(1010)


# ---------------------------------------------------------------- reference
def ref_varint(v):
    if v < 0:
        v += 1 << 64
    out = bytearray()
    while True:
        b = v & 0x7F
        v >>= 7
        if v:
            out.append(b | 0x80)
        else:
            out.append(b)
            return bytes(out)


def ref_zigzag(v):
    return (v << 1) ^ (v >> 63)


INT_BOUNDS = sorted(
    {0, 1, -1, 2, -2}
    | {s * ((1 << k) + d) for k in range(0, 64) for d in (-1, 0, 1) for s in (1, -1)}
)


def in_range(v, lo, hi):
    return lo <= v <= hi


pre = betterproto._preprocess_single
plen = betterproto._len_preprocessed_single

checked = 0
# plain varints
for t, lo, hi in [
    (betterproto.TYPE_INT32, -(1 << 31), (1 << 31) - 1),
    (betterproto.TYPE_INT64, -(1 << 63), (1 << 63) - 1),
    (betterproto.TYPE_UINT32, 0, (1 << 32) - 1),
    (betterproto.TYPE_UINT64, 0, (1 << 64) - 1),
    (betterproto.TYPE_ENUM, -(1 << 31), (1 << 31) - 1),
]:
    for v in INT_BOUNDS:
        if not in_range(v, lo, hi):
            continue
        want = ref_varint(v)
        got = pre(t, "", v)
        assert type(got) is bytes and got == want, (t, v, got, want)
        n = plen(t, "", v)
        assert type(n) is int and n == len(want), (t, v, n)
        checked += 1
for v in (True, False):
    assert pre(betterproto.TYPE_BOOL, "", v) == ref_varint(int(v))
    assert plen(betterproto.TYPE_BOOL, "", v) == 1

# zig-zag
for t, lo, hi in [
    (betterproto.TYPE_SINT32, -(1 << 31), (1 << 31) - 1),
    (betterproto.TYPE_SINT64, -(1 << 63), (1 << 63) - 1),
]:
    for v in INT_BOUNDS:
        if not in_range(v, lo, hi):
            continue
        want = ref_varint(ref_zigzag(v))
        assert pre(t, "", v) == want, (t, v)
        assert plen(t, "", v) == len(want), (t, v)
        checked += 1

# too small for 64 bits: both refuse in the same way
for t in (betterproto.TYPE_INT64, betterproto.TYPE_INT32, betterproto.TYPE_ENUM):
    for f in (pre, plen):
        try:
            f(t, "", -(1 << 64) - 5)
        except ValueError as e:
            assert "not representable as a 64-bit integer" in str(e)
        else:
            raise AssertionError("expected ValueError")

# fixed width
for t, fmt, vals in [
    (betterproto.TYPE_FIXED32, "<I", [0, 1, 255, 256, (1 << 32) - 1]),
    (betterproto.TYPE_SFIXED32, "<i", [0, 1, -1, -(1 << 31), (1 << 31) - 1]),
    (betterproto.TYPE_FIXED64, "<Q", [0, 1, (1 << 32), (1 << 64) - 1]),
    (betterproto.TYPE_SFIXED64, "<q", [0, -1, -(1 << 63), (1 << 63) - 1]),
    (betterproto.TYPE_FLOAT, "<f", [0.0, -0.0, 1.5, float("inf"), float("nan"), 1e-40]),
    (betterproto.TYPE_DOUBLE, "<d", [0.0, -0.0, 1.5, float("-inf"), float("nan"), 5e-324]),
]:
    for v in vals:
        want = struct.pack(fmt, v)
        assert pre(t, "", v) == want
        assert plen(t, "", v) == len(want)
        checked += 1
    for f in (pre, plen):
        try:
            f(t, "", "not a number")
        except struct.error:
            pass
        else:
            raise AssertionError("expected struct.error")
for t, bad in [
    (betterproto.TYPE_FIXED32, 1 << 32),
    (betterproto.TYPE_FIXED32, -1),
    (betterproto.TYPE_SFIXED32, 1 << 31),
    (betterproto.TYPE_FIXED64, 1 << 64),
    (betterproto.TYPE_SFIXED64, -(1 << 63) - 1),
]:
    for f in (pre, plen):
        try:
            f(t, "", bad)
        except struct.error:
            pass
        else:
            raise AssertionError("expected struct.error")

# strings / bytes / map entry payloads
for v in ["", "a", "é", "€", "\U0001f600", "x" * 127, "y" * 128, "ü" * 64, "z" * 20000]:
    want = v.encode("utf-8")
    assert pre(betterproto.TYPE_STRING, "", v) == want
    assert plen(betterproto.TYPE_STRING, "", v) == len(want)
for v in [b"", b"\x00", b"\xff" * 127, b"\x80" * 128, bytes(range(256)) * 70]:
    assert pre(betterproto.TYPE_BYTES, "", v) is v
    assert plen(betterproto.TYPE_BYTES, "", v) == len(v)
    assert pre(betterproto.TYPE_MAP, "", v) is v
    assert plen(betterproto.TYPE_MAP, "", v) == len(v)
ba = bytearray(b"\x01\x02\x03")
assert pre(betterproto.TYPE_BYTES, "", ba) is ba and plen(betterproto.TYPE_BYTES, "", ba) == 3


# ------------------------------------------------------------------ messages
@dataclass(eq=False, repr=False)
class Inner(betterproto.Message):
    a: int = betterproto.int32_field(1)
    s: str = betterproto.string_field(2)


@dataclass(eq=False, repr=False)
class Wide(betterproto.Message):
    i32: int = betterproto.int32_field(1)
    i64: int = betterproto.int64_field(2)
    u32: int = betterproto.uint32_field(3)
    u64: int = betterproto.uint64_field(4)
    s32: int = betterproto.sint32_field(5)
    s64: int = betterproto.sint64_field(6)
    b: bool = betterproto.bool_field(7)
    f32: int = betterproto.fixed32_field(8)
    f64: int = betterproto.fixed64_field(9)
    sf32: int = betterproto.sfixed32_field(10)
    sf64: int = betterproto.sfixed64_field(11)
    fl: float = betterproto.float_field(12)
    db: float = betterproto.double_field(13)
    st: str = betterproto.string_field(14)
    by: bytes = betterproto.bytes_field(15)
    inner: Inner = betterproto.message_field(16)
    r_s32: List[int] = betterproto.sint32_field(17)
    r_i64: List[int] = betterproto.int64_field(18)
    r_db: List[float] = betterproto.double_field(19)
    r_st: List[str] = betterproto.string_field(20)
    r_inner: List[Inner] = betterproto.message_field(21)
    m: Dict[str, int] = betterproto.map_field(
        22, betterproto.TYPE_STRING, betterproto.TYPE_SINT64
    )
    mi: Dict[int, Inner] = betterproto.map_field(
        23, betterproto.TYPE_INT32, betterproto.TYPE_MESSAGE
    )
    ts: datetime = betterproto.message_field(24)
    du: timedelta = betterproto.message_field(25)
    w_i: Optional[int] = betterproto.message_field(26, wraps=betterproto.TYPE_INT64)
    w_s: Optional[str] = betterproto.message_field(27, wraps=betterproto.TYPE_STRING)
    w_b: Optional[bool] = betterproto.message_field(28, wraps=betterproto.TYPE_BOOL)
    o_i: Optional[int] = betterproto.sint32_field(29, optional=True)
    one_a: int = betterproto.sint64_field(30, group="g")
    one_b: str = betterproto.string_field(31, group="g")
    one_c: Inner = betterproto.message_field(32, group="g")


F = descriptor_pb2.FieldDescriptorProto
fdp = descriptor_pb2.FileDescriptorProto(
    name="c10_keep1.proto",
    package="c10k1",
    syntax="proto3",
    dependency=[
        "google/protobuf/timestamp.proto",
        "google/protobuf/duration.proto",
        "google/protobuf/wrappers.proto",
    ],
)
inner_d = fdp.message_type.add(name="Inner")
inner_d.field.add(name="a", number=1, type=F.TYPE_INT32, label=F.LABEL_OPTIONAL)
inner_d.field.add(name="s", number=2, type=F.TYPE_STRING, label=F.LABEL_OPTIONAL)
wide_d = fdp.message_type.add(name="Wide")
O, R = F.LABEL_OPTIONAL, F.LABEL_REPEATED
for name, num, typ, label, tn in [
    ("i32", 1, F.TYPE_INT32, O, None),
    ("i64", 2, F.TYPE_INT64, O, None),
    ("u32", 3, F.TYPE_UINT32, O, None),
    ("u64", 4, F.TYPE_UINT64, O, None),
    ("s32", 5, F.TYPE_SINT32, O, None),
    ("s64", 6, F.TYPE_SINT64, O, None),
    ("b", 7, F.TYPE_BOOL, O, None),
    ("f32", 8, F.TYPE_FIXED32, O, None),
    ("f64", 9, F.TYPE_FIXED64, O, None),
    ("sf32", 10, F.TYPE_SFIXED32, O, None),
    ("sf64", 11, F.TYPE_SFIXED64, O, None),
    ("fl", 12, F.TYPE_FLOAT, O, None),
    ("db", 13, F.TYPE_DOUBLE, O, None),
    ("st", 14, F.TYPE_STRING, O, None),
    ("by", 15, F.TYPE_BYTES, O, None),
    ("inner", 16, F.TYPE_MESSAGE, O, ".c10k1.Inner"),
    ("r_s32", 17, F.TYPE_SINT32, R, None),
    ("r_i64", 18, F.TYPE_INT64, R, None),
    ("r_db", 19, F.TYPE_DOUBLE, R, None),
    ("r_st", 20, F.TYPE_STRING, R, None),
    ("r_inner", 21, F.TYPE_MESSAGE, R, ".c10k1.Inner"),
    ("m", 22, F.TYPE_MESSAGE, R, ".c10k1.Wide.MEntry"),
    ("mi", 23, F.TYPE_MESSAGE, R, ".c10k1.Wide.MiEntry"),
    ("ts", 24, F.TYPE_MESSAGE, O, ".google.protobuf.Timestamp"),
    ("du", 25, F.TYPE_MESSAGE, O, ".google.protobuf.Duration"),
    ("w_i", 26, F.TYPE_MESSAGE, O, ".google.protobuf.Int64Value"),
    ("w_s", 27, F.TYPE_MESSAGE, O, ".google.protobuf.StringValue"),
    ("w_b", 28, F.TYPE_MESSAGE, O, ".google.protobuf.BoolValue"),
]:
    f = wide_d.field.add(name=name, number=num, type=typ, label=label)
    if tn:
        f.type_name = tn
wide_d.oneof_decl.add(name="g")
wide_d.oneof_decl.add(name="_o_i")
wide_d.field.add(
    name="o_i", number=29, type=F.TYPE_SINT32, label=O, oneof_index=1, proto3_optional=True
)
wide_d.field.add(name="one_a", number=30, type=F.TYPE_SINT64, label=O, oneof_index=0)
wide_d.field.add(name="one_b", number=31, type=F.TYPE_STRING, label=O, oneof_index=0)
wide_d.field.add(
    name="one_c", number=32, type=F.TYPE_MESSAGE, label=O, oneof_index=0,
    type_name=".c10k1.Inner",
)
e = wide_d.nested_type.add(name="MEntry")
e.options.map_entry = True
e.field.add(name="key", number=1, type=F.TYPE_STRING, label=O)
e.field.add(name="value", number=2, type=F.TYPE_SINT64, label=O)
e = wide_d.nested_type.add(name="MiEntry")
e.options.map_entry = True
e.field.add(name="key", number=1, type=F.TYPE_INT32, label=O)
e.field.add(name="value", number=2, type=F.TYPE_MESSAGE, label=O, type_name=".c10k1.Inner")

from google.protobuf import duration_pb2, timestamp_pb2, wrappers_pb2  # noqa: E402,F401

pool = descriptor_pool.Default()
pool.Add(fdp)
GWide = message_factory.GetMessageClass(pool.FindMessageTypeByName("c10k1.Wide"))
GInner = message_factory.GetMessageClass(pool.FindMessageTypeByName("c10k1.Inner"))


def pick_int(lo, hi):
    c = rnd.random()
    if c < 0.3:
        return rnd.choice([v for v in (0, 1, -1, lo, hi, 63, 64, 127, 128, -64, -65, 16383, 16384) if lo <= v <= hi])
    if c < 0.6:
        k = rnd.randrange(0, 64)
        v = rnd.choice((1, -1)) * ((1 << k) + rnd.choice((-1, 0, 1)))
        return min(max(v, lo), hi)
    return rnd.randint(lo, hi)


def pick_str():
    return "".join(rnd.choice("aé€\U0001f600 z") for _ in range(rnd.choice((0, 1, 3, 40, 130))))


def pick_inner():
    return Inner(a=pick_int(-(1 << 31), (1 << 31) - 1), s=pick_str())


def rand_wide():
    m = Wide()
    p = rnd.random
    if p() < 0.5: m.i32 = pick_int(-(1 << 31), (1 << 31) - 1)
    if p() < 0.5: m.i64 = pick_int(-(1 << 63), (1 << 63) - 1)
    if p() < 0.5: m.u32 = pick_int(0, (1 << 32) - 1)
    if p() < 0.5: m.u64 = pick_int(0, (1 << 64) - 1)
    if p() < 0.5: m.s32 = pick_int(-(1 << 31), (1 << 31) - 1)
    if p() < 0.5: m.s64 = pick_int(-(1 << 63), (1 << 63) - 1)
    if p() < 0.5: m.b = rnd.choice((True, False))
    if p() < 0.5: m.f32 = pick_int(0, (1 << 32) - 1)
    if p() < 0.5: m.f64 = pick_int(0, (1 << 64) - 1)
    if p() < 0.5: m.sf32 = pick_int(-(1 << 31), (1 << 31) - 1)
    if p() < 0.5: m.sf64 = pick_int(-(1 << 63), (1 << 63) - 1)
    if p() < 0.5: m.fl = rnd.choice((0.0, 1.5, -2.25, float("inf")))
    if p() < 0.5: m.db = rnd.choice((0.0, 1e300, -1e-300, rnd.random()))
    if p() < 0.5: m.st = pick_str()
    if p() < 0.5: m.by = bytes(rnd.randrange(256) for _ in range(rnd.choice((0, 1, 5, 127, 128, 300))))
    if p() < 0.5: m.inner = rnd.choice((Inner(), pick_inner()))
    if p() < 0.5: m.r_s32 = [pick_int(-(1 << 31), (1 << 31) - 1) for _ in range(rnd.randrange(4))]
    if p() < 0.5: m.r_i64 = [pick_int(-(1 << 63), (1 << 63) - 1) for _ in range(rnd.randrange(40))]
    if p() < 0.5: m.r_db = [rnd.random() for _ in range(rnd.randrange(20))]
    if p() < 0.5: m.r_st = [pick_str() for _ in range(rnd.randrange(4))]
    if p() < 0.5: m.r_inner = [rnd.choice((Inner(), pick_inner())) for _ in range(rnd.randrange(4))]
    if p() < 0.5: m.m = {pick_str(): pick_int(-(1 << 63), (1 << 63) - 1) for _ in range(rnd.randrange(4))}
    if p() < 0.5: m.mi = {pick_int(-(1 << 31), (1 << 31) - 1): rnd.choice((Inner(), pick_inner())) for _ in range(rnd.randrange(4))}
    if p() < 0.5:
        m.ts = datetime(1970, 1, 1, tzinfo=timezone.utc) + timedelta(
            seconds=rnd.randint(-10**9, 4 * 10**9), microseconds=rnd.randrange(10**6)
        )
    if p() < 0.5:
        m.du = timedelta(seconds=rnd.randint(-10**8, 10**8), microseconds=rnd.randrange(10**6))
    if p() < 0.4: m.w_i = rnd.choice((0, pick_int(-(1 << 63), (1 << 63) - 1)))
    if p() < 0.4: m.w_s = rnd.choice(("", pick_str()))
    if p() < 0.4: m.w_b = rnd.choice((True, False))
    if p() < 0.4: m.o_i = rnd.choice((0, pick_int(-(1 << 31), (1 << 31) - 1)))
    c = p()
    if c < 0.2: m.one_a = rnd.choice((0, pick_int(-(1 << 63), (1 << 63) - 1)))
    elif c < 0.4: m.one_b = rnd.choice(("", pick_str()))
    elif c < 0.6: m.one_c = rnd.choice((Inner(), pick_inner()))
    return m


messages = [Wide()] + [rand_wide() for _ in range(400)]
buf = io.BytesIO()
ends = []
for m in messages:
    payload = bytes(m)
    # the size computed without serializing is the size of what is serialized
    assert len(m) == len(payload)
    # google.protobuf reads the payload and re-serializes it to the same bytes
    # (maps: compare parsed content, entry order is the writer's)
    g = GWide.FromString(payload)
    assert Wide().parse(g.SerializeToString(deterministic=False)) == m
    if not m.m and not m.mi:
        # (google.protobuf always writes key and value of a map entry, even when
        # default, so sizes are only comparable for messages without map entries)
        assert g.SerializeToString() == payload, (g.SerializeToString(), payload)
    m.dump(buf, SIZE_DELIMITED)
    ends.append(buf.tell())
data = buf.getvalue()
assert data == b"".join(ref_varint(len(bytes(m))) + bytes(m) for m in messages)

# google.protobuf reads our delimited stream frame by frame ...
gs = io.BytesIO(data)
bs = io.BytesIO(data)
g_out = io.BytesIO()
for m, end in zip(messages, ends):
    g = proto.parse_length_prefixed(GWide, gs)
    assert g is not None and gs.tell() == end
    assert Wide().parse(g.SerializeToString()) == m
    proto.serialize_length_prefixed(g, g_out)
    got = Wide().load(bs, SIZE_DELIMITED)
    assert got == m and bytes(got) == bytes(m) and bs.tell() == end
assert proto.parse_length_prefixed(GWide, gs) is None

# ... and we read the stream google.protobuf writes
gs = io.BytesIO(g_out.getvalue())
for m in messages:
    got = Wide().load(gs, SIZE_DELIMITED)
    assert got == m
assert gs.read() == b""

# truncation of a shorter stream at every byte: equal message or an exception
short = [m for m in messages if len(m) < 150][:12]
assert len(short) == 12 and not short[0]
sbuf = io.BytesIO()
sends = []
for m in short:
    m.dump(sbuf, SIZE_DELIMITED)
    sends.append(sbuf.tell())
sdata = sbuf.getvalue()
for cut in range(len(sdata) + 1):
    s = io.BytesIO(sdata[:cut])
    for m, end in zip(short, sends):
        try:
            got = Wide().load(s, SIZE_DELIMITED)
        except (EOFError, ValueError):
            assert end > cut
            break
        assert got == m and bytes(got) == bytes(m) and s.tell() == end and end <= cut

print(f"keep1 equiv: OK ({checked} scalar cases, {len(messages)} messages, {len(sdata)} cut points)")
