"""Equivalence check for the constant-table refactor (C09).

Touched: the membership tables FIXED_TYPES / PACKED_TYPES / WIRE_*_TYPES that pick the
branch in _preprocess_single, _len_preprocessed_single, _serialize_single, _len_single,
Message.dump and Message.__len__, and the wrapper-class table behind _get_wrapper.

The script
  1. checks the classification of every proto type name (and of foreign names),
  2. drives _serialize_single/_len_single and _get_wrapper directly, error cases included,
  3. compares a message using every scalar type (singular, repeated, wrapped, in a
     oneof, optional) with the same message built with google.protobuf,
  4. checks the C09 statement on all of them and pins the whole output with a digest
     recorded on the reference tree.
"""
import hashlib
import random
import struct
from dataclasses import dataclass
from io import BytesIO
from typing import Dict, List, Optional

import betterproto
from betterproto import SIZE_DELIMITED, encode_varint
from google.protobuf import descriptor_pb2, descriptor_pool, message_factory
from google.protobuf import wrappers_pb2  # noqa: F401  (registers wrappers.proto in the pool)

B = betterproto
ALL_TYPES = [
    B.TYPE_ENUM, B.TYPE_BOOL, B.TYPE_INT32, B.TYPE_INT64, B.TYPE_UINT32, B.TYPE_UINT64,
    B.TYPE_SINT32, B.TYPE_SINT64, B.TYPE_FLOAT, B.TYPE_DOUBLE, B.TYPE_FIXED32,
    B.TYPE_SFIXED32, B.TYPE_FIXED64, B.TYPE_SFIXED64, B.TYPE_STRING, B.TYPE_BYTES,
    B.TYPE_MESSAGE, B.TYPE_MAP,
]  # fmt: skip
VARINT = ALL_TYPES[:8]
FIXED32 = [B.TYPE_FLOAT, B.TYPE_FIXED32, B.TYPE_SFIXED32]
FIXED64 = [B.TYPE_DOUBLE, B.TYPE_FIXED64, B.TYPE_SFIXED64]
LEN = [B.TYPE_STRING, B.TYPE_BYTES, B.TYPE_MESSAGE, B.TYPE_MAP]
FOREIGN = ["", "group", "Int32", "INT32", "int", "float32", "enum ", "messages"]

digest = hashlib.sha256()


def note(*parts):
    for p in parts:
        if isinstance(p, (bytes, bytearray)):
            digest.update(len(p).to_bytes(4, "little") + bytes(p))
        else:
            digest.update(repr(p).encode() + b";")


# --------------------------------------------------------------------------- #
# 1. classification tables
# --------------------------------------------------------------------------- #
def table_checks():
    for t in ALL_TYPES + FOREIGN:
        assert (t in B.WIRE_VARINT_TYPES) == (t in VARINT), t
        assert (t in B.WIRE_FIXED_32_TYPES) == (t in FIXED32), t
        assert (t in B.WIRE_FIXED_64_TYPES) == (t in FIXED64), t
        assert (t in B.WIRE_LEN_DELIM_TYPES) == (t in LEN), t
        assert (t in B.FIXED_TYPES) == (t in FIXED32 + FIXED64), t
        assert (t in B.PACKED_TYPES) == (t in VARINT + FIXED32 + FIXED64), t
    assert len(B.PACKED_TYPES) == 14 and len(B.FIXED_TYPES) == 6
    assert len(B.WIRE_VARINT_TYPES) == 8 and len(B.WIRE_LEN_DELIM_TYPES) == 4
    assert len(B.WIRE_FIXED_32_TYPES) == 3 and len(B.WIRE_FIXED_64_TYPES) == 3
    assert sorted(B.PACKED_TYPES) == sorted(VARINT + FIXED32 + FIXED64)

    wrappers = {
        B.TYPE_BOOL: B.BoolValue, B.TYPE_BYTES: B.BytesValue, B.TYPE_DOUBLE: B.DoubleValue,
        B.TYPE_FLOAT: B.FloatValue, B.TYPE_INT32: B.Int32Value, B.TYPE_INT64: B.Int64Value,
        B.TYPE_STRING: B.StringValue, B.TYPE_UINT32: B.UInt32Value,
        B.TYPE_UINT64: B.UInt64Value,
    }  # fmt: skip
    for t in ALL_TYPES + FOREIGN + [None]:
        if t in wrappers:
            assert B._get_wrapper(t) is wrappers[t], t
            assert B._get_wrapper(t) is B._get_wrapper(t)
        else:
            try:
                B._get_wrapper(t)
            except KeyError as e:
                assert e.args == (t,)
            else:
                raise AssertionError(t)


# --------------------------------------------------------------------------- #
# 2. the single-field helpers
# --------------------------------------------------------------------------- #
INTS = [0, 1, -1, 127, 128, 255, 16383, 16384, 2**31 - 1, -(2**31), 2**32 - 1,
        2**63 - 1, -(2**63), 2**64 - 1]  # fmt: skip
FLOATS = [0.0, -0.0, 1.5, -2.25, 1e30, float("inf"), float("-inf")]
NUMBERS = [1, 2, 15, 16, 2047, 2048, 2**18 - 1, 2**18, 2**29 - 1]


def zigzag(v):
    return (v << 1) ^ (v >> 63)


def expected_payload(t, v):
    if t in (B.TYPE_SINT32, B.TYPE_SINT64):
        return encode_varint(zigzag(v))
    if t in VARINT:
        return encode_varint(v)
    fmt = {B.TYPE_FLOAT: "<f", B.TYPE_DOUBLE: "<d", B.TYPE_FIXED32: "<I",
           B.TYPE_SFIXED32: "<i", B.TYPE_FIXED64: "<Q", B.TYPE_SFIXED64: "<q"}  # fmt: skip
    return struct.pack(fmt[t], v)


def in_range(t, v):
    lo, hi = {
        B.TYPE_ENUM: (-(2**31), 2**31 - 1), B.TYPE_BOOL: (0, 1),
        B.TYPE_INT32: (-(2**31), 2**31 - 1), B.TYPE_INT64: (-(2**63), 2**63 - 1),
        B.TYPE_UINT32: (0, 2**32 - 1), B.TYPE_UINT64: (0, 2**64 - 1),
        B.TYPE_SINT32: (-(2**31), 2**31 - 1), B.TYPE_SINT64: (-(2**63), 2**63 - 1),
        B.TYPE_FIXED32: (0, 2**32 - 1), B.TYPE_SFIXED32: (-(2**31), 2**31 - 1),
        B.TYPE_FIXED64: (0, 2**64 - 1), B.TYPE_SFIXED64: (-(2**63), 2**63 - 1),
    }[t]  # fmt: skip
    return lo <= v <= hi


def single_checks():
    for number in NUMBERS:
        for t in VARINT + FIXED32 + FIXED64:
            values = FLOATS if t in (B.TYPE_FLOAT, B.TYPE_DOUBLE) else [v for v in INTS if in_range(t, v)]
            wire = 0 if t in VARINT else 5 if t in FIXED32 else 1
            for v in values:
                if t == B.TYPE_BOOL:
                    v = bool(v)
                for empty in (False, True):
                    got = B._serialize_single(number, t, v, serialize_empty=empty)
                    assert type(got) is bytes
                    assert got == encode_varint(number << 3 | wire) + expected_payload(t, v), (number, t, v)
                    assert B._len_single(number, t, v, serialize_empty=empty) == len(got)
                    note(got)
                assert B._preprocess_single(t, "", v) == expected_payload(t, v)
                assert B._len_preprocessed_single(t, "", v) == len(expected_payload(t, v))
        for t, values in (
            (B.TYPE_STRING, ["", "a", "é", "x" * 127, "x" * 128, "€" * 6000]),
            (B.TYPE_BYTES, [b"", b"\x00", bytearray(b"ab"), b"y" * 16384]),
            (B.TYPE_MAP, [b"", b"\x08\x01\x12\x01a"]),
            (B.TYPE_MESSAGE, [B.Int32Value(), B.Int32Value(value=-1), B.StringValue(value="s" * 200)]),
        ):
            for v in values:
                body = v.encode() if isinstance(v, str) else bytes(v)
                for empty in (False, True):
                    got = B._serialize_single(number, t, v, serialize_empty=empty)
                    assert type(got) is bytes
                    if body or empty:
                        want = encode_varint(number << 3 | 2) + encode_varint(len(body)) + body
                    else:
                        want = b""
                    assert got == want, (number, t, v, empty)
                    assert B._len_single(number, t, v, serialize_empty=empty) == len(got)
                    note(got)
        # wrapped values: always written, even when the wrapper body is empty
        for wraps, values in (
            (B.TYPE_BOOL, [False, True]),
            (B.TYPE_INT32, [0, 1, -1, 2**31 - 1]),
            (B.TYPE_INT64, [0, -(2**63)]),
            (B.TYPE_UINT32, [0, 2**32 - 1]),
            (B.TYPE_UINT64, [0, 2**64 - 1]),
            (B.TYPE_FLOAT, [0.0, 1.5]),
            (B.TYPE_DOUBLE, [0.0, 1.5]),
            (B.TYPE_STRING, ["", "w" * 130]),
            (B.TYPE_BYTES, [b"", b"\xff" * 3]),
        ):
            for v in values + [None]:
                body = b"" if v is None else bytes(B._get_wrapper(wraps)(value=v))
                got = B._serialize_single(number, B.TYPE_MESSAGE, v, wraps=wraps)
                assert got == encode_varint(number << 3 | 2) + encode_varint(len(body)) + body
                assert B._len_single(number, B.TYPE_MESSAGE, v, wraps=wraps) == len(got)
                assert B._preprocess_single(B.TYPE_MESSAGE, wraps, v) == body
                assert B._len_preprocessed_single(B.TYPE_MESSAGE, wraps, v) == len(body)
                note(got)
        # wrapping with something that has no wrapper class
        for wraps in (B.TYPE_ENUM, B.TYPE_SINT32, B.TYPE_FIXED32, B.TYPE_MESSAGE, "nope"):
            for fn in (B._serialize_single, B._len_single):
                try:
                    fn(number, B.TYPE_MESSAGE, 1, wraps=wraps)
                except KeyError as e:
                    assert e.args == (wraps,)
                else:
                    raise AssertionError(wraps)
            # ... but None short-cuts before the lookup
            assert B._serialize_single(number, B.TYPE_MESSAGE, None, wraps=wraps) == encode_varint(number << 3 | 2) + b"\x00"
            assert B._len_single(number, B.TYPE_MESSAGE, None, wraps=wraps) == len(encode_varint(number << 3 | 2)) + 1
        # foreign type names fall through every table
        for t in FOREIGN:
            for fn in (B._serialize_single, B._len_single):
                try:
                    fn(number, t, b"abc")
                except NotImplementedError as e:
                    assert e.args == (t,)
                else:
                    raise AssertionError(t)


# --------------------------------------------------------------------------- #
# 3. a message with every scalar type, mirrored in google.protobuf
# --------------------------------------------------------------------------- #
class Kind(betterproto.Enum):
    K0 = 0
    K1 = 1
    K300 = 300
    KNEG = -7


SCALARS = [  # (name, betterproto field function, FieldDescriptorProto type)
    ("double", B.double_field, 1), ("float", B.float_field, 2), ("int64", B.int64_field, 3),
    ("uint64", B.uint64_field, 4), ("int32", B.int32_field, 5), ("fixed64", B.fixed64_field, 6),
    ("fixed32", B.fixed32_field, 7), ("bool", B.bool_field, 8), ("string", B.string_field, 9),
    ("bytes", B.bytes_field, 12), ("uint32", B.uint32_field, 13), ("enum", B.enum_field, 14),
    ("sfixed32", B.sfixed32_field, 15), ("sfixed64", B.sfixed64_field, 16),
    ("sint32", B.sint32_field, 17), ("sint64", B.sint64_field, 18),
]  # fmt: skip
WRAPPED = [
    ("bool", "BoolValue"), ("bytes", "BytesValue"), ("double", "DoubleValue"),
    ("float", "FloatValue"), ("int32", "Int32Value"), ("int64", "Int64Value"),
    ("string", "StringValue"), ("uint32", "UInt32Value"), ("uint64", "UInt64Value"),
]  # fmt: skip
PY = {"double": float, "float": float, "bool": bool, "string": str, "bytes": bytes, "enum": Kind}


def build_types():
    """One betterproto class and one google.protobuf class with the same schema.

    Field numbers rise in declaration order (google writes in number order,
    betterproto in declaration order): singular 1.., repeated 101.., oneof 201..,
    optional 301.., wrapped 401.., repeated wrapped 501.., maps 601..
    """
    ns = {"__annotations__": {}}
    fd = descriptor_pb2.FileDescriptorProto(
        name="c09_keep2.proto", package="c09k2", syntax="proto3",
        dependency=["google/protobuf/wrappers.proto"],
    )  # fmt: skip
    en = fd.enum_type.add(name="Kind")
    for k in Kind:
        en.value.add(name=k.name, number=k.value)
    msg = fd.message_type.add(name="All")
    msg.oneof_decl.add(name="pick")

    def add(name, number, ftype, label=1, **kw):
        f = msg.field.add(name=name, number=number, type=ftype, label=label, **kw)
        if ftype == 14:
            f.type_name = ".c09k2.Kind"
        return f

    for i, (name, fn, ftype) in enumerate(SCALARS):
        py = PY.get(name, int)
        ns[f"s_{name}"] = fn(1 + i)
        ns["__annotations__"][f"s_{name}"] = py
        add(f"s_{name}", 1 + i, ftype)
    for i, (name, fn, ftype) in enumerate(SCALARS):
        ns[f"r_{name}"] = fn(101 + i)
        ns["__annotations__"][f"r_{name}"] = List[PY.get(name, int)]
        add(f"r_{name}", 101 + i, ftype, label=3)
    for i, (name, fn, ftype) in enumerate(SCALARS):
        ns[f"o_{name}"] = fn(201 + i, group="pick")
        ns["__annotations__"][f"o_{name}"] = PY.get(name, int)
        add(f"o_{name}", 201 + i, ftype, oneof_index=0)
    n_oneofs = 1
    for i, (name, fn, ftype) in enumerate(SCALARS):
        ns[f"p_{name}"] = fn(301 + i, optional=True)
        ns["__annotations__"][f"p_{name}"] = Optional[PY.get(name, int)]
        msg.oneof_decl.add(name=f"_p_{name}")
        add(f"p_{name}", 301 + i, ftype, oneof_index=n_oneofs, proto3_optional=True)
        n_oneofs += 1
    for i, (name, cls) in enumerate(WRAPPED):
        ns[f"w_{name}"] = B.message_field(401 + i, wraps=name)
        ns["__annotations__"][f"w_{name}"] = Optional[PY.get(name, int)]
        add(f"w_{name}", 401 + i, 11, type_name=f".google.protobuf.{cls}")
    for i, (name, cls) in enumerate(WRAPPED):
        ns[f"rw_{name}"] = B.message_field(501 + i, wraps=name)
        ns["__annotations__"][f"rw_{name}"] = List[Optional[PY.get(name, int)]]
        add(f"rw_{name}", 501 + i, 11, label=3, type_name=f".google.protobuf.{cls}")
    # maps with a single entry each (entry order is then not an issue)
    for i, (kname, vname) in enumerate(
        [("string", "int32"), ("int64", "string"), ("bool", "double"), ("sint32", "fixed32"),
         ("fixed64", "sint64"), ("uint32", "bytes"), ("string", "enum")]
    ):  # fmt: skip
        fname = f"m_{kname}_{vname}"
        ns[fname] = B.map_field(601 + i, kname, vname)
        ns["__annotations__"][fname] = Dict[PY.get(kname, int), PY.get(vname, int)]
        entry = msg.nested_type.add(name=f"M{i}Entry")
        entry.options.map_entry = True
        ktype = dict((n, t) for n, _, t in SCALARS)[kname]
        vtype = dict((n, t) for n, _, t in SCALARS)[vname]
        entry.field.add(name="key", number=1, type=ktype, label=1)
        vf = entry.field.add(name="value", number=2, type=vtype, label=1)
        if vtype == 14:
            vf.type_name = ".c09k2.Kind"
        add(fname, 601 + i, 11, label=3, type_name=f".c09k2.All.M{i}Entry")

    ns["__module__"] = __name__
    cls = dataclass(eq=False, repr=False)(type("All", (betterproto.Message,), ns))
    pool = descriptor_pool.Default()
    pool.Add(fd)
    gcls = message_factory.GetMessageClass(pool.FindMessageTypeByName("c09k2.All"))
    return cls, gcls


def sample(name, r, nonzero=False):
    if name in ("double", "float"):
        pool = [1.5, -2.25, 0.5, 1024.0, float("inf")] + ([] if nonzero else [0.0])
        return r.choice(pool)
    if name == "bool":
        return True if nonzero else r.choice([False, True])
    if name == "string":
        return r.choice(["a", "é€", "x" * 127, "x" * 128] + ([] if nonzero else [""]))
    if name == "bytes":
        return r.choice([b"\x00", b"b" * 200] + ([] if nonzero else [b""]))
    if name == "enum":
        return r.choice([Kind.K1, Kind.K300, Kind.KNEG] + ([] if nonzero else [Kind.K0]))
    pool = [v for v in INTS if in_range(name, v) and (v or not nonzero)]
    return r.choice(pool)


def set_google(g, field, value, repeated=False, wrapped=False):
    if isinstance(value, Kind):
        value = int(value)
    if wrapped and repeated:
        for v in value:
            item = getattr(g, field).add()
            if v is not None:
                item.value = v
    elif wrapped:
        getattr(g, field).value = value
    elif repeated:
        getattr(g, field).extend([int(v) if isinstance(v, Kind) else v for v in value])
    else:
        setattr(g, field, value)


def observe(m):
    data = bytes(m)
    assert m.SerializeToString() == data
    assert len(m) == len(data), (len(m), len(data))
    out = BytesIO()
    m.dump(out)
    assert out.getvalue() == data
    out = BytesIO()
    m.dump(out, SIZE_DELIMITED)
    assert out.getvalue() == encode_varint(len(data)) + data
    return data


def message_checks():
    All, GAll = build_types()
    r = random.Random(909)
    assert observe(All()) == b"" == GAll().SerializeToString()
    names = [n for n, _, _ in SCALARS]
    for round_ in range(400):
        m, g = All(), GAll()
        density = r.choice([0.05, 0.3, 0.9])
        for name in names:
            if r.random() < density:
                v = sample(name, r)
                setattr(m, f"s_{name}", v)
                set_google(g, f"s_{name}", v)
            if r.random() < density:
                vs = [sample(name, r) for _ in range(r.choice([1, 2, 5, 130]))]
                setattr(m, f"r_{name}", vs)
                set_google(g, f"r_{name}", vs, repeated=True)
            if r.random() < density:
                v = sample(name, r)
                setattr(m, f"p_{name}", v)
                set_google(g, f"p_{name}", v)
        if r.random() < 0.8:
            name = r.choice(names)
            v = sample(name, r)
            setattr(m, f"o_{name}", v)
            set_google(g, f"o_{name}", v)
        for name, _ in WRAPPED:
            if r.random() < density:
                v = sample(name, r)
                setattr(m, f"w_{name}", v)
                set_google(g, f"w_{name}", v, wrapped=True)
            if r.random() < density:
                vs = [r.choice([sample(name, r), None]) for _ in range(r.choice([1, 3]))]
                setattr(m, f"rw_{name}", vs)
                set_google(g, f"rw_{name}", vs, repeated=True, wrapped=True)
        for fname in [f for f in All.__dataclass_fields__ if f.startswith("m_")]:
            if r.random() < density:
                _, kname, vname = fname.split("_")
                k, v = sample(kname, r, nonzero=True), sample(vname, r, nonzero=True)
                getattr(m, fname)[k] = v
                getattr(g, fname)[k] = int(v) if isinstance(v, Kind) else v
        data = observe(m)
        assert data == g.SerializeToString(deterministic=True), round_
        note(data)
        # parsed back, with unknown fields appended, the statement still holds
        back = All().parse(data + b"\xc0\x3e\x01" + b"\xca\x3e\x02hi")
        again = observe(back)
        assert again == data + b"\xc0\x3e\x01" + b"\xca\x3e\x02hi"
        g2 = GAll()
        g2.ParseFromString(again)
        assert g2.SerializeToString(deterministic=True) == again
    # float/double zero of either sign is left out by betterproto (singular), kept in lists
    z = All(r_double=[0.0, -0.0], r_float=[-0.0])
    z.s_double = -0.0
    note(observe(z))


EXPECTED = "5df971b8eed4b95cd6bceedb38537291d12307f7a78c3651ececbe5a6f54b5e2"

if __name__ == "__main__":
    table_checks()
    single_checks()
    message_checks()
    got = digest.hexdigest()
    assert got == EXPECTED, got
    print("ok", got)
