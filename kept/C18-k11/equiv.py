"""C18 equivalence check for the map-entry lookup of the plugin (is_map /
MapEntryCompiler.__post_init__ in plugin/models.py).

For schemas full of map fields (every key type, scalar / enum / message / nested /
cross-package / well-known / wrapper values, odd field names, look-alike non-map
fields) and all 3 x 2 plugin option combinations it checks

* is_map() against protoc's own map_entry flag for every field of every message,
* key/value types recorded by every MapEntryCompiler against the descriptors,
* the rendered modules against pinned sha256 digests (taken from the reference tree),
* that every variant imports, has the same classes / fields as the default one and
  encodes equal values to the same bytes and JSON, and that google.protobuf reads
  those bytes as the same message (and the other way round).

Run:  PYTHONPATH=<worktree>/src /venv/bin/python equiv.py          (--golden prints digests)
"""
import contextlib
import dataclasses
import hashlib
import importlib
import io
import itertools
import json
import os
import shutil
import sys
import tempfile
from datetime import datetime, timedelta, timezone

if os.environ.get("PYTHONHASHSEED") != "0":
    # the trailing cross-package imports are rendered in set order: pin the string hash
    os.environ["PYTHONHASHSEED"] = "0"
    os.execv(sys.executable, [sys.executable] + sys.argv)

import grpc_tools
from google.protobuf import descriptor_pb2, descriptor_pool, json_format, message_factory
from grpc_tools import protoc as _protoc

import betterproto
from betterproto.plugin import compiler as plugin_compiler

plugin_compiler.subprocess.check_output = lambda cmd, input, encoding: input

from betterproto.lib.google.protobuf import (  # noqa: E402
    DescriptorProto,
    FieldDescriptorProto,
    FieldDescriptorProtoType,
    FileDescriptorSet,
    MessageOptions,
)
from betterproto.lib.google.protobuf.compiler import CodeGeneratorRequest  # noqa: E402
from betterproto.plugin import models, parser  # noqa: E402
from betterproto.plugin.models import MapEntryCompiler, is_map  # noqa: E402

models.monkey_patch_oneof_index()

KEY_TYPES = [
    "int32", "int64", "uint32", "uint64", "sint32", "sint64",
    "fixed32", "fixed64", "sfixed32", "sfixed64", "bool", "string",
]

PROTOS = {
    "other/pkg/ref.proto": """
syntax = "proto3";
package other.pkg;
enum Kind { NONE = 0; A = 1; B = 2; }
message Ref { string name = 1; map<string, int32> counts = 2; }
""",
    "maps/all.proto": """
syntax = "proto3";
package maps;
import "other/pkg/ref.proto";
import "google/protobuf/timestamp.proto";
import "google/protobuf/duration.proto";
import "google/protobuf/wrappers.proto";
import "google/protobuf/struct.proto";

enum Color { RED = 0; GREEN = 1; BLUE = 2; }

message Leaf { int32 v = 1; }

message Keys {
"""
    + "".join(
        f"  map<{k}, string> by_{k} = {i + 1};\n" for i, k in enumerate(KEY_TYPES)
    )
    + """}

message Values {
  message Inner { string s = 1; map<int32, Leaf> deep = 2; }
  map<string, double> doubles = 1;
  map<string, float> floats = 2;
  map<string, bytes> blobs = 3;
  map<string, string> strings = 4;
  map<string, bool> flags = 5;
  map<string, sint64> zigzags = 6;
  map<string, fixed32> fixeds = 7;
  map<int32, Color> colors = 8;
  map<int32, other.pkg.Kind> kinds = 9;
  map<string, Leaf> leaves = 10;
  map<string, Inner> inners = 11;
  map<string, other.pkg.Ref> refs = 12;
  map<string, google.protobuf.Timestamp> stamps = 13;
  map<string, google.protobuf.Duration> spans = 14;
  map<string, google.protobuf.Int32Value> wrapped_ints = 15;
  map<string, google.protobuf.StringValue> wrapped_strs = 16;
  map<string, google.protobuf.BoolValue> wrapped_bools = 17;
  map<string, google.protobuf.Struct> structs = 18;
  map<string, Values> recursive = 19;
}

message Names {
  map<string, int32> my_map_field = 1;
  map<string, int32> camelCaseMap = 2;
  map<string, int32> with_1_digit = 3;
  map<string, int32> m = 4;
  map<string, int32> UPPER = 5;
  map<string, int32> trailing_ = 6;
  map<string, int32> __dunder = 7;
  map<string, Leaf> entry = 8;
  map<string, string> foo_bar = 9;
  map<int64, Leaf> foobar = 10;
}

// fields that only look like maps
message LookAlikes {
  message LooksEntry { string key = 1; int32 value = 2; }
  message ItemsEntry { string key = 1; }
  LooksEntry looks = 1;
  repeated LooksEntry l_ooks = 2;
  repeated ItemsEntry items = 3;
  map<string, LooksEntry> real = 4;
  repeated Leaf leaf = 5;
  Leaf single = 6;
  optional Leaf maybe = 7;
  oneof choice { Leaf picked = 8; LooksEntry other = 9; }
  repeated int32 numbers = 10;
}

message Shadow {
  string str = 1;
  int32 int = 2;
  map<string, int32> table = 3;
  map<string, bytes> raw = 4;
  bytes bytes = 5;
  map<int32, bytes> after = 6;
  map<string, google.protobuf.Int32Value> boxed = 7;
}

service Lookup {
  rpc Get(Keys) returns (Values);
  rpc Watch(Names) returns (stream Values);
  rpc Push(stream Values) returns (other.pkg.Ref);
  rpc Both(stream other.pkg.Ref) returns (stream Shadow);
}
""",
}

CONFIGS = {
    "direct": "",
    "root": "typing.root",
    "310": "typing.310",
    "direct+pydantic": "pydantic_dataclasses",
    "root+pydantic": "typing.root,pydantic_dataclasses",
    "310+pydantic": "typing.310,pydantic_dataclasses",
}

GOLDEN = {
    # GOLDEN-BEGIN
    "direct:other/pkg/__init__.py": "1c5e349b1f796ed28bc218d3928504f057ba275946839c1f66f2d679a1b37d5c",
    "direct:maps/__init__.py": "14b61278ec7c0ed76c18e5a71421594fcfee66a2108a3b16211fb332136fb579",
    "direct:__init__.py": "e3b0c44298fc1c149afbf4c8996fb92427ae41e4649b934ca495991b7852b855",
    "direct:other/__init__.py": "e3b0c44298fc1c149afbf4c8996fb92427ae41e4649b934ca495991b7852b855",
    "root:other/pkg/__init__.py": "2cbec0f44e32ac3cdd4d4828e271f4f14ab9493cb93de1687dc27eb965c50868",
    "root:maps/__init__.py": "0d99d3a3bcaaaba06eaef3951c2a8d40c3ec64f227d24177ba0210f19e74464c",
    "root:__init__.py": "e3b0c44298fc1c149afbf4c8996fb92427ae41e4649b934ca495991b7852b855",
    "root:other/__init__.py": "e3b0c44298fc1c149afbf4c8996fb92427ae41e4649b934ca495991b7852b855",
    "310:other/pkg/__init__.py": "876914f2a5dbdf319640047db8c6090173edec299adc0d7af4aac1ae7770666d",
    "310:maps/__init__.py": "381e7c72250fc3732d16a0d897cce0e4e32f722475bfff42c5b0fcf25c3a5386",
    "310:__init__.py": "e3b0c44298fc1c149afbf4c8996fb92427ae41e4649b934ca495991b7852b855",
    "310:other/__init__.py": "e3b0c44298fc1c149afbf4c8996fb92427ae41e4649b934ca495991b7852b855",
    "direct+pydantic:other/pkg/__init__.py": "9ef167828b6b362d710ef789f20f6aab8ba285c63ea368233688fdf8c414b2c9",
    "direct+pydantic:maps/__init__.py": "3b30439b2c1d5c72b2573b723568a1abc311c5671501b1c28e59565d8a030768",
    "direct+pydantic:__init__.py": "e3b0c44298fc1c149afbf4c8996fb92427ae41e4649b934ca495991b7852b855",
    "direct+pydantic:other/__init__.py": "e3b0c44298fc1c149afbf4c8996fb92427ae41e4649b934ca495991b7852b855",
    "root+pydantic:other/pkg/__init__.py": "f0262e7fa4062ee309b838229df56d009c42c6b271c0fed722672f02082a9d8a",
    "root+pydantic:maps/__init__.py": "a29e0762cb393a09867251d9c511abc1b316a8bd86d5ad06dbe169db9f5763f8",
    "root+pydantic:__init__.py": "e3b0c44298fc1c149afbf4c8996fb92427ae41e4649b934ca495991b7852b855",
    "root+pydantic:other/__init__.py": "e3b0c44298fc1c149afbf4c8996fb92427ae41e4649b934ca495991b7852b855",
    "310+pydantic:other/pkg/__init__.py": "6649795826fe8b4ac6f80da60984a0dac4afa25472b5cb17286b1ee74fabbc8d",
    "310+pydantic:maps/__init__.py": "02cd7ce61a7e06280a0c9254103a07e05b45bde056cd66ede5bc5f4cb9b0595d",
    "310+pydantic:__init__.py": "e3b0c44298fc1c149afbf4c8996fb92427ae41e4649b934ca495991b7852b855",
    "310+pydantic:other/__init__.py": "e3b0c44298fc1c149afbf4c8996fb92427ae41e4649b934ca495991b7852b855",
    # GOLDEN-END
}


def descriptor_set(protos):
    d = tempfile.mkdtemp(prefix="c18p_")
    try:
        for name, text in protos.items():
            p = os.path.join(d, name)
            os.makedirs(os.path.dirname(p), exist_ok=True)
            with open(p, "w") as f:
                f.write(text)
        out = os.path.join(d, "set.bin")
        inc = os.path.join(os.path.dirname(grpc_tools.__file__), "_proto")
        rc = _protoc.main(
            ["protoc", f"-I{d}", f"-I{inc}", f"--descriptor_set_out={out}",
             "--include_imports", "--include_source_info", *protos]
        )
        assert rc == 0, "protoc failed"
        with open(out, "rb") as f:
            return f.read()
    finally:
        shutil.rmtree(d)


DESCRIPTORS = descriptor_set(PROTOS)
ROOT = tempfile.mkdtemp(prefix="c18gen_")
sys.path.insert(0, ROOT)
_counter = itertools.count()

# google.protobuf's view of the same schema (the oracle)
G_SET = descriptor_pb2.FileDescriptorSet.FromString(DESCRIPTORS)
G_POOL = descriptor_pool.DescriptorPool()
for _f in G_SET.file:
    G_POOL.Add(_f)


def gclass(full_name):
    return message_factory.GetMessageClass(G_POOL.FindMessageTypeByName(full_name))


def run_plugin(parameter):
    """-> ({file name: content}, [OutputTemplate])"""
    captured = []
    original = parser.outputfile_compiler

    def capture(output_file):
        captured.append(output_file)
        return original(output_file=output_file)

    parser.outputfile_compiler = capture
    try:
        request = CodeGeneratorRequest(
            file_to_generate=list(PROTOS),
            parameter=parameter,
            proto_file=FileDescriptorSet().parse(DESCRIPTORS).file,
        )
        with contextlib.redirect_stderr(io.StringIO()):
            response = parser.generate_code(request)
    finally:
        parser.outputfile_compiler = original
    return {f.name: f.content for f in response.file}, captured


def write_and_import(files):
    top = f"c18v{next(_counter)}"
    for name, content in files.items():
        p = os.path.join(ROOT, top, name)
        os.makedirs(os.path.dirname(p), exist_ok=True)
        with open(p, "w") as fh:
            fh.write(content)
    importlib.invalidate_caches()
    return lambda pkg: importlib.import_module(f"{top}.{pkg}")


# --------------------------------------------------------------------------- is_map
def check_is_map_against_protoc():
    """is_map(field, message) == protoc's map_entry flag of the field's type"""
    fds = FileDescriptorSet().parse(DESCRIPTORS)
    checked = maps = 0

    def walk(g_msg, b_msg):
        nonlocal checked, maps
        assert g_msg.name == b_msg.name
        for g_field, b_field in zip(g_msg.field, b_msg.field):
            expected = False
            if g_field.type == g_field.TYPE_MESSAGE:
                target = G_POOL.FindMessageTypeByName(g_field.type_name.lstrip("."))
                expected = target.GetOptions().map_entry
            assert is_map(b_field, b_msg) is expected, (b_msg.name, b_field.name)
            checked += 1
            maps += expected
        for g_nested, b_nested in zip(g_msg.nested_type, b_msg.nested_type):
            walk(g_nested, b_nested)

    for g_file, b_file in zip(G_SET.file, fds.file):
        assert g_file.name == b_file.name
        for g_msg, b_msg in zip(g_file.message_type, b_file.message_type):
            walk(g_msg, b_msg)
    assert checked > 150 and maps == 49, (checked, maps)


def check_is_map_synthetic():
    """hand-made descriptors: every way the lookup can miss"""
    T = FieldDescriptorProtoType

    def entry(name, map_entry=True):
        return DescriptorProto(
            name=name,
            field=[
                FieldDescriptorProto(name="key", number=1, type=T.TYPE_STRING),
                FieldDescriptorProto(name="value", number=2, type=T.TYPE_INT32),
            ],
            options=MessageOptions(map_entry=map_entry),
        )

    def fld(name, type_name, type=T.TYPE_MESSAGE):
        return FieldDescriptorProto(name=name, number=1, type=type, type_name=type_name)

    parent = DescriptorProto(
        name="P",
        nested_type=[
            entry("NotThis"),
            entry("FooEntry"),
            entry("PlainEntry", map_entry=False),
            entry("Under_Score_Entry"),
            entry("_P_RenamedEntry"),
        ],
    )
    cases = [
        (fld("foo", ".pkg.P.FooEntry"), True),
        (fld("FOO", ".pkg.P.FooEntry"), True),
        (fld("f_o_o", ".pkg.P.FooEntry"), True),
        (fld("foo", "FooEntry"), True),
        (fld("foo", ".pkg.P.FooEntry", type=T.TYPE_ENUM), False),
        (fld("foo", ".pkg.P.FooEntry", type=T.TYPE_STRING), False),
        (fld("foo", ".pkg.P.Foo"), False),
        (fld("fooo", ".pkg.P.FooEntry"), False),
        (fld("foo", ".pkg.P.FoooEntry"), False),
        (fld("plain", ".pkg.P.PlainEntry"), False),
        (fld("under_score", ".pkg.P.UnderScoreEntry"), True),
        (fld("underscore", ".pkg.P.UnderscoreEntry"), True),
        (fld("under_score", ".pkg.P.Under_Score_Entry"), False),
        (fld("renamed", ".pkg.P.RenamedEntry"), False),
        (fld("missing", ".pkg.P.MissingEntry"), False),
        (fld("notthis", ".pkg.P.NotThis"), False),
        (fld("", ".pkg.P.Entry"), False),
    ]
    for field, expected in cases:
        assert is_map(field, parent) is expected, (field.name, field.type_name)
        # a parent without nested types (e.g. a MessageCompiler) never has maps
        assert is_map(field, object()) is False
        assert is_map(field, DescriptorProto(name="Empty")) is False
    # the result does not depend on the position of the entry
    parent.nested_type.reverse()
    for field, expected in cases:
        assert is_map(field, parent) is expected, (field.name, field.type_name)


# ------------------------------------------------------------------------ the model
def check_map_compilers(outputs, config):
    """key / value types of every MapEntryCompiler against google's descriptors"""
    seen = 0
    for output in outputs:
        for message in output.messages:
            for field in message.fields:
                g_parent = None
                if not isinstance(field, MapEntryCompiler):
                    assert field.field_type != "map"
                    continue
                seen += 1
                assert field.repeated is False and field.field_type == "map"
                g_entry = G_POOL.FindMessageTypeByName(
                    field.proto_obj.type_name.lstrip(".")
                )
                assert g_entry.GetOptions().map_entry
                g_key, g_value = g_entry.fields_by_name["key"], g_entry.fields_by_name["value"]
                # the lookup is by normalised name: two entries of one message that only
                # differ in case / underscores resolve to the one declared last
                twins = [
                    n for n in g_entry.containing_type.nested_types
                    if n.GetOptions().map_entry
                    and n.name.lower() == g_entry.name.lower()
                ]
                g_key = twins[-1].fields_by_name["key"]
                g_value = twins[-1].fields_by_name["value"]
                assert field.proto_k_type == FieldDescriptorProtoType(g_key.type).name
                assert field.proto_v_type == FieldDescriptorProtoType(g_value.type).name
                assert field.betterproto_field_args == [
                    f"betterproto.{field.proto_k_type}",
                    f"betterproto.{field.proto_v_type}",
                ]
                assert field.py_k_type in ("int", "str", "bool"), field.py_k_type
                if g_value.message_type is None and g_value.enum_type is None:
                    assert field.py_v_type in ("int", "str", "bool", "float", "bytes")
                elif g_value.message_type is not None and g_value.message_type.full_name in (
                    "google.protobuf.Timestamp", "google.protobuf.Duration"
                ):
                    assert field.py_v_type in ("datetime", "timedelta")
                else:
                    target = g_value.message_type or g_value.enum_type
                    assert field.py_v_type.startswith('"') and field.py_v_type.endswith('"')
                    last = field.py_v_type.strip('"').split(".")[-1]
                    assert last.lower() == target.full_name[
                        len(target.file.package) + 1:
                    ].replace(".", "").lower(), (last, target.full_name)
                    if target.full_name.startswith("google.protobuf."):
                        lib = (
                            "betterproto_lib_pydantic_google_protobuf"
                            if "pydantic" in config
                            else "betterproto_lib_google_protobuf"
                        )
                        assert field.py_v_type == f'"{lib}.{target.name}"'
                # the two helper FieldCompilers of every matching entry hang off the field
                assert len(field.fields) == 2 * len(twins)
                assert "Dict[" in field.annotation or "dict[" in field.annotation
                assert field.get_field_string().startswith(f"{field.py_name}: ")
    assert seen == 12 + 19 + 10 + 1 + 4 + 1 + 1, seen


# -------------------------------------------------------------------- the modules
def shape(module):
    out = {}
    for name in module.__all__:
        obj = getattr(module, name)
        if isinstance(obj, type) and issubclass(obj, betterproto.Message):
            out[name] = {
                f.name: (m.number, m.proto_type, m.map_types, m.group, m.wraps)
                for f in dataclasses.fields(obj)
                for m in [betterproto.FieldMetadata.get(f)]
            }
        elif isinstance(obj, type) and issubclass(obj, betterproto.Enum):
            out[name] = {member.name: member.value for member in obj}
        else:
            out[name] = "service"
    return out


T0 = datetime(2024, 2, 29, 12, 30, 15, 250000, tzinfo=timezone.utc)


def samples(maps, other, lib):
    """(google full name, betterproto message) pairs built from one configuration"""
    Leaf, Values = maps.Leaf, maps.Values
    yield "maps.Keys", maps.Keys(
        by_int32={-1: "a", 0: "", 2147483647: "max"},
        by_int64={-(2**63): "min", 5: "x"},
        by_uint32={0: "z", 4294967295: "m"},
        by_uint64={2**64 - 1: "m"},
        by_sint32={-7: "n", 7: "p"},
        by_sint64={-(2**40): "n"},
        by_fixed32={1: "a"},
        by_fixed64={2**40: "a"},
        by_sfixed32={-1: "a"},
        by_sfixed64={-(2**40): "a"},
        by_bool={True: "t", False: "f"},
        by_string={"": "empty", "k": "v", "é": "ü"},
    )
    yield "maps.Keys", maps.Keys()
    yield "maps.Values", Values(
        doubles={"a": 1.5, "z": 0.0},
        floats={"a": -0.25},
        blobs={"a": b"\x00\xff", "e": b""},
        strings={"a": "b", "": ""},
        flags={"t": True, "f": False},
        zigzags={"n": -5},
        fixeds={"x": 7},
        colors={1: maps.Color.GREEN, 0: maps.Color.RED, 2: maps.Color.BLUE},
        kinds={3: other.Kind.B},
        leaves={"one": Leaf(v=1), "zero": Leaf()},
        inners={"i": maps.ValuesInner(s="s", deep={4: Leaf(v=4)})},
        refs={"r": other.Ref(name="n", counts={"c": 2})},
        stamps={"t": T0},
        spans={"d": timedelta(seconds=90, microseconds=500)},
        wrapped_ints={"w": lib.Int32Value(value=5), "z": lib.Int32Value()},
        wrapped_strs={"w": lib.StringValue(value="s")},
        wrapped_bools={"w": lib.BoolValue(value=True)},
        recursive={"again": Values(strings={"x": "y"})},
    )
    yield "maps.Values", Values(leaves={"": Leaf()})
    yield "maps.Values", Values(
        doubles={"a": 1.5, "z": 0.0},
        blobs={"a": b"\x00\xff", "e": b""},
        flags={"t": True, "f": False},
        zigzags={"n": -5},
        colors={1: maps.Color.GREEN, 0: maps.Color.RED},
        kinds={3: other.Kind.B},
        leaves={"one": Leaf(v=1), "zero": Leaf()},
        inners={"i": maps.ValuesInner(s="s", deep={4: Leaf(v=4)})},
        refs={"r": other.Ref(name="n", counts={"c": 2})},
        stamps={"t": T0},
        spans={"d": timedelta(seconds=90, microseconds=500)},
        recursive={"again": Values(strings={"x": "y"})},
    )
    yield "maps.Names", maps.Names(
        my_map_field={"a": 1}, camel_case_map={"b": 2}, with_1_digit={"c": 3},
        m={"d": 4}, upper={"e": 5}, trailing={"f": 6}, dunder={"g": 7},
        entry={"h": Leaf(v=8)}, foo_bar={3: Leaf(v=3)}, foobar={9: Leaf(v=9)},
    )
    yield "maps.LookAlikes", maps.LookAlikes(
        looks=maps.LookAlikesLooksEntry(key="k", value=1),
        l_ooks=[maps.LookAlikesLooksEntry(key="a"), maps.LookAlikesLooksEntry(value=2)],
        items=[maps.LookAlikesItemsEntry(key="x"), maps.LookAlikesItemsEntry()],
        real={"r": maps.LookAlikesLooksEntry(key="rk", value=3)},
        leaf=[Leaf(v=1), Leaf()],
        single=Leaf(v=2),
        maybe=Leaf(),
        other=maps.LookAlikesLooksEntry(key="o"),
        numbers=[1, 2, 3],
    )
    yield "maps.Shadow", maps.Shadow(
        str="s", int=3, table={"a": 1}, raw={"r": b"\x01"}, bytes=b"\x02",
        after={1: b"\x03"}, boxed={"b": lib.Int32Value(value=9)},
    )


def check_modules(get, config, reference):
    maps, other = get("maps"), get("other.pkg")
    lib = importlib.import_module(
        "betterproto.lib.pydantic.google.protobuf"
        if "pydantic" in config
        else "betterproto.lib.google.protobuf"
    )
    # the annotations resolve to real dict types with the right value classes
    hints = maps.Values._type_hints()
    assert hints["leaves"].__args__ == (str, maps.Leaf)
    assert hints["inners"].__args__ == (str, maps.ValuesInner)
    assert hints["refs"].__args__ == (str, other.Ref)
    assert hints["colors"].__args__ == (int, maps.Color)
    assert hints["kinds"].__args__ == (int, other.Kind)
    assert hints["stamps"].__args__ == (str, datetime)
    assert hints["spans"].__args__ == (str, timedelta)
    assert hints["wrapped_ints"].__args__ == (str, lib.Int32Value)
    assert hints["structs"].__args__ == (str, lib.Struct)
    assert hints["recursive"].__args__ == (str, maps.Values)
    assert maps.Names._type_hints()["foo_bar"].__args__ == maps.Names._type_hints()[
        "foobar"
    ].__args__
    assert maps.LookAlikes._type_hints()["real"].__args__ == (str, maps.LookAlikesLooksEntry)
    assert maps.LookAlikes._type_hints()["looks"] is maps.LookAlikesLooksEntry
    assert maps.Shadow._type_hints()["after"].__args__ == (int, bytes)
    assert issubclass(maps.LookupStub, betterproto.ServiceStub)
    assert len(maps.LookupBase().__mapping__()) == 4

    shapes = {"maps": shape(maps), "other": shape(other)}
    encoded = []
    json_checked = 0
    for index, (g_name, message) in enumerate(samples(maps, other, lib)):
        data, text = bytes(message), message.to_json()
        encoded.append((data, text))
        if g_name == "maps.Names":
            # foo_bar takes the entry type of foobar (see check_map_compilers)
            continue
        # google.protobuf reads the bytes as the message our JSON describes ...
        g_message = gclass(g_name).FromString(data)
        try:
            g_from_json = json_format.Parse(text, gclass(g_name)())
        except json_format.ParseError:
            # betterproto writes wrapper map values as {"value": ...} objects
            assert "wrapped" in text or "boxed" in text, text
        else:
            assert g_message == g_from_json, (config, g_name, index)
            json_checked += 1
        # ... and what google.protobuf writes comes back as the same message
        back = type(message)().parse(g_message.SerializeToString())
        assert back == message, (config, g_name, index)
        assert back.to_dict() == message.to_dict()
        assert json.loads(back.to_json()) == json.loads(text)
    assert json_checked == 5, json_checked
    if reference:
        assert shapes == reference["shapes"], f"[{config}] classes differ"
        assert encoded == reference["encoded"], f"[{config}] encodings differ"
    return {"shapes": shapes, "encoded": encoded}


def main():
    golden_out = {}
    check_is_map_against_protoc()
    check_is_map_synthetic()
    reference = None
    for config, parameter in CONFIGS.items():
        files, outputs = run_plugin(parameter)
        assert sorted(files) == [
            "__init__.py", "maps/__init__.py", "other/__init__.py", "other/pkg/__init__.py",
        ], sorted(files)
        check_map_compilers(outputs, config)
        for name, content in files.items():
            compile(content, name, "exec")  # syntactically valid
            golden_out[f"{config}:{name}"] = hashlib.sha256(content.encode()).hexdigest()
        result = check_modules(write_and_import(files), config, reference)
        reference = reference or result
        print(f"ok: {config}")
    if "--golden" in sys.argv:
        for key, value in golden_out.items():
            print(f'    "{key}": "{value}",')
        return
    assert golden_out == GOLDEN, {
        k: v for k, v in golden_out.items() if GOLDEN.get(k) != v
    }
    print("all checks passed")


if __name__ == "__main__":
    try:
        main()
    finally:
        shutil.rmtree(ROOT, ignore_errors=True)
