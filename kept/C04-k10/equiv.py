"""C04 keep2: presence bookkeeping behind default-valued oneof / optional members.

from_dict (classmethod form) goes through the constructor and __post_init__, the
instance form through __setattr__; to_dict and the encoder then read
_group_current to decide whether a default-valued member is emitted.  This script
checks that bookkeeping directly (exact _group_current, _serialized_on_wire,
which_one_of, AttributeError on unselected members) against a small model, checks
the dict / JSON round trip for every member at its default and at a non-default
value, replays random assignment sequences, and compares the wire bytes and JSON
with google.protobuf for the same schema.
"""

import itertools
import json
import random
from dataclasses import dataclass
from datetime import datetime, timedelta, timezone
from typing import Dict, List, Optional

import betterproto
from betterproto import Casing

UTC = timezone.utc
CASINGS = (("CAMEL", Casing.CAMEL), ("SNAKE", Casing.SNAKE))
rnd = random.Random(404)


class Mood(betterproto.Enum):
    MOOD_NONE = 0
    HAPPY = 1
    GRUMPY = 2


@dataclass(eq=False, repr=False)
class Sub(betterproto.Message):
    x_value: int = betterproto.int32_field(1)


@dataclass(eq=False, repr=False)
class NoFields(betterproto.Message):
    pass


@dataclass(eq=False, repr=False)
class M(betterproto.Message):
    plain_count: int = betterproto.int32_field(1)
    a_int: int = betterproto.int32_field(2, group="first_choice")
    a_str: str = betterproto.string_field(3, group="first_choice")
    a_bytes: bytes = betterproto.bytes_field(4, group="first_choice")
    a_bool: bool = betterproto.bool_field(5, group="first_choice")
    a_enum: Mood = betterproto.enum_field(6, group="first_choice")
    a_big: int = betterproto.uint64_field(7, group="first_choice")
    a_double: float = betterproto.double_field(8, group="first_choice")
    a_msg: Sub = betterproto.message_field(9, group="first_choice")
    a_stamp: datetime = betterproto.message_field(10, group="first_choice")
    a_span: timedelta = betterproto.message_field(11, group="first_choice")
    a_nothing: NoFields = betterproto.message_field(12, group="first_choice")
    middle_names: List[str] = betterproto.string_field(13)
    b_int: int = betterproto.sint64_field(14, group="second")
    b_str: str = betterproto.string_field(15, group="second")
    opt_int: Optional[int] = betterproto.int32_field(16, optional=True, group="_opt_int")
    opt_str: Optional[str] = betterproto.string_field(17, optional=True, group="_opt_str")
    opt_bytes: Optional[bytes] = betterproto.bytes_field(18, optional=True, group="_opt_bytes")
    opt_big: Optional[int] = betterproto.int64_field(19, optional=True, group="_opt_big")
    opt_bool: Optional[bool] = betterproto.bool_field(20, optional=True, group="_opt_bool")
    opt_enum: Optional[Mood] = betterproto.enum_field(21, optional=True, group="_opt_enum")
    opt_double: Optional[float] = betterproto.double_field(22, optional=True, group="_opt_double")
    opt_msg: Optional[Sub] = betterproto.message_field(23, optional=True, group="_opt_msg")
    bare_opt_int: Optional[int] = betterproto.int32_field(24, optional=True)
    bare_opt_str: Optional[str] = betterproto.string_field(25, optional=True)
    tail_map: Dict[str, int] = betterproto.map_field(
        26, betterproto.TYPE_STRING, betterproto.TYPE_INT32
    )


GROUP_ORDER = [
    "first_choice", "second", "_opt_int", "_opt_str", "_opt_bytes", "_opt_big",
    "_opt_bool", "_opt_enum", "_opt_double", "_opt_msg",
]
GROUP_OF = {
    **{n: "first_choice" for n in (
        "a_int", "a_str", "a_bytes", "a_bool", "a_enum", "a_big", "a_double", "a_msg",
        "a_stamp", "a_span", "a_nothing")},
    "b_int": "second", "b_str": "second",
    **{n: "_" + n for n in (
        "opt_int", "opt_str", "opt_bytes", "opt_big", "opt_bool", "opt_enum", "opt_double", "opt_msg")},
}
MEMBERS = {g: [n for n, gg in GROUP_OF.items() if gg == g] for g in GROUP_ORDER}
EPOCH = datetime(1970, 1, 1, tzinfo=UTC)

# (default-valued sample, non-default sample) per member
SAMPLES = {
    "a_int": (0, -7), "a_str": ("", "s"), "a_bytes": (b"", b"\xff\x00"), "a_bool": (False, True),
    "a_enum": (Mood.MOOD_NONE, Mood.GRUMPY), "a_big": (0, 2**64 - 1), "a_double": (0.0, float("-inf")),
    "a_msg": (lambda: Sub(), lambda: Sub(x_value=3)),
    "a_stamp": (EPOCH, datetime(2031, 1, 2, 3, 4, 5, 678000, tzinfo=UTC)),
    "a_span": (timedelta(0), timedelta(microseconds=-1500)),
    "a_nothing": (lambda: NoFields(), lambda: NoFields()),
    "b_int": (0, -(2**63)), "b_str": ("", "bee"),
    "opt_int": (0, 5), "opt_str": ("", "o"), "opt_bytes": (b"", b"\x01"), "opt_big": (0, -(2**63)),
    "opt_bool": (False, True), "opt_enum": (Mood.MOOD_NONE, Mood.HAPPY), "opt_double": (0.0, 2.5),
    "opt_msg": (lambda: Sub(), lambda: Sub(x_value=-1)),
    "bare_opt_int": (0, 9), "bare_opt_str": ("", "bare"),
}
CAMEL = {n: Casing.CAMEL(n) for n in list(SAMPLES) + ["plain_count", "middle_names", "tail_map"]}


def sample(name, which):
    v = SAMPLES[name][which]
    return v() if callable(v) else v


def expected_groups(selected):
    """selected: {group: member}"""
    return {g: selected.get(g) for g in GROUP_ORDER}


def check_state(m, selected, label):
    want = expected_groups(selected)
    assert m._group_current == want, (label, m._group_current, want)
    assert list(m._group_current) == GROUP_ORDER, (label, list(m._group_current))
    for g in ("first_choice", "second"):
        name, value = betterproto.which_one_of(m, g)
        assert name == (selected.get(g) or ""), (label, g, name)
        if not name:
            assert value is None
        for member in MEMBERS[g]:
            if member == name:
                getattr(m, member)
            else:
                try:
                    getattr(m, member)
                except AttributeError:
                    pass
                else:
                    raise AssertionError((label, member, "readable though not selected"))


def round_trips(m, selected, label, expect_keys=None):
    wire = bytes(m)
    assert len(m) == len(wire)
    for cname, casing in CASINGS:
        d = m.to_dict(casing=casing)
        if expect_keys is not None:
            want = {CAMEL[k] if cname == "CAMEL" else k for k in expect_keys}
            assert set(d) == want, (label, cname, sorted(d), sorted(want))
        text = json.dumps(d)
        assert text == m.to_json(casing=casing)
        for how, back in (
            ("cls", M.from_dict(d)),
            ("inst", M().from_dict(d)),
            ("cls-json", M.from_dict(json.loads(text))),
            ("from_json", M().from_json(text)),
        ):
            assert back == m, (label, cname, how, back, m)
            assert bytes(back) == wire, (label, cname, how, bytes(back).hex(), wire.hex())
            assert back._serialized_on_wire is True
            check_state(back, selected, (label, cname, how))
            assert back.to_dict(casing=casing) == d
    parsed = M().parse(wire)
    assert parsed == m and bytes(parsed) == wire, label
    check_state(parsed, selected, (label, "parsed"))


# ---------------------------------------------------------------- 1. construction
n_built = 0
m0 = M()
assert m0._serialized_on_wire is False and m0._unknown_fields == b""
check_state(m0, {}, "empty")
round_trips(m0, {}, "empty", expect_keys=set())
assert bytes(m0) == b""

first_options = [None] + [(n, w) for n in MEMBERS["first_choice"] for w in (0, 1)]
second_options = [None] + [(n, w) for n in MEMBERS["second"] for w in (0, 1)]
opt_names = [n for n in SAMPLES if n.startswith("opt_")]
for first, second in itertools.product(first_options, second_options):
    for trial in range(3):
        kwargs, selected, keys = {}, {}, set()
        for choice in (first, second):
            if choice:
                kwargs[choice[0]] = sample(*choice)
                selected[GROUP_OF[choice[0]]] = choice[0]
                keys.add(choice[0])
        for name in opt_names:
            r = rnd.random()
            if trial == 0 or r < 0.4:
                continue
            if r < 0.55:
                kwargs[name] = None  # explicit None in the constructor: still unset
                continue
            kwargs[name] = sample(name, rnd.choice((0, 1)))
            selected[GROUP_OF[name]] = name
            keys.add(name)
        for name in ("bare_opt_int", "bare_opt_str"):
            if trial == 2 and rnd.random() < 0.5:
                kwargs[name] = sample(name, rnd.choice((0, 1)))
                keys.add(name)
        if trial == 1:
            kwargs.update(plain_count=4, middle_names=["", "x"], tail_map={"k": 0})
            keys |= {"plain_count", "middle_names", "tail_map"}
        m = M(**kwargs)
        label = ("built", first, second, trial)
        any_given = any(v is not None for v in kwargs.values())
        assert m._serialized_on_wire is any_given, (label, kwargs)
        check_state(m, selected, label)
        round_trips(m, selected, label, expect_keys=keys)
        n_built += 1

# kwargs order does not matter, only the field order does: the later *field* wins
both = M(a_str="", a_int=0)
check_state(both, {"first_choice": "a_str"}, "two members given")
both = M(b_str="", b_int=0)
check_state(both, {"second": "b_str"}, "two members given (second)")

# ----------------------------------------------------------- 2. assignment replay
n_steps = 0
assignable = list(SAMPLES) + ["plain_count", "middle_names", "tail_map"]
for seq in range(150):
    m = M() if seq % 2 == 0 else M(a_bool=False, opt_str="")
    selected = {} if seq % 2 == 0 else {"first_choice": "a_bool", "_opt_str": "opt_str"}
    current = {} if seq % 2 == 0 else {"a_bool": False, "opt_str": ""}
    for step in range(rnd.randint(1, 12)):
        name = rnd.choice(assignable)
        if name == "plain_count":
            value = rnd.choice((0, 8))
        elif name == "middle_names":
            value = rnd.choice(([], ["m"]))
        elif name == "tail_map":
            value = rnd.choice(({}, {"t": 1, "a": 0}))
        else:
            value = sample(name, rnd.choice((0, 1)))
        setattr(m, name, value)
        assert m._serialized_on_wire is True
        group = GROUP_OF.get(name)
        if group:
            for sibling in MEMBERS[group]:
                current.pop(sibling, None)
            selected[group] = name
        current[name] = value
        check_state(m, selected, ("replay", seq, step, name))
        n_steps += 1
    # the message now equals one built in one go from the surviving values
    rebuilt = M(**current)
    assert rebuilt == m, (seq, rebuilt, m)
    assert bytes(rebuilt) == bytes(m), (seq,)
    assert rebuilt._group_current == m._group_current
    for cname, casing in CASINGS:
        assert rebuilt.to_dict(casing=casing) == m.to_dict(casing=casing)
    round_trips(m, selected, ("replay", seq))

# the instance form of from_dict applied to a message that already has a selection
m = M(a_int=5, b_str="keep", opt_int=0)
m.from_dict({"aStr": "", "optBig": "0"})
check_state(
    m,
    {"first_choice": "a_str", "second": "b_str", "_opt_int": "opt_int", "_opt_big": "opt_big"},
    "from_dict onto existing",
)
assert m == M(a_str="", b_str="keep", opt_int=0, opt_big=0)
assert bytes(m) == bytes(M(a_str="", b_str="keep", opt_int=0, opt_big=0))

# -------------------------------------------------- 3. comparison with google.protobuf
from google.protobuf import descriptor_pb2, descriptor_pool, json_format, message_factory
from google.protobuf import duration_pb2, timestamp_pb2  # noqa: F401  (registers the files)

FD = descriptor_pb2.FieldDescriptorProto
fdp = descriptor_pb2.FileDescriptorProto(
    name="c04_keep2.proto", package="c04k2", syntax="proto3",
    dependency=["google/protobuf/timestamp.proto", "google/protobuf/duration.proto"],
)
e = fdp.enum_type.add(name="Mood")
for ename, number in (("MOOD_NONE", 0), ("HAPPY", 1), ("GRUMPY", 2)):
    e.value.add(name=ename, number=number)
sub = fdp.message_type.add(name="Sub")
sub.field.add(name="x_value", number=1, type=FD.TYPE_INT32, label=FD.LABEL_OPTIONAL)
fdp.message_type.add(name="NoFields")
gm = fdp.message_type.add(name="M")
gm.oneof_decl.add(name="first_choice")
gm.oneof_decl.add(name="second")
G = {
    "plain_count": (1, FD.TYPE_INT32, None), "a_int": (2, FD.TYPE_INT32, None),
    "a_str": (3, FD.TYPE_STRING, None), "a_bytes": (4, FD.TYPE_BYTES, None),
    "a_bool": (5, FD.TYPE_BOOL, None), "a_enum": (6, FD.TYPE_ENUM, ".c04k2.Mood"),
    "a_big": (7, FD.TYPE_UINT64, None), "a_double": (8, FD.TYPE_DOUBLE, None),
    "a_msg": (9, FD.TYPE_MESSAGE, ".c04k2.Sub"),
    "a_stamp": (10, FD.TYPE_MESSAGE, ".google.protobuf.Timestamp"),
    "a_span": (11, FD.TYPE_MESSAGE, ".google.protobuf.Duration"),
    "a_nothing": (12, FD.TYPE_MESSAGE, ".c04k2.NoFields"),
    "middle_names": (13, FD.TYPE_STRING, None),
    "b_int": (14, FD.TYPE_SINT64, None), "b_str": (15, FD.TYPE_STRING, None),
    "opt_int": (16, FD.TYPE_INT32, None), "opt_str": (17, FD.TYPE_STRING, None),
    "opt_bytes": (18, FD.TYPE_BYTES, None), "opt_big": (19, FD.TYPE_INT64, None),
    "opt_bool": (20, FD.TYPE_BOOL, None), "opt_enum": (21, FD.TYPE_ENUM, ".c04k2.Mood"),
    "opt_double": (22, FD.TYPE_DOUBLE, None), "opt_msg": (23, FD.TYPE_MESSAGE, ".c04k2.Sub"),
}
synthetic = []
for name, (number, gtype, type_name) in G.items():
    f = gm.field.add(name=name, number=number, type=gtype,
                     label=FD.LABEL_REPEATED if name == "middle_names" else FD.LABEL_OPTIONAL)
    if type_name:
        f.type_name = type_name
    if name.startswith("a_"):
        f.oneof_index = 0
    elif name.startswith("b_"):
        f.oneof_index = 1
    elif name.startswith("opt_"):
        f.proto3_optional = True
        synthetic.append((f, "_" + name))
for f, oneof_name in synthetic:  # synthetic oneofs come after the real ones
    f.oneof_index = len(gm.oneof_decl)
    gm.oneof_decl.add(name=oneof_name)
pool = descriptor_pool.Default()
pool.Add(fdp)
GM = message_factory.GetMessageClass(pool.FindMessageTypeByName("c04k2.M"))

n_google = 0
for first, second in itertools.product(first_options, second_options):
    for trial in range(2):
        kwargs = {}
        for choice in (first, second):
            if choice:
                kwargs[choice[0]] = sample(*choice)
        for name in opt_names:
            if trial and rnd.random() < 0.5:
                kwargs[name] = sample(name, rnd.choice((0, 1)))
        m = M(**kwargs)
        # built through the JSON path as well: must give the same bytes
        via_json = M().from_json(m.to_json())
        g = GM.FromString(bytes(via_json))
        assert g.WhichOneof("first_choice") == (first[0] if first else None), (kwargs,)
        assert g.WhichOneof("second") == (second[0] if second else None), (kwargs,)
        for name in opt_names:
            assert g.HasField(name) == (name in kwargs), (name, kwargs)
        # google re-encodes to the same bytes and agrees on the JSON form
        assert g.SerializeToString(deterministic=True) == bytes(m), (kwargs,)
        for cname, casing in CASINGS:
            ours = json.loads(m.to_json(casing=casing))
            theirs = json_format.MessageToDict(g, preserving_proto_field_name=(cname == "SNAKE"))
            span_key = "aSpan" if cname == "CAMEL" else "a_span"
            if span_key in ours:  # google drops a zero fraction ("0s"); same number
                a, b = ours.pop(span_key), theirs.pop(span_key)
                assert float(a[:-1]) == float(b[:-1]), (a, b)
            assert ours == theirs, (cname, kwargs, ours, theirs)
            # and what google prints, we read back into an equal message
            back = M().from_json(json_format.MessageToJson(g, preserving_proto_field_name=(cname == "SNAKE")))
            assert back == m and bytes(back) == bytes(m), (cname, kwargs)
        n_google += 1

print(
    f"C04 keep2 equiv OK: {n_built} constructed messages, {n_steps} replayed assignments, "
    f"{n_google} google comparisons"
)
