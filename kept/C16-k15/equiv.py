"""C16 / keep1: load_varint (and everything built on it: decode_varint, load_fields,
parse_fields, Message.parse/load) against an independent model of the varint decoder and
against google.protobuf's pure-python wire decoder.

Must exit 0 on the pristine tree and with the refactor applied.
"""
import io
import itertools
import random
from dataclasses import dataclass
from typing import List

import betterproto
from betterproto import (
    decode_varint,
    encode_varint,
    load_fields,
    load_varint,
    parse_fields,
    size_varint,
)
from google.protobuf.internal import decoder as pb_decoder
from google.protobuf.internal import encoder as pb_encoder

rng = random.Random(0xC16)

EOF_MSG = "Stream ended unexpectedly while attempting to load varint."
LONG_MSG = "Too many bytes when decoding varint."


# ---------------------------------------------------------------------------------------------
# model: what the decoder must do with the bytes data[pos:]
# ---------------------------------------------------------------------------------------------
def model(data: bytes, pos: int = 0):
    """-> ("ok", value, consumed) | ("eof", consumed) | ("long", consumed)"""
    value = 0
    n = 0
    while True:
        if n == 10:
            return ("long", n)
        if pos + n >= len(data):
            return ("eof", n)
        byte = data[pos + n]
        value += (byte & 0x7F) * (128**n)
        n += 1
        if byte < 0x80:
            return ("ok", value, n)


class Recorder(io.BytesIO):
    """BytesIO that logs every read() request."""

    def __init__(self, data):
        super().__init__(data)
        self.log: List[int] = []

    def read(self, size=-1):
        self.log.append(size)
        return super().read(size)


def check_decoders(data: bytes, pos: int = 0):
    expected = model(data, pos)

    # decode_varint -------------------------------------------------------------------------
    try:
        got = ("ok",) + decode_varint(data, pos)
    except EOFError as e:
        assert type(e) is EOFError and str(e) == EOF_MSG
        got = ("eof",)
    except ValueError as e:
        assert type(e) is ValueError and str(e) == LONG_MSG
        got = ("long",)
    if expected[0] == "ok":
        assert got == ("ok", expected[1], pos + expected[2]), (data.hex(), pos, got, expected)
    else:
        assert got == (expected[0],), (data.hex(), pos, got, expected)

    # load_varint on a stream positioned at pos, without and with a pre-read first byte -------
    for preread in (False, True):
        stream = Recorder(data)
        stream.seek(pos)
        first = b""
        if preread:
            first = io.BytesIO.read(stream, 1)
            if not first:
                continue  # nothing to pre-read
        try:
            value, raw = load_varint(stream, first) if preread else load_varint(stream)
            got = ("ok", value, raw)
        except EOFError as e:
            assert type(e) is EOFError and str(e) == EOF_MSG
            got = ("eof",)
        except ValueError as e:
            assert type(e) is ValueError and str(e) == LONG_MSG
            got = ("long",)
        consumed = expected[-1]
        if expected[0] == "ok":
            assert got == ("ok", expected[1], data[pos : pos + consumed]), (data.hex(), pos, got)
            assert type(got[2]) is bytes and type(got[1]) is int
        else:
            assert got == (expected[0],), (data.hex(), pos, preread, got, expected)
        # exactly the bytes of the varint were taken from the stream, one at a time; at a
        # premature end one more (empty) read was attempted, at the length limit none.
        assert stream.tell() == pos + consumed, (data.hex(), pos, preread, stream.tell())
        reads = consumed - (1 if preread else 0) + (1 if expected[0] == "eof" else 0)
        assert stream.log == [1] * reads, (data.hex(), pos, preread, stream.log, expected)


# ---------------------------------------------------------------------------------------------
# 1. canonical encodings of the integer domain invert exactly
# ---------------------------------------------------------------------------------------------
def interesting_ints():
    yield from range(0, 1 << 15)
    for k in list(range(7, 71, 7)) + [8, 16, 31, 32, 33, 62, 63, 64]:
        for d in range(-130, 131):
            for sign in (1, -1):
                v = sign * (1 << k) + d
                if -(1 << 63) <= v < (1 << 64):
                    yield v
    for _ in range(20000):
        yield rng.randrange(-(1 << 63), 1 << 64)
    for _ in range(20000):
        yield rng.randrange(1 << rng.randrange(1, 65))
    for _ in range(5000):
        yield -rng.randrange(1, 1 << rng.randrange(1, 64))


count = 0
for v in interesting_ints():
    enc = encode_varint(v)
    u = v % (1 << 64)
    assert enc == pb_encoder._VarintBytes(u)
    assert len(enc) == size_varint(v)
    tail = bytes([rng.randrange(256)]) * rng.randrange(0, 3)
    pad = bytes(rng.randrange(256) for _ in range(rng.randrange(0, 3)))
    assert decode_varint(pad + enc + tail, len(pad)) == (u, len(pad) + len(enc))
    assert pb_decoder._DecodeVarint(pad + enc + tail, len(pad)) == (u, len(pad) + len(enc))
    s = io.BytesIO(enc + tail)
    assert load_varint(s) == (u, enc) and s.tell() == len(enc)
    s = io.BytesIO(enc + tail)
    assert load_varint(s, s.read(1)) == (u, enc) and s.tell() == len(enc)
    if count % 7 == 0:
        check_decoders(pad + enc + tail, len(pad))
        # every proper prefix is a premature end of input
        for cut in range(len(enc)):
            check_decoders(enc[:cut])
    count += 1

# ---------------------------------------------------------------------------------------------
# 2. arbitrary byte strings as decoder input
# ---------------------------------------------------------------------------------------------
check_decoders(b"")
for a in range(256):
    check_decoders(bytes([a]))
    for b in range(256):
        check_decoders(bytes([a, b]))
for a, b, c in itertools.product((0x00, 0x01, 0x7F, 0x80, 0x81, 0xFF), repeat=3):
    check_decoders(bytes([a, b, c]))
    check_decoders(bytes([a, b, c]), 1)
    check_decoders(bytes([a, b, c]), 3)
    check_decoders(bytes([a, b, c]), 5)  # position beyond the end

# lengths 9..12 around the 10-byte limit, all combinations of "interesting" last bytes
for n in range(8, 13):
    for fill in (0x80, 0x81, 0xFF, 0xAA):
        for last in (0x00, 0x01, 0x02, 0x7F, 0x80, 0xFF):
            data = bytes([fill]) * (n - 1) + bytes([last])
            check_decoders(data)
            check_decoders(b"\x05" + data, 1)
            check_decoders(data + b"\x00\x01")

for _ in range(60000):
    n = rng.randrange(0, 13)
    p_cont = rng.choice((0.1, 0.5, 0.9, 0.98))
    data = bytes(
        (0x80 if rng.random() < p_cont else 0) | rng.randrange(128) for _ in range(n)
    )
    check_decoders(data, rng.randrange(0, n + 2) if rng.random() < 0.3 else 0)

# non-minimal encodings are decoded, and their real length is reported
assert decode_varint(b"\x81\x00", 0) == (1, 2)
assert load_varint(io.BytesIO(b"\x80\x80\x00\x07")) == (0, b"\x80\x80\x00")
# 10th byte with more than one payload bit: value is not masked
assert decode_varint(b"\xff" * 9 + b"\x7f", 0) == (2**70 - 1, 10)


# ---------------------------------------------------------------------------------------------
# 3. the field readers built on load_varint / decode_varint
# ---------------------------------------------------------------------------------------------
def fields_of(reader, data):
    out = []
    try:
        for f in reader(data):
            out.append((f.number, f.wire_type, f.value, f.raw))
    except (EOFError, ValueError) as e:
        out.append((type(e).__name__, str(e)))
    return out


def rand_field():
    number = rng.choice((1, 2, 15, 16, 2047, 2048, 2**29 - 1))
    wt = rng.choice((0, 1, 2, 5))
    tag = encode_varint(number << 3 | wt)
    if wt == 0:
        return tag + encode_varint(rng.randrange(-(1 << 63), 1 << 64))
    if wt == 1:
        return tag + bytes(rng.randrange(256) for _ in range(8))
    if wt == 5:
        return tag + bytes(rng.randrange(256) for _ in range(4))
    body = bytes(rng.randrange(256) for _ in range(rng.choice((0, 1, 127, 128, 300))))
    return tag + encode_varint(len(body)) + body


for _ in range(3000):
    data = b"".join(rand_field() for _ in range(rng.randrange(0, 5)))
    a = fields_of(lambda d: load_fields(io.BytesIO(d)), data)
    b = fields_of(parse_fields, data)
    assert a == b, (data.hex(), a, b)
    assert b"".join(f[3] for f in a) == data
    # truncations: same field prefix, then an error (or a clean end at a field boundary)
    cut = rng.randrange(0, len(data) + 1)
    a = fields_of(lambda d: load_fields(io.BytesIO(d)), data[:cut])
    b = fields_of(parse_fields, data[:cut])
    assert [x for x in a if len(x) == 4] == [x for x in b if len(x) == 4]
    assert (len(a[-1]) == 2) == (len(b[-1]) == 2) if a and b else a == b
    if a and len(a[-1]) == 2:
        assert a[-1][0] == b[-1][0] == "EOFError", (data[:cut].hex(), a[-1], b[-1])

assert fields_of(parse_fields, b"\x08" + b"\x80" * 10 + b"\x01") == [("ValueError", LONG_MSG)]
assert fields_of(lambda d: load_fields(io.BytesIO(d)), b"\x08" + b"\x80" * 10 + b"\x01") == [
    ("ValueError", LONG_MSG)
]
assert fields_of(parse_fields, b"\x80" * 11) == [("ValueError", LONG_MSG)]
assert fields_of(parse_fields, b"\x08\x80") == [("EOFError", EOF_MSG)]
assert fields_of(lambda d: load_fields(io.BytesIO(d)), b"\x88") == [("EOFError", EOF_MSG)]


# ---------------------------------------------------------------------------------------------
# 4. messages: every varint-coded scalar kind, singular / packed / size-delimited
# ---------------------------------------------------------------------------------------------
@dataclass(eq=False, repr=False)
class Scalars(betterproto.Message):
    i32: int = betterproto.int32_field(1)
    i64: int = betterproto.int64_field(2)
    u32: int = betterproto.uint32_field(3)
    u64: int = betterproto.uint64_field(4)
    s32: int = betterproto.sint32_field(5)
    s64: int = betterproto.sint64_field(6)
    b: bool = betterproto.bool_field(7)
    f32: int = betterproto.fixed32_field(8)
    f64: int = betterproto.fixed64_field(9)
    d: float = betterproto.double_field(10)
    s: str = betterproto.string_field(11)
    ri64: List[int] = betterproto.int64_field(12)
    rs64: List[int] = betterproto.sint64_field(13)
    ru64: List[int] = betterproto.uint64_field(2000)


def rand_msg():
    def edge(lo, hi):
        return rng.choice((lo, hi - 1, 0, 1, -1 if lo < 0 else 2, rng.randrange(lo, hi)))

    return Scalars(
        i32=edge(-(2**31), 2**31),
        i64=edge(-(2**63), 2**63),
        u32=edge(0, 2**32),
        u64=edge(0, 2**64),
        s32=edge(-(2**31), 2**31),
        s64=edge(-(2**63), 2**63),
        b=rng.random() < 0.5,
        f32=edge(0, 2**32),
        f64=edge(0, 2**64),
        d=rng.choice((0.0, -1.5, 1e300, float("inf"))),
        s="x" * rng.choice((0, 1, 127, 128, 200)),
        ri64=[edge(-(2**63), 2**63) for _ in range(rng.randrange(0, 4))],
        rs64=[edge(-(2**63), 2**63) for _ in range(rng.randrange(0, 4))],
        ru64=[edge(0, 2**64) for _ in range(rng.randrange(0, 40))],
    )


for _ in range(1500):
    m = rand_msg()
    data = bytes(m)
    assert len(m) == len(data)
    back = Scalars().parse(data)
    assert back == m and bytes(back) == data
    # size-delimited stream of two messages
    out = io.BytesIO()
    m.dump(out, betterproto.SIZE_DELIMITED)
    m2 = rand_msg()
    m2.dump(out, betterproto.SIZE_DELIMITED)
    out.seek(0)
    assert Scalars().load(out, betterproto.SIZE_DELIMITED) == m
    assert Scalars().load(out, betterproto.SIZE_DELIMITED) == m2
    assert out.read() == b""
    # truncated input never parses silently to the same bytes
    if len(data) > 1:
        cut = rng.randrange(1, len(data))
        try:
            short = Scalars().parse(data[:cut])
        except (EOFError, ValueError):
            pass
        else:
            assert bytes(short) == data[:cut]

print("ok")
