"""Equivalence check for the single-byte-tag fast path in load_fields / parse_fields.

1. load_fields and parse_fields are compared, field by field (number, wire type,
   decoded value, raw bytes, exception class), with an independent splitter written
   in this file, over: every 1- and 2-byte input, every tag byte followed by
   structured payloads, multi-byte / over-long / truncated tags, all truncations and
   single-byte corruptions of valid encodings, and random byte strings.
2. Message.parse outcomes (re-encoded bytes, field values, unknown fields, or the
   exception class and text) over the same inputs are hashed and compared with the
   digest recorded on the reference tree.
3. For the targeted faults (mid-field truncation, field number 0, invalid wire type)
   agreement with google.protobuf's reject decision is asserted.
"""
import hashlib
import io
import random
import struct
from dataclasses import dataclass
from typing import Dict, List, Optional

import betterproto

EXPECTED_DIGEST = "f486ad1528df75bebc2abab04969ee3fc88a9f94955189dc69d4139d82a73c89"


# ---------------------------------------------------------------- oracle splitter
def _oracle_varint(data: bytes, pos: int):
    result = 0
    for k in range(10):
        if pos >= len(data):
            raise EOFError
        b = data[pos]
        pos += 1
        result |= (b & 0x7F) << (7 * k)
        if b < 0x80:
            return result, pos
    raise ValueError


def oracle_fields(data: bytes):
    """[(number, wire_type, value, raw), ...] followed by an exception class name."""
    out, pos = [], 0
    try:
        while pos < len(data):
            start = pos
            tag, pos = _oracle_varint(data, pos)
            number, wt = tag >> 3, tag & 7
            if number == 0:
                raise ValueError
            if wt == 0:
                value, pos = _oracle_varint(data, pos)
            elif wt in (1, 5):
                width = 8 if wt == 1 else 4
                if pos + width > len(data):
                    raise EOFError
                value, pos = data[pos : pos + width], pos + width
            elif wt == 2:
                length, pos = _oracle_varint(data, pos)
                if pos + length > len(data):
                    raise EOFError
                value, pos = data[pos : pos + length], pos + length
            else:
                raise ValueError
            out.append((number, wt, value, data[start:pos]))
    except (EOFError, ValueError) as e:
        out.append(type(e).__name__)
    return out


def drain(gen):
    out = []
    try:
        for f in gen:
            assert isinstance(f, betterproto.ParsedField)
            assert type(f.raw) is bytes and type(f.number) is int
            out.append((f.number, f.wire_type, f.value, f.raw))
    except (EOFError, ValueError) as e:
        assert type(e) in (EOFError, ValueError), type(e)
        out.append(type(e).__name__)
    except OverflowError:
        # BytesIO.read() refuses a declared length >= 2**63: a rejection as well
        out.append("EOFError")
    return out


# ------------------------------------------------------------------- message types
class Color(betterproto.Enum):
    ZERO = 0
    ONE = 1
    NEG = -1


@dataclass(eq=False, repr=False)
class Inner(betterproto.Message):
    a: int = betterproto.int32_field(1)
    s: str = betterproto.string_field(2)
    deep: int = betterproto.sint64_field(16)


@dataclass(eq=False, repr=False)
class Outer(betterproto.Message):
    i: int = betterproto.int32_field(1)
    s: str = betterproto.string_field(2)
    f: int = betterproto.fixed32_field(3)
    d: float = betterproto.double_field(4)
    inner: Inner = betterproto.message_field(5)
    r: List[int] = betterproto.uint32_field(6)
    b: bool = betterproto.bool_field(7)
    e: Color = betterproto.enum_field(8)
    m: Dict[str, int] = betterproto.map_field(
        9, betterproto.TYPE_STRING, betterproto.TYPE_SINT32
    )
    o1: int = betterproto.int64_field(10, group="g")
    o2: str = betterproto.string_field(11, group="g")
    raw: bytes = betterproto.bytes_field(15)
    x16: int = betterproto.sfixed64_field(16)
    big: int = betterproto.uint64_field(20)
    rf: List[float] = betterproto.float_field(2047)
    opt: Optional[int] = betterproto.uint32_field(2048, optional=True)


def describe(msg: betterproto.Message):
    vals = []
    for name in msg._betterproto.sorted_field_names:
        try:
            v = getattr(msg, name)
        except AttributeError:
            vals.append((name, "<unset oneof>"))
            continue
        if isinstance(v, betterproto.Message):
            v = ("msg", describe(v))
        elif isinstance(v, float):
            v = ("float", struct.pack("<d", v).hex())
        elif isinstance(v, list):
            v = [(type(x).__name__, repr(x)) for x in v]
        else:
            v = (type(v).__name__, repr(v))
        vals.append((name, v))
    return vals, msg._unknown_fields, dict(msg._group_current)


def outcome(data: bytes):
    try:
        msg = Outer().parse(data)
    except Exception as e:  # noqa: BLE001 - every rejection is recorded
        return ("err", type(e).__name__, str(e))
    return ("ok", bytes(msg), describe(msg))


# ------------------------------------------------------------- reference decoder
def reference_cls():
    from google.protobuf import descriptor_pb2, descriptor_pool, message_factory

    F = descriptor_pb2.FieldDescriptorProto
    opt, rep = F.LABEL_OPTIONAL, F.LABEL_REPEATED
    fd = descriptor_pb2.FileDescriptorProto(
        name="c17_keep1.proto", package="c17k1", syntax="proto3"
    )
    en = fd.enum_type.add(name="Color")
    en.value.add(name="ZERO", number=0)
    en.value.add(name="ONE", number=1)
    en.value.add(name="NEG", number=-1)
    inner = fd.message_type.add(name="Inner")
    inner.field.add(name="a", number=1, type=F.TYPE_INT32, label=opt)
    inner.field.add(name="s", number=2, type=F.TYPE_STRING, label=opt)
    inner.field.add(name="deep", number=16, type=F.TYPE_SINT64, label=opt)
    o = fd.message_type.add(name="Outer")
    entry = o.nested_type.add(name="MEntry")
    entry.options.map_entry = True
    entry.field.add(name="key", number=1, type=F.TYPE_STRING, label=opt)
    entry.field.add(name="value", number=2, type=F.TYPE_SINT32, label=opt)
    o.oneof_decl.add(name="g")
    o.field.add(name="i", number=1, type=F.TYPE_INT32, label=opt)
    o.field.add(name="s", number=2, type=F.TYPE_STRING, label=opt)
    o.field.add(name="f", number=3, type=F.TYPE_FIXED32, label=opt)
    o.field.add(name="d", number=4, type=F.TYPE_DOUBLE, label=opt)
    o.field.add(name="inner", number=5, type=F.TYPE_MESSAGE, label=opt,
                type_name=".c17k1.Inner")
    o.field.add(name="r", number=6, type=F.TYPE_UINT32, label=rep)
    o.field.add(name="b", number=7, type=F.TYPE_BOOL, label=opt)
    o.field.add(name="e", number=8, type=F.TYPE_ENUM, label=opt,
                type_name=".c17k1.Color")
    o.field.add(name="m", number=9, type=F.TYPE_MESSAGE, label=rep,
                type_name=".c17k1.Outer.MEntry")
    o.field.add(name="o1", number=10, type=F.TYPE_INT64, label=opt, oneof_index=0)
    o.field.add(name="o2", number=11, type=F.TYPE_STRING, label=opt, oneof_index=0)
    o.field.add(name="raw", number=15, type=F.TYPE_BYTES, label=opt)
    o.field.add(name="x16", number=16, type=F.TYPE_SFIXED64, label=opt)
    o.field.add(name="big", number=20, type=F.TYPE_UINT64, label=opt)
    o.field.add(name="rf", number=2047, type=F.TYPE_FLOAT, label=rep)
    o.field.add(name="opt", number=2048, type=F.TYPE_UINT32, label=opt)
    pool = descriptor_pool.DescriptorPool()
    pool.Add(fd)
    return message_factory.GetMessageClass(pool.FindMessageTypeByName("c17k1.Outer"))


def ref_accepts(Ref, data: bytes) -> bool:
    try:
        Ref.FromString(data)
    except Exception:  # noqa: BLE001
        return False
    return True


# ------------------------------------------------------------------------ inputs
def varint(n: int) -> bytes:
    out = bytearray()
    while True:
        b, n = n & 0x7F, n >> 7
        if n:
            out.append(b | 0x80)
        else:
            out.append(b)
            return bytes(out)


VALID = [
    Outer(i=1),
    Outer(i=150, s="hello", b=True, e=Color.NEG),
    Outer(s="xé", f=7, d=1.5, raw=b"\x00\xff", x16=-5),
    Outer(i=-1, inner=Inner(a=3, s="in", deep=-(2**40)), r=[1, 2, 300]),
    Outer(m={"k": -3, "": 0}, o2="two", big=2**63, rf=[1.0, -0.5], opt=0),
    Outer(o1=-7, r=[0], rf=[3.25], opt=99, x16=2**62),
]


def build_inputs():
    rnd = random.Random(0xC17)
    seen, inputs = set(), []

    def add(data: bytes):
        if data not in seen:
            seen.add(data)
            inputs.append(data)

    add(b"")
    for a in range(256):
        add(bytes([a]))
        for b in range(256):
            add(bytes([a, b]))
    tails = [b"", b"\x00", b"\x01", b"\x7f", b"\x80", b"\x80\x01", b"\xff" * 9 + b"\x01",
             b"\xff" * 10, b"\x02ab", b"\x03ab", b"\x00\x08\x01", b"abcd", b"abcdefgh",
             b"abc", b"abcdefg", b"\x04\x08\x01\x10\x02", b"\x02\xc3\x28", b"\x81\x00x"]
    # every tag byte (single-byte tags 0..127, continuation bytes 128..255)
    for a in range(256):
        for t in tails:
            add(bytes([a]) + t)
            add(b"\x08\x05" + bytes([a]) + t)
    # multi-byte, non-canonical, over-long and truncated tags
    numbers = [0, 1, 2, 15, 16, 17, 20, 127, 128, 2047, 2048, 2049, 2**21, 2**28,
               2**29 - 1, 2**29, 2**32, 2**60, 2**61 - 1]
    for n in numbers:
        for wt in range(8):
            tag = varint((n << 3) | wt)
            padded = tag[:-1] + bytes([tag[-1] | 0x80]) + b"\x00"  # non-canonical
            padded2 = tag[:-1] + bytes([tag[-1] | 0x80]) + b"\x80\x00"
            for tg in (tag, padded, padded2):
                for t in tails:
                    add(tg + t)
                for cut in range(len(tg)):
                    add(tg[:cut])
                    add(b"\x08\x01" + tg[:cut])
    for k in range(1, 13):
        add(b"\x80" * k)
        add(b"\x80" * k + b"\x00")
        add(b"\x88" + b"\x80" * k + b"\x00\x05")
        add(b"\xff" * k + b"\x01")
        add(b"\xff" * k + b"\x7f" + b"\x01")
    # valid encodings: truncations, single-byte corruptions, wire-type substitutions
    for msg in VALID:
        enc = bytes(msg)
        add(enc)
        for cut in range(len(enc)):
            add(enc[:cut])
        for pos in range(len(enc)):
            for v in range(256):
                add(enc[:pos] + bytes([v]) + enc[pos + 1 :])
            add(enc[:pos] + enc[pos + 1 :])
            add(enc[:pos] + b"\x00" + enc[pos:])
    for a, b in ((0, 1), (1, 2), (3, 4), (4, 5)):
        add(bytes(VALID[a]) + bytes(VALID[b]))
    # random byte strings, some biased towards plausible tags
    for _ in range(8000):
        n = rnd.randrange(0, 24)
        add(bytes(rnd.randrange(256) for _ in range(n)))
    tagbytes = [0x08, 0x12, 0x1D, 0x21, 0x2A, 0x32, 0x30, 0x38, 0x40, 0x4A, 0x50, 0x5A,
                0x7A, 0x00, 0x07, 0x0B, 0x0C, 0x0E, 0x0F, 0x80, 0x81, 0xA0, 0xF8, 0xFA]
    for _ in range(8000):
        n = rnd.randrange(1, 16)
        add(bytes(rnd.choice(tagbytes) if rnd.random() < 0.5 else rnd.randrange(256)
                  for _ in range(n)))
    return inputs


def main() -> None:
    inputs = build_inputs()
    assert len(inputs) > 100000, len(inputs)

    # 1. field splitting against the oracle
    n_err = 0
    for data in inputs:
        want = oracle_fields(data)
        got_buf = drain(betterproto.parse_fields(data))
        assert got_buf == want, (data.hex(), got_buf, want)
        got_stream = drain(betterproto.load_fields(io.BytesIO(data)))
        assert got_stream == want, (data.hex(), got_stream, want)
        n_err += isinstance(want[-1], str) if want else 0
    assert 1000 < n_err < len(inputs)
    # a stream is consumed exactly up to the end of the last complete field
    for data in (b"\x08\x01\x10", b"\x08\x01\x80", b"\x08\x01\x00\x01", b"\x7a\x01a\x07"):
        st = io.BytesIO(data)
        gen = betterproto.load_fields(st)
        first = next(gen)
        assert st.tell() == len(first.raw) == 3 or st.tell() == len(first.raw)

    # 2. whole-message outcomes, hashed
    # (the full 2-byte sweep is thinned to 48 representative second bytes here:
    # constructing a message per input dominates the run time)
    second = {*range(17), *range(0x10, 0x100, 0x10), *range(0x7C, 0x84), 0xFE, 0xFF}
    msg_inputs = [d for d in inputs if len(d) != 2 or d[1] in second]
    h = hashlib.sha256()
    n_ok = 0
    for data in msg_inputs:
        res = outcome(data)
        if res[0] == "ok":
            n_ok += 1
            if n_ok % 5 == 0:  # the re-encoding is a fixed point of decode/encode
                assert bytes(Outer().parse(res[1])) == res[1], data.hex()
        h.update(repr((data, res)).encode("utf-8", "backslashreplace"))
    assert 1000 < n_ok < len(msg_inputs)
    digest = h.hexdigest()
    print("inputs:", len(inputs), len(msg_inputs), "accepted:", n_ok, "digest:", digest)
    assert digest == EXPECTED_DIGEST, digest

    # 3. targeted faults: both decoders reject
    Ref = reference_cls()
    n_ref = 0
    for msg in VALID:
        enc = bytes(msg)
        assert ref_accepts(Ref, enc) and outcome(enc)[0] == "ok"
        bounds, pos = [0], 0
        for f in betterproto.parse_fields(enc):
            pos += len(f.raw)
            bounds.append(pos)
        for cut in range(1, len(enc)):
            if cut not in bounds:  # cuts a field in the middle
                assert not ref_accepts(Ref, enc[:cut]), enc[:cut].hex()
                assert outcome(enc[:cut])[0] == "err", enc[:cut].hex()
                n_ref += 1
        for at in bounds:
            for bad in (*range(8), 0x0E, 0x0F, 0x7E, 0x7F, 0x86, 0x87):
                ins = bytes([bad]) if bad < 0x80 else bytes([bad, 0x01])
                data = enc[:at] + ins + b"\x01\x01" + enc[at:]
                if bad < 8 or (bad & 7) in (6, 7):  # field number 0 / invalid wire type
                    assert not ref_accepts(Ref, data), data.hex()
                    assert outcome(data)[0] == "err", data.hex()
                    n_ref += 1
    assert n_ref > 500, n_ref
    print("ok; reference agreed on", n_ref, "targeted faults")


if __name__ == "__main__":
    main()
