"""Equivalence check for Message.to_pydict (C14: observers are pure).

* ``reference_to_pydict`` is a stand-alone transcription of the documented
  emission rules of to_pydict (one rule per field kind).  Message.to_pydict must
  agree with it - same keys, same key ORDER, same values, same exception type -
  for many randomly generated messages (constructed, decoded from bytes, loaded
  from dicts / pydicts), both casings, with and without default values.
* to_pydict must stay a pure observer: bytes / == / presence are unchanged by it,
  the result never aliases the message's own maps / lists of messages, and
  copy / deepcopy / pickle taken afterwards are faithful.
* a number of hand-written boundary cases with literal expected dicts.
"""
import copy
import pickle
import random
from dataclasses import dataclass
from datetime import datetime, timedelta, timezone
from typing import Dict, List, Optional

import betterproto
from betterproto import (
    DATETIME_ZERO,
    TYPE_MAP,
    TYPE_MESSAGE,
    Casing,
    _scalar_to_json,
)


class Color(betterproto.Enum):
    ZERO = 0
    RED = 1
    BLUE = 2


@dataclass(eq=False, repr=False)
class Empty(betterproto.Message):
    pass


@dataclass(eq=False, repr=False)
class Leaf(betterproto.Message):
    count: int = betterproto.int32_field(1)
    tag: str = betterproto.string_field(2)
    big: int = betterproto.int64_field(3)


@dataclass(eq=False, repr=False)
class Mid(betterproto.Message):
    leaf: Leaf = betterproto.message_field(1)
    leaves: List[Leaf] = betterproto.message_field(2)
    a: int = betterproto.int32_field(3, group="sel")
    b: Leaf = betterproto.message_field(4, group="sel")
    c: timedelta = betterproto.message_field(5, group="sel")
    by_name: Dict[str, Leaf] = betterproto.map_field(
        6, betterproto.TYPE_STRING, betterproto.TYPE_MESSAGE
    )


@dataclass(eq=False, repr=False)
class Node(betterproto.Message):
    # recursive type (only usable without include_default_values)
    value: int = betterproto.int32_field(1)
    next: "Node" = betterproto.message_field(2)
    kids: List["Node"] = betterproto.message_field(3)


@dataclass(eq=False, repr=False)
class Big(betterproto.Message):
    i32: int = betterproto.int32_field(1)
    u64: int = betterproto.uint64_field(2)
    s64: int = betterproto.sint64_field(3)
    flt: float = betterproto.float_field(4)
    dbl: float = betterproto.double_field(5)
    flag: bool = betterproto.bool_field(6)
    text: str = betterproto.string_field(7)
    blob: bytes = betterproto.bytes_field(8)
    color: Color = betterproto.enum_field(9)
    ints: List[int] = betterproto.int32_field(10)
    names: List[str] = betterproto.string_field(11)
    colors: List[Color] = betterproto.enum_field(12)
    child: Leaf = betterproto.message_field(13)
    nothing: Empty = betterproto.message_field(14)
    kids: List[Leaf] = betterproto.message_field(15)
    when: datetime = betterproto.message_field(16)
    span: timedelta = betterproto.message_field(17)
    opt_int: Optional[int] = betterproto.int32_field(18, optional=True, group="_opt_int")
    opt_str: Optional[str] = betterproto.string_field(19, optional=True, group="_opt_str")
    opt_child: Optional[Leaf] = betterproto.message_field(
        20, optional=True, group="_opt_child"
    )
    opt_when: Optional[datetime] = betterproto.message_field(
        21, optional=True, group="_opt_when"
    )
    opt_span: Optional[timedelta] = betterproto.message_field(
        22, optional=True, group="_opt_span"
    )
    opt_color: Optional[Color] = betterproto.enum_field(
        23, optional=True, group="_opt_color"
    )
    w_int: Optional[int] = betterproto.message_field(24, wraps=betterproto.TYPE_INT64)
    w_str: Optional[str] = betterproto.message_field(25, wraps=betterproto.TYPE_STRING)
    w_bool: Optional[bool] = betterproto.message_field(26, wraps=betterproto.TYPE_BOOL)
    w_bytes: Optional[bytes] = betterproto.message_field(27, wraps=betterproto.TYPE_BYTES)
    w_dbl: Optional[float] = betterproto.message_field(28, wraps=betterproto.TYPE_DOUBLE)
    m_si: Dict[str, int] = betterproto.map_field(
        29, betterproto.TYPE_STRING, betterproto.TYPE_INT32
    )
    m_il: Dict[int, Leaf] = betterproto.map_field(
        30, betterproto.TYPE_INT64, betterproto.TYPE_MESSAGE
    )
    m_sw: Dict[str, datetime] = betterproto.map_field(
        31, betterproto.TYPE_STRING, betterproto.TYPE_MESSAGE
    )
    m_sc: Dict[str, Color] = betterproto.map_field(
        32, betterproto.TYPE_STRING, betterproto.TYPE_ENUM
    )
    # one real oneof mixing every kind of member
    o_int: int = betterproto.int32_field(40, group="pick")
    o_str: str = betterproto.string_field(41, group="pick")
    o_leaf: Leaf = betterproto.message_field(42, group="pick")
    o_when: datetime = betterproto.message_field(43, group="pick")
    o_span: timedelta = betterproto.message_field(44, group="pick")
    o_empty: Empty = betterproto.message_field(45, group="pick")
    o_color: Color = betterproto.enum_field(46, group="pick")
    o_wrap: Optional[int] = betterproto.message_field(
        47, wraps=betterproto.TYPE_INT32, group="pick"
    )
    trailing_: int = betterproto.int32_field(50)
    deeper: Mid = betterproto.message_field(51)


@dataclass(eq=False, repr=False)
class Stamps(betterproto.Message):
    # repeated well-known types / wrappers: to_pydict's behaviour for them
    # (whatever it is) must be the same as the reference's
    whens: List[datetime] = betterproto.message_field(1)
    spans: List[timedelta] = betterproto.message_field(2)
    nums: List[Optional[int]] = betterproto.message_field(3, wraps=betterproto.TYPE_INT32)
    tag: str = betterproto.string_field(4)


# --------------------------------------------------------------------------
# reference implementation: one rule per field kind
# --------------------------------------------------------------------------
def reference_to_pydict(m, casing, include_default_values):
    out = {}
    meta_by_name = m._betterproto.meta_by_field_name
    default_gen = m._betterproto.default_gen
    group_current = m.__dict__["_group_current"]
    for field_name, meta in meta_by_name.items():
        repeated = default_gen[field_name] is list
        selected = meta.group is not None and group_current.get(meta.group) == field_name
        try:
            value = getattr(m, field_name)
        except AttributeError:
            value = m._get_field_default(field_name)
        key = casing(field_name).rstrip("_")
        if meta.proto_type == TYPE_MESSAGE:
            if isinstance(value, datetime):
                if (
                    value != DATETIME_ZERO
                    or include_default_values
                    or meta.optional
                    or selected
                ):
                    out[key] = value
            elif isinstance(value, timedelta):
                if (
                    value != timedelta(0)
                    or include_default_values
                    or meta.optional
                    or selected
                ):
                    out[key] = value
            elif meta.wraps:
                if value is not None or include_default_values:
                    if repeated:
                        out[key] = [_scalar_to_json(meta.wraps, i) for i in value]
                    elif value is None:
                        out[key] = value
                    else:
                        out[key] = _scalar_to_json(meta.wraps, value)
            elif repeated:
                conv = [reference_to_pydict_or_raise(i, casing, include_default_values) for i in value]
                if conv or include_default_values:
                    out[key] = conv
            elif value is None:
                if include_default_values:
                    out[key] = None
            elif (
                value._serialized_on_wire
                or bool(value)
                or include_default_values
                or meta.optional
                or selected
            ):
                out[key] = reference_to_pydict(value, casing, include_default_values)
        elif meta.proto_type == TYPE_MAP:
            conv = {**value}
            for k in value:
                if hasattr(value[k], "to_pydict"):
                    conv[k] = reference_to_pydict(value[k], casing, include_default_values)
            if value or include_default_values:
                out[key] = conv
        elif (
            value != m._get_field_default(field_name)
            or include_default_values
            or selected
        ):
            out[key] = value
    return out


def reference_to_pydict_or_raise(item, casing, include_default_values):
    # items of a repeated message field are converted with their own to_pydict;
    # a datetime / timedelta item has none
    if not isinstance(item, betterproto.Message):
        raise AttributeError(f"{type(item).__name__!r} object has no attribute 'to_pydict'")
    return reference_to_pydict(item, casing, include_default_values)


def outcome(fn):
    try:
        return ("ok", fn())
    except Exception as exc:  # noqa: BLE001 - the type is what is compared
        return ("raised", type(exc).__name__)


def same_structure(a, b):
    """Equality that also compares dict key order and element types."""
    if type(a) is not type(b):
        return False
    if isinstance(a, dict):
        return list(a) == list(b) and all(same_structure(a[k], b[k]) for k in a)
    if isinstance(a, list):
        return len(a) == len(b) and all(same_structure(x, y) for x, y in zip(a, b))
    if isinstance(a, float):
        return a == b or (a != a and b != b)
    return a == b


# --------------------------------------------------------------------------
# random messages
# --------------------------------------------------------------------------
rng = random.Random(20241004)
INTS32 = [0, 1, -1, 127, 128, -(2**31), 2**31 - 1]
INTS64 = [0, 1, -1, 2**63 - 1, -(2**63), 300]
UINTS64 = [0, 1, 2**64 - 1, 2**32]
FLOATS = [0.0, -0.0, 1.5, -2.25, float("inf"), float("-inf"), float("nan")]
STRS = ["", "a", "héllo", "0", " "]
BLOBS = [b"", b"\x00", b"\xff\xfe", b"abc"]
WHENS = [
    DATETIME_ZERO,
    datetime(1970, 1, 1, tzinfo=timezone.utc),
    datetime(2020, 5, 17, 1, 2, 3, 456000, tzinfo=timezone.utc),
    datetime(1969, 12, 31, 23, 59, 59, tzinfo=timezone.utc),
    datetime(2001, 1, 1),  # naive
]
SPANS = [timedelta(0), timedelta(seconds=1), timedelta(days=-1, microseconds=5), timedelta(hours=30)]
COLORS = [Color.ZERO, Color.RED, Color.BLUE]


def rnd_leaf():
    kw = {}
    if rng.random() < 0.6:
        kw["count"] = rng.choice(INTS32)
    if rng.random() < 0.6:
        kw["tag"] = rng.choice(STRS)
    if rng.random() < 0.4:
        kw["big"] = rng.choice(INTS64)
    return Leaf(**kw)


def rnd_mid():
    kw = {}
    if rng.random() < 0.5:
        kw["leaf"] = rnd_leaf()
    if rng.random() < 0.5:
        kw["leaves"] = [rnd_leaf() for _ in range(rng.randrange(0, 3))]
    pick = rng.choice([None, "a", "b", "c"])
    if pick == "a":
        kw["a"] = rng.choice(INTS32)
    elif pick == "b":
        kw["b"] = rng.choice([rnd_leaf(), Leaf()])
    elif pick == "c":
        kw["c"] = rng.choice(SPANS)
    if rng.random() < 0.4:
        kw["by_name"] = {rng.choice(STRS): rnd_leaf() for _ in range(rng.randrange(0, 3))}
    return Mid(**kw)


def rnd_big():
    kw = {}

    def maybe(name, gen, p=0.35):
        if rng.random() < p:
            kw[name] = gen()

    maybe("i32", lambda: rng.choice(INTS32))
    maybe("u64", lambda: rng.choice(UINTS64))
    maybe("s64", lambda: rng.choice(INTS64))
    maybe("flt", lambda: rng.choice([0.0, 1.5, -2.25, float("inf"), float("nan")]))
    maybe("dbl", lambda: rng.choice(FLOATS))
    maybe("flag", lambda: rng.choice([False, True]))
    maybe("text", lambda: rng.choice(STRS))
    maybe("blob", lambda: rng.choice(BLOBS))
    maybe("color", lambda: rng.choice(COLORS))
    maybe("ints", lambda: [rng.choice(INTS32) for _ in range(rng.randrange(0, 4))])
    maybe("names", lambda: [rng.choice(STRS) for _ in range(rng.randrange(0, 3))])
    maybe("colors", lambda: [rng.choice(COLORS) for _ in range(rng.randrange(0, 3))])
    maybe("child", rnd_leaf)
    maybe("nothing", Empty, 0.25)
    maybe("kids", lambda: [rnd_leaf() for _ in range(rng.randrange(0, 3))])
    maybe("when", lambda: rng.choice(WHENS))
    maybe("span", lambda: rng.choice(SPANS))
    maybe("opt_int", lambda: rng.choice(INTS32 + [None]))
    maybe("opt_str", lambda: rng.choice(STRS + [None]))
    maybe("opt_child", lambda: rng.choice([rnd_leaf(), Leaf(), None]))
    maybe("opt_when", lambda: rng.choice(WHENS + [None]))
    maybe("opt_span", lambda: rng.choice(SPANS + [None]))
    maybe("opt_color", lambda: rng.choice(COLORS + [None]))
    maybe("w_int", lambda: rng.choice(INTS64 + [None]))
    maybe("w_str", lambda: rng.choice(STRS + [None]))
    maybe("w_bool", lambda: rng.choice([False, True, None]))
    maybe("w_bytes", lambda: rng.choice(BLOBS + [None]))
    maybe("w_dbl", lambda: rng.choice([0.0, 2.5, None]))
    maybe("m_si", lambda: {rng.choice(STRS): rng.choice(INTS32) for _ in range(rng.randrange(0, 3))})
    maybe("m_il", lambda: {rng.choice(INTS64): rng.choice([rnd_leaf(), Leaf()]) for _ in range(rng.randrange(0, 3))})
    maybe("m_sw", lambda: {rng.choice(STRS): rng.choice(WHENS[:4]) for _ in range(rng.randrange(0, 3))})
    maybe("m_sc", lambda: {rng.choice(STRS): rng.choice(COLORS) for _ in range(rng.randrange(0, 3))})
    maybe("trailing_", lambda: rng.choice(INTS32))
    pick = rng.choice(
        [None, None, "o_int", "o_str", "o_leaf", "o_when", "o_span", "o_empty", "o_color", "o_wrap"]
    )
    if pick == "o_int":
        kw[pick] = rng.choice(INTS32)
    elif pick == "o_str":
        kw[pick] = rng.choice(STRS)
    elif pick == "o_leaf":
        kw[pick] = rng.choice([rnd_leaf(), Leaf()])
    elif pick == "o_when":
        kw[pick] = rng.choice(WHENS)
    elif pick == "o_span":
        kw[pick] = rng.choice(SPANS)
    elif pick == "o_empty":
        kw[pick] = Empty()
    elif pick == "o_color":
        kw[pick] = rng.choice(COLORS)
    elif pick == "o_wrap":
        kw[pick] = rng.choice([0, 5])
    if rng.random() < 0.4:
        kw["deeper"] = rnd_mid()
    return Big(**kw)


def wire_safe(m):
    """True when the message can be encoded (naive datetimes etc. are fine)."""
    return outcome(lambda: bytes(m))[0] == "ok"


def variants(m):
    """The same value reached by construction, by lazy reads, via the wire and via dicts."""
    yield "constructed", m
    touched = copy.deepcopy(m)
    for name in ("child", "nothing", "kids", "m_il", "m_si", "ints", "deeper"):
        getattr(touched, name)
    touched.child.tag, touched.deeper.leaf.tag, touched.deeper.by_name  # noqa: B018 - lazy reads further down
    yield "after lazy reads", touched
    if wire_safe(m):
        # decoded from bytes, plus an unknown field (number 99, varint 5)
        yield "decoded", Big().parse(bytes(m) + b"\x98\x06\x05")
        yield "unpickled", pickle.loads(pickle.dumps(m))
    d = outcome(lambda: m.to_dict())
    if d[0] == "ok":
        yield "from_dict", Big().from_dict(d[1])
    yield "copied", copy.copy(m)
    yield "deep-copied", copy.deepcopy(m)


def presence(m):
    names = list(m._betterproto.meta_by_field_name)
    return (
        [m.is_set(n) for n in names],
        betterproto.which_one_of(m, "pick")[0] if isinstance(m, Big) else None,
        betterproto.serialized_on_wire(m),
    )


compared = 0
for _ in range(150):
    base = rnd_big()
    for label, m in variants(base):
        encodable = wire_safe(m)
        before_wire = bytes(m) if encodable else None
        before_presence = presence(m)
        twin = copy.deepcopy(m)
        for casing in (Casing.CAMEL, Casing.SNAKE):
            for include_defaults in (False, True):
                got = outcome(lambda: m.to_pydict(casing, include_defaults))
                want = outcome(lambda: reference_to_pydict(m, casing, include_defaults))
                assert got[0] == want[0], (label, got, want)
                if got[0] == "ok":
                    assert same_structure(got[1], want[1]), (label, casing, include_defaults, got[1], want[1])
                else:
                    assert got[1] == want[1], (label, got, want)
                compared += 1
        # default arguments: camel case, defaults omitted
        assert same_structure(m.to_pydict(), reference_to_pydict(m, Casing.CAMEL, False))

        # purity
        assert presence(m) == before_presence, label
        assert m == twin and twin == m, label
        assert all(isinstance(v, Leaf) for v in m.m_il.values()), label
        assert all(isinstance(v, Leaf) for v in m.kids), label
        if encodable:
            assert bytes(m) == before_wire, label
            assert len(m) == len(before_wire), label
            for clone in (copy.copy(m), copy.deepcopy(m), pickle.loads(pickle.dumps(m))):
                assert bytes(clone) == before_wire, label
                assert clone == m, label

        # the result does not alias the message's own containers of messages
        result = m.to_pydict(include_default_values=True)
        assert result["mIl"] is not m.m_il
        assert result["kids"] is not m.kids
        result["mIl"][12345] = "junk"
        result["kids"].append("junk")
        assert 12345 not in m.m_il and "junk" not in m.kids
        if encodable:
            assert bytes(m) == before_wire, label

        # from_pydict(to_pydict(x)) gives the value back (plain nested messages)
        if isinstance(m.__dict__.get("deeper"), Mid):
            mid = m.deeper
            if betterproto.which_one_of(mid, "sel")[0] in ("", "a"):
                back = Mid().from_pydict(mid.to_pydict())
                assert back == mid and bytes(back) == bytes(mid), (label, back, mid)

# repeated well-known types: same outcome (value or exception type) as the reference
for st in (
    Stamps(),
    Stamps(tag="x"),
    Stamps(whens=[WHENS[2]]),
    Stamps(spans=[SPANS[1]]),
    Stamps(nums=[1, 0, 3]),
    Stamps(whens=[], spans=[], nums=[]),
):
    for casing in (Casing.CAMEL, Casing.SNAKE):
        for include_defaults in (False, True):
            got = outcome(lambda: st.to_pydict(casing, include_defaults))
            want = outcome(lambda: reference_to_pydict(st, casing, include_defaults))
            assert got[0] == want[0] and (
                same_structure(got[1], want[1]) if got[0] == "ok" else got[1] == want[1]
            ), (st, got, want)
            compared += 1

# --------------------------------------------------------------------------
# hand-written boundary cases with literal expectations
# --------------------------------------------------------------------------
assert Big().to_pydict() == {}
full = Big().to_pydict(include_default_values=True)
assert list(full) == [
    "i32", "u64", "s64", "flt", "dbl", "flag", "text", "blob", "color", "ints",
    "names", "colors", "child", "nothing", "kids", "when", "span", "optInt",
    "optStr", "optChild", "optWhen", "optSpan", "optColor", "wInt", "wStr",
    "wBool", "wBytes", "wDbl", "mSi", "mIl", "mSw", "mSc", "oInt", "oStr", "oLeaf",
    "oWhen", "oSpan", "oEmpty", "oColor", "oWrap", "trailing", "deeper",
], list(full)
assert full["child"] == {"count": 0, "tag": "", "big": 0}
assert full["nothing"] == {}
assert full["when"] == DATETIME_ZERO and full["span"] == timedelta(0)
assert full["optChild"] is None and full["optWhen"] is None and full["wInt"] is None
assert full["oLeaf"] == {"count": 0, "tag": "", "big": 0} and full["oWhen"] == DATETIME_ZERO
assert full["mSi"] == {} and full["kids"] == [] and full["oWrap"] is None
assert full["deeper"] == {
    "leaf": {"count": 0, "tag": "", "big": 0}, "leaves": [], "a": 0,
    "b": {"count": 0, "tag": "", "big": 0}, "c": timedelta(0), "byName": {},
}, full["deeper"]

# zero values that are nevertheless "set"
assert Big(o_when=DATETIME_ZERO).to_pydict() == {"oWhen": DATETIME_ZERO}
assert Big(o_span=timedelta(0)).to_pydict() == {"oSpan": timedelta(0)}
assert Big(o_leaf=Leaf()).to_pydict() == {"oLeaf": {}}
assert Big(o_empty=Empty()).to_pydict() == {"oEmpty": {}}
assert Big(o_int=0).to_pydict() == {"oInt": 0}
assert Big(o_str="").to_pydict() == {"oStr": ""}
assert Big(o_color=Color.ZERO).to_pydict() == {"oColor": Color.ZERO}
assert Big(o_wrap=0).to_pydict() == {"oWrap": 0}
assert Big(opt_when=DATETIME_ZERO).to_pydict() == {"optWhen": DATETIME_ZERO}
assert Big(opt_span=timedelta(0)).to_pydict() == {"optSpan": timedelta(0)}
assert Big(opt_child=Leaf()).to_pydict() == {"optChild": {}}
assert Big(opt_int=0).to_pydict() == {"optInt": 0}
assert Big(opt_int=None, opt_child=None, opt_when=None).to_pydict() == {}
assert Big(when=DATETIME_ZERO, span=timedelta(0)).to_pydict() == {}
assert Big(when=WHENS[2]).to_pydict() == {"when": WHENS[2]}
assert Big(span=SPANS[1]).to_pydict(Casing.SNAKE) == {"span": SPANS[1]}
assert Big(child=Leaf()).to_pydict() == {}
assert Big(nothing=Empty()).to_pydict() == {"nothing": {}}  # field-less child is marked set
assert Big().parse(b"\x6a\x00").to_pydict() == {"child": {}}  # received empty
# (wrapper values are emitted in their JSON form by to_pydict)
assert Big(w_int=0, w_str="", w_bool=False).to_pydict() == {"wInt": "0", "wStr": "", "wBool": False}
assert Big(w_bytes=b"\x00").to_pydict() == {"wBytes": "AA=="}
assert Big(kids=[Leaf(), Leaf(count=2)]).to_pydict() == {"kids": [{}, {"count": 2}]}
assert Big(kids=[]).to_pydict() == {}
assert Big(m_il={1: Leaf(), 2: Leaf(tag="t")}).to_pydict() == {"mIl": {1: {}, 2: {"tag": "t"}}}
assert Big(m_sw={"k": WHENS[2]}).to_pydict() == {"mSw": {"k": WHENS[2]}}
assert Big(m_si={"": 0}).to_pydict() == {"mSi": {"": 0}}
assert Big(m_si={}).to_pydict() == {}
assert Big(trailing_=3).to_pydict() == {"trailing": 3}
assert Big(trailing_=3).to_pydict(Casing.SNAKE) == {"trailing": 3}
assert Big(deeper=Mid(b=Leaf())).to_pydict() == {"deeper": {"b": {}}}
assert Big(deeper=Mid(c=timedelta(0))).to_pydict() == {"deeper": {"c": timedelta(0)}}
assert Big(deeper=Mid()).to_pydict() == {}
chain = Node(value=1, next=Node(next=Node(value=3)), kids=[Node(), Node(kids=[Node(value=9)])])
assert chain.to_pydict() == {
    "value": 1,
    "next": {"next": {"value": 3}},
    "kids": [{}, {"kids": [{"value": 9}]}],
}
assert same_structure(chain.to_pydict(Casing.SNAKE), reference_to_pydict(chain, Casing.SNAKE, False))
chain.next.next.next.next  # noqa: B018 - lazy reads along a recursive type
assert chain.to_pydict() == {
    "value": 1,
    "next": {"next": {"value": 3}},
    "kids": [{}, {"kids": [{"value": 9}]}],
}
assert Node().parse(b"\x12\x02\x12\x00").to_pydict() == {"next": {"next": {}}}
filled = Big()
filled.child.count = 4  # filled in place through a lazily created default
assert filled.to_pydict() == {"child": {"count": 4}}
read_only = Big()
read_only.child, read_only.deeper.leaf, read_only.kids, read_only.m_il  # noqa: B018
assert read_only.to_pydict() == {} and bytes(read_only) == b""

print(f"ok: {compared} to_pydict comparisons")
