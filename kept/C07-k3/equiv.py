"""C07 equivalence check.

Random operation histories (construct with kwargs, assign default / non-default member
values, assign plain fields, decode byte strings holding 0..n members in any order,
from_dict (instance and class form), from_json, copy, deepcopy, pickle) are run against

  * a hand-written betterproto class with three oneof groups of scalar, string, bytes,
    enum and message members, and
  * its "pydantic style" twin, whose oneof members are declared optional=True (this is how
    the plugin declares oneof members for pydantic dataclasses) and which also has a plain
    proto3-optional field,

and after every step the observable oneof state (which_one_of, attribute access, the
encoding decoded field by field, to_dict / to_json) is compared with a tiny pure-python
model of "the member set last wins", and with google.protobuf: the reference implementation
has to decode bytes(m) to the same oneof state and has to produce the very same bytes
from the model.

Also pinned: what the constructor does when it is handed several members of one group at
once (the member declared last is the selected one, the others are unreadable and absent
from every output), since __post_init__ is the code that decides that.
"""
import base64
import copy
import io
import json
import pickle
import random
from dataclasses import dataclass
from typing import List, Optional

import betterproto
from google.protobuf import descriptor_pb2, descriptor_pool, json_format, message_factory


# --------------------------------------------------------------------------- schema
class Colour(betterproto.Enum):
    UNSET = 0
    RED = 1
    BLUE = 2


@dataclass(eq=False, repr=False)
class Sub(betterproto.Message):
    val: int = betterproto.int32_field(1)
    x: int = betterproto.int32_field(2, group="inner")
    y: str = betterproto.string_field(3, group="inner")


@dataclass(eq=False, repr=False)
class Msg(betterproto.Message):
    plain: int = betterproto.int32_field(1)
    num: int = betterproto.int32_field(2, group="a")
    text: str = betterproto.string_field(3, group="a")
    colour: Colour = betterproto.enum_field(4, group="a")
    blob: bytes = betterproto.bytes_field(5, group="a")
    sub: Sub = betterproto.message_field(6, group="b")
    shade: Colour = betterproto.enum_field(7, group="b")
    flag: bool = betterproto.bool_field(8, group="b")
    ratio: float = betterproto.double_field(9, group="b")
    name: str = betterproto.string_field(10)
    big: int = betterproto.sint64_field(11, group="c")
    other: Sub = betterproto.message_field(12, group="c")
    nums: List[int] = betterproto.int32_field(13)
    maybe: Optional[int] = betterproto.int32_field(14, optional=True)


@dataclass(eq=False, repr=False)
class PMsg(betterproto.Message):
    """Same wire schema, oneof members declared the pydantic way (optional=True)."""

    plain: int = betterproto.int32_field(1)
    num: Optional[int] = betterproto.int32_field(2, optional=True, group="a")
    text: Optional[str] = betterproto.string_field(3, optional=True, group="a")
    colour: Optional[Colour] = betterproto.enum_field(4, optional=True, group="a")
    blob: Optional[bytes] = betterproto.bytes_field(5, optional=True, group="a")
    sub: Optional[Sub] = betterproto.message_field(6, optional=True, group="b")
    shade: Optional[Colour] = betterproto.enum_field(7, optional=True, group="b")
    flag: Optional[bool] = betterproto.bool_field(8, optional=True, group="b")
    ratio: Optional[float] = betterproto.double_field(9, optional=True, group="b")
    name: str = betterproto.string_field(10)
    big: Optional[int] = betterproto.sint64_field(11, optional=True, group="c")
    other: Optional[Sub] = betterproto.message_field(12, optional=True, group="c")
    nums: List[int] = betterproto.int32_field(13)
    maybe: Optional[int] = betterproto.int32_field(14, optional=True)


GROUPS = {
    "a": ("num", "text", "colour", "blob"),
    "b": ("sub", "shade", "flag", "ratio"),
    "c": ("big", "other"),
}
GROUP_OF = {m: g for g, ms in GROUPS.items() for m in ms}
NUMBER = {
    "plain": 1, "num": 2, "text": 3, "colour": 4, "blob": 5, "sub": 6, "shade": 7,
    "flag": 8, "ratio": 9, "name": 10, "big": 11, "other": 12, "nums": 13, "maybe": 14,
}  # fmt: skip
MESSAGE_MEMBERS = ("sub", "other")
ENUM_MEMBERS = ("colour", "shade")

SUBS = (
    lambda: Sub(),
    lambda: Sub(val=3),
    lambda: Sub(x=0),
    lambda: Sub(y=""),
    lambda: Sub(val=1, y="q"),
    lambda: Sub(val=-1, x=7),
)
VALUES = {
    "num": (lambda: 0, lambda: 1, lambda: -1, lambda: 2**31 - 1, lambda: -(2**31)),
    "text": (lambda: "", lambda: "x", lambda: "héllo"),
    "colour": (lambda: Colour.UNSET, lambda: Colour.RED, lambda: Colour.BLUE),
    "blob": (lambda: b"", lambda: b"\x00", lambda: b"ab"),
    "sub": SUBS,
    "shade": (lambda: Colour.UNSET, lambda: Colour.BLUE),
    "flag": (lambda: False, lambda: True),
    "ratio": (lambda: 0.0, lambda: 1.5, lambda: -2.0),
    "big": (lambda: 0, lambda: -1, lambda: 2**40),
    "other": SUBS,
}


def is_default(member, value):
    if member in MESSAGE_MEMBERS:
        return bytes(value) == b""
    return value == VALUES[member][0]()


# ------------------------------------------------------------- google.protobuf twin
def build_reference():
    F = descriptor_pb2.FieldDescriptorProto
    fd = descriptor_pb2.FileDescriptorProto(
        name="c07_equiv.proto", package="c07equiv", syntax="proto3"
    )
    enum = fd.enum_type.add(name="Colour")
    for n, v in (("UNSET", 0), ("RED", 1), ("BLUE", 2)):
        enum.value.add(name=n, number=v)
    sub = fd.message_type.add(name="Sub")
    sub.oneof_decl.add(name="inner")
    sub.field.add(name="val", number=1, type=F.TYPE_INT32, label=F.LABEL_OPTIONAL)
    sub.field.add(
        name="x", number=2, type=F.TYPE_INT32, label=F.LABEL_OPTIONAL, oneof_index=0
    )
    sub.field.add(
        name="y", number=3, type=F.TYPE_STRING, label=F.LABEL_OPTIONAL, oneof_index=0
    )
    msg = fd.message_type.add(name="Msg")
    for g in ("a", "b", "c", "_maybe"):
        msg.oneof_decl.add(name=g)
    types = {
        "plain": F.TYPE_INT32, "num": F.TYPE_INT32, "text": F.TYPE_STRING,
        "colour": F.TYPE_ENUM, "blob": F.TYPE_BYTES, "sub": F.TYPE_MESSAGE,
        "shade": F.TYPE_ENUM, "flag": F.TYPE_BOOL, "ratio": F.TYPE_DOUBLE,
        "name": F.TYPE_STRING, "big": F.TYPE_SINT64, "other": F.TYPE_MESSAGE,
        "nums": F.TYPE_INT32, "maybe": F.TYPE_INT32,
    }  # fmt: skip
    for name, number in NUMBER.items():
        f = msg.field.add(name=name, number=number, type=types[name])
        f.label = F.LABEL_REPEATED if name == "nums" else F.LABEL_OPTIONAL
        if name in ENUM_MEMBERS:
            f.type_name = ".c07equiv.Colour"
        if name in MESSAGE_MEMBERS:
            f.type_name = ".c07equiv.Sub"
        if name in GROUP_OF:
            f.oneof_index = "abc".index(GROUP_OF[name])
        if name == "maybe":
            f.oneof_index = 3
            f.proto3_optional = True
    pool = descriptor_pool.DescriptorPool()
    pool.Add(fd)
    return message_factory.GetMessageClass(pool.FindMessageTypeByName("c07equiv.Msg"))


GMsg = build_reference()


# ----------------------------------------------------------------------------- model
class Model:
    def __init__(self):
        self.sel = {g: None for g in GROUPS}  # group -> (member, value) | None
        self.plain = 0
        self.name = ""
        self.nums = []
        self.maybe = None

    def clone(self):
        new = Model()
        new.sel = dict(self.sel)
        new.plain, new.name, new.nums, new.maybe = (
            self.plain, self.name, list(self.nums), self.maybe,
        )  # fmt: skip
        return new

    def select(self, member, value):
        if member in MESSAGE_MEMBERS:
            value = bytes(value)  # compared by encoding
        self.sel[GROUP_OF[member]] = (member, value)

    def reference(self):
        g = GMsg()
        g.plain, g.name = self.plain, self.name
        g.nums.extend(self.nums)
        if self.maybe is not None:
            g.maybe = self.maybe
        for chosen in self.sel.values():
            if chosen is None:
                continue
            member, value = chosen
            if member in MESSAGE_MEMBERS:
                getattr(g, member).SetInParent()
                getattr(g, member).MergeFromString(value)
            else:
                setattr(g, member, int(value) if member in ENUM_MEMBERS else value)
        return g


def wire_numbers(data):
    return [f.number for f in betterproto.load_fields(io.BytesIO(data))]


def check(m, model, where):
    data = bytes(m)
    present = wire_numbers(data)
    as_dict = m.to_dict()
    as_json = json.loads(m.to_json())
    as_pydict = m.to_pydict()
    assert as_json == as_dict, where
    for group, members in GROUPS.items():
        chosen = model.sel[group]
        name, value = betterproto.which_one_of(m, group)
        if chosen is None:
            assert (name, value) == ("", None), (where, group, name, value)
        else:
            assert name == chosen[0], (where, group, name, chosen)
            got = bytes(value) if name in MESSAGE_MEMBERS else value
            if name in ENUM_MEMBERS:  # from_dict keeps an enum given by number as int
                got = Colour.try_value(int(got))
            assert got == chosen[1] and type(got) is type(chosen[1]), (
                where, group, got, chosen,
            )  # fmt: skip
        for member in members:
            if chosen is not None and member == chosen[0]:
                got = getattr(m, member)
                got = bytes(got) if member in MESSAGE_MEMBERS else got
                assert got == chosen[1], (where, member, got, chosen)
                assert m.is_set(member), (where, member)
                assert present.count(NUMBER[member]) == 1, (where, member, data)
                assert member in as_dict, (where, member, as_dict)
                assert member in as_pydict, (where, member, as_pydict)
            else:
                try:
                    getattr(m, member)
                except AttributeError as exc:
                    assert member in str(exc), (where, member, str(exc))
                else:
                    raise AssertionError((where, member, "readable but not selected"))
                assert not hasattr(m, member), (where, member)
                if not m._betterproto.meta_by_field_name[member].optional:
                    # (for optional=True members is_set only looks at the stored value)
                    assert not m.is_set(member), (where, member)
                assert NUMBER[member] not in present, (where, member, data)
                assert member not in as_dict, (where, member, as_dict)
                assert member not in as_pydict, (where, member, as_pydict)
    assert m.plain == model.plain and m.name == model.name, where
    assert m.nums == model.nums and m.maybe == model.maybe, where
    # the reference implementation agrees, in both directions
    ref = model.reference()
    assert data == ref.SerializeToString(deterministic=True), (where, data)
    assert len(m) == len(data), where
    decoded = GMsg.FromString(data)
    for group in GROUPS:
        chosen = model.sel[group]
        assert decoded.WhichOneof(group) == (chosen[0] if chosen else None), where
    assert as_json == json_format.MessageToDict(ref), (
        where, as_json, json_format.MessageToDict(ref),
    )  # fmt: skip
    # flags that ride along
    assert betterproto.serialized_on_wire(m) in (True, False)


def json_value(member, value, rng):
    if member in MESSAGE_MEMBERS:
        return value.to_dict()
    if member in ENUM_MEMBERS:
        return rng.choice((value.name, int(value)))
    if member == "blob":
        return base64.b64encode(value).decode()
    if member == "big":
        return rng.choice((str(value), value))
    return value


def random_member(rng, default_bias=0.5):
    member = rng.choice(sorted(GROUP_OF))
    makers = VALUES[member]
    maker = makers[0] if rng.random() < default_bias else rng.choice(makers)
    return member, maker


def run_history(cls, seed, steps):
    rng = random.Random(seed)
    # ---- construct with kwargs: at most one member per group
    model = Model()
    kwargs = {}
    for group in GROUPS:
        if rng.random() < 0.6:
            member = rng.choice(GROUPS[group])
            maker = rng.choice(VALUES[member])
            kwargs[member] = maker()
            model.select(member, maker())
    if rng.random() < 0.5:
        kwargs["plain"] = model.plain = rng.choice((0, 5))
    if rng.random() < 0.3:
        kwargs["maybe"] = model.maybe = rng.choice((0, 9))
    items = list(kwargs.items())
    rng.shuffle(items)  # keyword order must not matter
    m = cls(**dict(items))
    trail = [f"{cls.__name__}({dict(items)!r})"]
    check(m, model, trail)

    for _ in range(steps):
        op = rng.choice(
            ("set", "set", "set", "plain", "parse", "parse", "from_dict", "from_dict_cls",
             "from_json", "copy", "deepcopy", "pickle", "reparse", "ctor")
        )  # fmt: skip
        if op == "set":
            member, maker = random_member(rng)
            setattr(m, member, maker())
            model.select(member, maker())
            trail.append(f"{member}={maker()!r}")
        elif op == "plain":
            which = rng.choice(("plain", "name", "nums", "maybe"))
            value = {
                "plain": rng.choice((0, 1, -7)),
                "name": rng.choice(("", "n")),
                "nums": rng.choice(([], [0], [1, 2])),
                "maybe": rng.choice((None, 0, 4)),
            }[which]
            setattr(m, which, value)
            setattr(model, which, value)
            trail.append(f"{which}={value!r}")
        elif op == "parse":
            # a byte string holding 0..4 members in any order; the last one of a group wins
            blob = b""
            picked = []
            for _ in range(rng.randrange(5)):
                member, maker = random_member(rng)
                piece = GMsg()
                if member in MESSAGE_MEMBERS:
                    getattr(piece, member).SetInParent()
                    getattr(piece, member).MergeFromString(bytes(maker()))
                else:
                    v = maker()
                    setattr(piece, member, int(v) if member in ENUM_MEMBERS else v)
                encoded = piece.SerializeToString()
                assert encoded == bytes(Msg(**{member: maker()})), (member, encoded)
                blob += encoded
                picked.append(member)
                model.select(member, maker())
            if rng.random() < 0.3:
                blob += bytes(Msg(plain=3))
                model.plain = 3
            m.parse(blob)
            trail.append(f"parse({picked})")
        elif op == "from_dict":
            # instance form: keys are applied in order
            d = {}
            for _ in range(rng.randrange(4)):
                member, maker = random_member(rng)
                d.pop(member, None)
                d[member] = json_value(member, maker(), rng)
                model.select(member, maker())
            if rng.random() < 0.3:
                d["bogus"] = 1
            m.from_dict(d)
            trail.append(f"from_dict({d!r})")
        elif op in ("from_dict_cls", "from_json"):
            # class form builds a new message: at most one member per group
            d = {}
            model = Model()
            for group in GROUPS:
                if rng.random() < 0.6:
                    member = rng.choice(GROUPS[group])
                    maker = rng.choice(VALUES[member])
                    d[member] = json_value(member, maker(), rng)
                    model.select(member, maker())
            if rng.random() < 0.4:
                d["name"] = model.name = "nn"
            items = list(d.items())
            rng.shuffle(items)
            d = dict(items)
            if op == "from_json":
                m = cls().from_json(json.dumps(d))
            else:
                m = cls.from_dict(d)
            trail.append(f"{op}({d!r})")
        elif op in ("copy", "deepcopy", "pickle", "reparse"):
            before = bytes(m)
            if op == "copy":
                dup = copy.copy(m)
            elif op == "deepcopy":
                dup = copy.deepcopy(m)
            elif op == "pickle":
                dup = pickle.loads(pickle.dumps(m))
            else:
                dup = cls().parse(before)
            assert type(dup) is cls and dup is not m
            check(dup, model, trail + [op])
            # the two are independent state machines from now on
            member, maker = random_member(rng)
            setattr(dup, member, maker())
            dup_model = model.clone()
            dup_model.select(member, maker())
            check(dup, dup_model, trail + [op, f"dup.{member}={maker()!r}"])
            check(m, model, trail + [op, "original after mutating the duplicate"])
            assert bytes(m) == before
            if rng.random() < 0.5:
                m, model = dup, dup_model
                trail.append(f"{op}; {member}={maker()!r}; continue with the duplicate")
        elif op == "ctor":
            # start over through the constructor, mixing in plain fields
            model = Model()
            kwargs = {}
            for group in GROUPS:
                if rng.random() < 0.5:
                    member, maker = rng.choice(GROUPS[group]), None
                    maker = VALUES[member][0] if rng.random() < 0.6 else rng.choice(VALUES[member])
                    kwargs[member] = maker()
                    model.select(member, maker())
            if rng.random() < 0.5:
                kwargs["nums"] = model.nums = [4]
            m = cls(**kwargs)
            trail = [f"{cls.__name__}({kwargs!r})"]
        check(m, model, trail)


# --------------------------------------------------------------------------- driving
for cls in (Msg, PMsg):
    # the empty message
    check(cls(), Model(), [f"{cls.__name__}()"])
    # every single member, every value, through the constructor
    for member, makers in VALUES.items():
        for maker in makers:
            model = Model()
            model.select(member, maker())
            m = cls(**{member: maker()})
            check(m, model, [f"{cls.__name__}({member}={maker()!r})"])
            assert betterproto.serialized_on_wire(m) is True
            # ... also positionally-late keyword together with plain fields
            model.plain, model.name = 2, "z"
            check(cls(name="z", plain=2, **{member: maker()}), model, ["with plain"])
    assert betterproto.serialized_on_wire(cls()) is False
    assert betterproto.serialized_on_wire(cls(plain=0)) is True
    assert betterproto.serialized_on_wire(cls(maybe=None)) is False
    assert betterproto.serialized_on_wire(cls(maybe=0)) is True
    assert cls()._unknown_fields == b""
    assert list(cls()._group_current.items()) == [("a", None), ("b", None), ("c", None)]
    assert list(cls(flag=False, num=0)._group_current.items()) == [
        ("a", "num"), ("b", "flag"), ("c", None),
    ]  # fmt: skip

    for seed in range(120):
        run_history(cls, seed, steps=25)

# Several members of one group handed to the constructor at once: the member declared
# last is the selected one; the others are unreadable and absent from every output.
for cls in (Msg, PMsg):
    rng = random.Random(99)
    for _ in range(150):
        kwargs = {}
        expected = Model()
        for group, members in GROUPS.items():
            chosen = [mem for mem in members if rng.random() < 0.6]
            for member in chosen:  # declaration order
                maker = rng.choice(VALUES[member])
                kwargs[member] = maker()
                expected.select(member, maker())  # the last declared one sticks
        items = list(kwargs.items())
        rng.shuffle(items)
        m = cls(**dict(items))
        check(m, expected, [f"multi {dict(items)!r}"])
        for dup in (copy.copy(m), copy.deepcopy(m), pickle.loads(pickle.dumps(m))):
            check(dup, expected, [f"multi {dict(items)!r}", "dup"])
        # assigning afterwards behaves as usual
        member, maker = random_member(rng)
        setattr(m, member, maker())
        expected.select(member, maker())
        check(m, expected, ["multi", f"{member}={maker()!r}"])
        check(copy.deepcopy(m), expected, ["multi", f"{member}={maker()!r}", "deepcopy"])

# pydantic style: None for an optional member means "not given"
p = PMsg(num=None, text="t", sub=None, flag=None, big=None, other=None)
expected = Model()
expected.select("text", "t")
check(p, expected, ["PMsg with explicit None"])
p = PMsg(num=None, text=None, colour=None, blob=None)
check(p, Model(), ["PMsg all None"])
assert betterproto.serialized_on_wire(p) is False

# nested oneofs are independent of the outer ones
outer = Msg(sub=Sub(x=0), other=Sub(y=""))
assert betterproto.which_one_of(outer.sub, "inner") == ("x", 0)
assert betterproto.which_one_of(outer.other, "inner") == ("y", "")
assert bytes(outer) == b"\x32\x02\x10\x00\x62\x02\x1a\x00"
again = pickle.loads(pickle.dumps(copy.deepcopy(outer)))
assert betterproto.which_one_of(again.sub, "inner") == ("x", 0)
assert betterproto.which_one_of(again.other, "inner") == ("y", "")
assert bytes(again) == bytes(outer)

print("C07 equiv: all checks passed")
