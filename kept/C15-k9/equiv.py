"""C15 keep1 equivalence check: Message.dump / Message.__len__ (which decide whether a
Timestamp / Duration field goes on the wire and feed it to _serialize_single) produce
the same bytes and sizes as before, and those bytes carry the reference's exact
(seconds, nanos) pairs.

Singular, proto3-optional, oneof, repeated and map Timestamp / Duration fields are
encoded, decoded by google.protobuf, re-encoded by google.protobuf and decoded again
by betterproto; len() and the size-delimited stream form are checked as well. A
digest of everything betterproto emitted is compared with the value recorded on the
pristine tree.
"""
import hashlib
import io
import random
from dataclasses import dataclass
from datetime import datetime, timedelta, timezone
from typing import Dict, List, Optional

from google.protobuf import descriptor_pb2, descriptor_pool, message_factory
from google.protobuf import duration_pb2, timestamp_pb2  # noqa: F401 (registers deps)

import betterproto

US = timedelta(microseconds=1)
EPOCH = datetime(1970, 1, 1, tzinfo=timezone.utc)


# ----------------------------------------------------------------------------------
# betterproto side
# ----------------------------------------------------------------------------------
@dataclass(eq=False, repr=False)
class M(betterproto.Message):
    ts: datetime = betterproto.message_field(1)
    d: timedelta = betterproto.message_field(2)
    ots: Optional[datetime] = betterproto.message_field(3, optional=True, group="_ots")
    od: Optional[timedelta] = betterproto.message_field(4, optional=True, group="_od")
    gts: datetime = betterproto.message_field(5, group="g")
    gd: timedelta = betterproto.message_field(6, group="g")
    rts: List[datetime] = betterproto.message_field(7)
    rd: List[timedelta] = betterproto.message_field(8)
    mts: Dict[str, datetime] = betterproto.map_field(
        9, betterproto.TYPE_STRING, betterproto.TYPE_MESSAGE
    )
    md: Dict[str, timedelta] = betterproto.map_field(
        10, betterproto.TYPE_STRING, betterproto.TYPE_MESSAGE
    )
    n: int = betterproto.int64_field(11)


# ----------------------------------------------------------------------------------
# reference side: the same schema, built for google.protobuf at run time
# ----------------------------------------------------------------------------------
def build_reference():
    F = descriptor_pb2.FieldDescriptorProto
    fdp = descriptor_pb2.FileDescriptorProto(
        name="c15_keep1_ref.proto", package="c15k1", syntax="proto3"
    )
    fdp.dependency.append("google/protobuf/timestamp.proto")
    fdp.dependency.append("google/protobuf/duration.proto")
    msg = fdp.message_type.add(name="M")
    TS, DU = ".google.protobuf.Timestamp", ".google.protobuf.Duration"

    def add(name, number, type_name, label=F.LABEL_OPTIONAL, **kw):
        return msg.field.add(
            name=name, number=number, type=F.TYPE_MESSAGE, type_name=type_name,
            label=label, **kw,
        )

    msg.oneof_decl.add(name="g")
    msg.oneof_decl.add(name="_ots")
    msg.oneof_decl.add(name="_od")
    add("ts", 1, TS)
    add("d", 2, DU)
    add("ots", 3, TS, oneof_index=1, proto3_optional=True)
    add("od", 4, DU, oneof_index=2, proto3_optional=True)
    add("gts", 5, TS, oneof_index=0)
    add("gd", 6, DU, oneof_index=0)
    add("rts", 7, TS, label=F.LABEL_REPEATED)
    add("rd", 8, DU, label=F.LABEL_REPEATED)
    for fname, number, vtype in (("mts", 9, TS), ("md", 10, DU)):
        entry = msg.nested_type.add(name=f"{fname.capitalize()}Entry")
        entry.options.map_entry = True
        entry.field.add(name="key", number=1, type=F.TYPE_STRING, label=F.LABEL_OPTIONAL)
        entry.field.add(
            name="value", number=2, type=F.TYPE_MESSAGE, type_name=vtype,
            label=F.LABEL_OPTIONAL,
        )
        add(fname, number, f".c15k1.M.{entry.name}", label=F.LABEL_REPEATED)
    msg.field.add(name="n", number=11, type=F.TYPE_INT64, label=F.LABEL_OPTIONAL)
    pool = descriptor_pool.Default()
    pool.Add(fdp)
    return message_factory.GetMessageClass(pool.FindMessageTypeByName("c15k1.M"))


Ref = build_reference()


# ----------------------------------------------------------------------------------
# exact expected pairs, integer arithmetic only
# ----------------------------------------------------------------------------------
def ts_pair(dt: datetime):
    total = (dt - EPOCH) // US
    s, us = divmod(total, 10**6)
    return s, us * 1000


def du_pair(td: timedelta):
    total = td // US
    s, us = divmod(abs(total), 10**6)
    if total < 0:
        s, us = -s, -us
    return s, us * 1000


def pair(m):
    return m.seconds, m.nanos


# ----------------------------------------------------------------------------------
# value generators
# ----------------------------------------------------------------------------------
rng = random.Random(0xC15)
ZONES = [
    timezone.utc,
    timezone(timedelta(hours=5, minutes=30)),
    timezone(timedelta(hours=-9, minutes=-30)),
    timezone(timedelta(hours=14)),
]
LO = datetime(1, 1, 2, tzinfo=timezone.utc)
HI = datetime(9999, 12, 30, tzinfo=timezone.utc)
SPAN_US = (HI - LO) // US
MAX_D_US = 315_576_000_000 * 10**6

SPECIAL_TS = [
    EPOCH,
    EPOCH + US,
    EPOCH - US,
    EPOCH + timedelta(seconds=1),
    EPOCH - timedelta(seconds=1),
    EPOCH - timedelta(seconds=1, microseconds=500000),
    datetime(1, 1, 1, tzinfo=timezone.utc),
    datetime(9999, 12, 31, 23, 59, 59, 999999, tzinfo=timezone.utc),
    datetime(1970, 1, 1, 5, 30, tzinfo=ZONES[1]),  # the epoch, in another zone
    datetime(1970, 1, 1, 0, 0, tzinfo=ZONES[1]),  # wall clock reads like the epoch
    EPOCH + timedelta(microseconds=2**53 + 1),
    EPOCH - timedelta(microseconds=2**53 + 1),
]
SPECIAL_D = [
    timedelta(0),
    US,
    -US,
    timedelta(seconds=1),
    timedelta(seconds=-1),
    timedelta(seconds=-1, microseconds=-500000),
    timedelta(microseconds=-500000),
    timedelta(microseconds=MAX_D_US),
    timedelta(microseconds=-MAX_D_US),
    timedelta(microseconds=MAX_D_US - 1),
    timedelta(microseconds=-MAX_D_US + 1),
    timedelta(microseconds=2**53 + 1),
    timedelta(microseconds=-(2**53) - 1),
]


def rand_ts():
    if rng.random() < 0.3:
        return rng.choice(SPECIAL_TS)
    near = rng.random() < 0.3
    if near:
        dt = EPOCH + timedelta(microseconds=rng.randrange(-3 * 10**6, 3 * 10**6))
    else:
        dt = LO + timedelta(microseconds=rng.randrange(SPAN_US))
    return dt.astimezone(rng.choice(ZONES))


def rand_d():
    if rng.random() < 0.3:
        return rng.choice(SPECIAL_D)
    if rng.random() < 0.4:
        return timedelta(microseconds=rng.randrange(-3 * 10**6, 3 * 10**6))
    return timedelta(microseconds=rng.randrange(-MAX_D_US, MAX_D_US + 1))


def rand_message() -> M:
    m = M()
    r = rng.random
    if r() < 0.7:
        m.ts = rand_ts()
    if r() < 0.7:
        m.d = rand_d()
    if r() < 0.5:
        m.ots = rand_ts()
    if r() < 0.5:
        m.od = rand_d()
    which = rng.randrange(3)
    if which == 1:
        m.gts = rand_ts()
    elif which == 2:
        m.gd = rand_d()
    if r() < 0.5:
        m.rts = [rand_ts() for _ in range(rng.randrange(4))]
    if r() < 0.5:
        m.rd = [rand_d() for _ in range(rng.randrange(4))]
    if r() < 0.4:
        m.mts = {f"k{i}": rand_ts() for i in range(rng.randrange(3))}
    if r() < 0.4:
        m.md = {("" if i == 0 else f"k{i}"): rand_d() for i in range(rng.randrange(3))}
    if r() < 0.3:
        m.n = rng.choice([0, 1, -1, 2**62])
    return m


def raw(m: M, name: str):
    """The stored value of a field, or None when it is not set (oneof / optional)."""
    try:
        return getattr(m, name)
    except AttributeError:
        return None


digest = hashlib.sha256()


def check(m: M) -> None:
    data = bytes(m)
    digest.update(len(data).to_bytes(4, "little") + data)

    # size agrees with the bytes, and the delimited form is prefix + bytes
    assert len(m) == len(data), (len(m), len(data))
    out = io.BytesIO()
    m.dump(out, betterproto.SIZE_DELIMITED)
    assert out.getvalue() == betterproto.encode_varint(len(data)) + data
    again = M().load(io.BytesIO(out.getvalue()), betterproto.SIZE_DELIMITED)
    assert bytes(again) == data

    # the reference sees the exact pairs
    ref = Ref()
    ref.ParseFromString(data)
    ts, d = raw(m, "ts"), raw(m, "d")
    assert pair(ref.ts) == ts_pair(ts), (ts, pair(ref.ts))
    assert pair(ref.d) == du_pair(d), (d, pair(ref.d))
    assert ref.HasField("ts") == (ts != EPOCH)
    assert ref.HasField("d") == (d != timedelta(0))

    ots, od = raw(m, "ots"), raw(m, "od")
    assert ref.HasField("ots") == (ots is not None)
    assert ref.HasField("od") == (od is not None)
    if ots is not None:
        assert pair(ref.ots) == ts_pair(ots)
    if od is not None:
        assert pair(ref.od) == du_pair(od)

    gts, gd = raw(m, "gts"), raw(m, "gd")
    want_group = "gts" if gts is not None else "gd" if gd is not None else None
    assert ref.WhichOneof("g") == want_group, (ref.WhichOneof("g"), want_group)
    if gts is not None:
        assert pair(ref.gts) == ts_pair(gts)
    if gd is not None:
        assert pair(ref.gd) == du_pair(gd)

    assert [pair(x) for x in ref.rts] == [ts_pair(x) for x in m.rts]
    assert [pair(x) for x in ref.rd] == [du_pair(x) for x in m.rd]
    assert {k: pair(v) for k, v in ref.mts.items()} == {
        k: ts_pair(v) for k, v in m.mts.items()
    }
    assert {k: pair(v) for k, v in ref.md.items()} == {
        k: du_pair(v) for k, v in m.md.items()
    }
    assert ref.n == m.n

    # and back: reference bytes and our own bytes decode to the identical values
    for payload in (data, ref.SerializeToString(deterministic=True)):
        back = M().parse(payload)
        assert raw(back, "ts") == ts and raw(back, "d") == d
        if ots is not None:
            assert raw(back, "ots") == ots
        else:
            assert raw(back, "ots") is None
        if od is not None:
            assert raw(back, "od") == od
        else:
            assert raw(back, "od") is None
        assert betterproto.which_one_of(back, "g") == (
            (want_group, gts if gts is not None else gd) if want_group else ("", None)
        )
        assert back.rts == m.rts and back.rd == m.rd
        assert back.mts == m.mts and back.md == m.md
        assert back.n == m.n
        assert len(back) == len(bytes(back))


# hand-picked messages first
check(M())
for special in SPECIAL_TS:
    check(M(ts=special))
    check(M(ots=special))
    check(M(gts=special))
    check(M(rts=[special, special]))
    check(M(mts={"a": special, "": special}))
for special in SPECIAL_D:
    check(M(d=special))
    check(M(od=special))
    check(M(gd=special))
    check(M(rd=[special, special]))
    check(M(md={"a": special, "": special}))

for _ in range(4000):
    check(rand_message())

# nested: the message as a child, so dump() of the parent recurses into it
@dataclass(eq=False, repr=False)
class Outer(betterproto.Message):
    inner: M = betterproto.message_field(1)
    items: List[M] = betterproto.message_field(2)


for _ in range(300):
    o = Outer(inner=rand_message(), items=[rand_message() for _ in range(rng.randrange(3))])
    data = bytes(o)
    digest.update(data)
    assert len(o) == len(data)
    back = Outer().parse(data)
    assert bytes(back) == data
    assert bytes(back.inner) == bytes(o.inner)
    assert [bytes(i) for i in back.items] == [bytes(i) for i in o.items]

EXPECTED = "18588c61e3e12fb601cc8a59281c62542e054f03cb5d219a0922a737962cfd7a"
got = digest.hexdigest()
assert got == EXPECTED, f"emitted bytes changed: {got}"
print("C15 keep1 equiv: OK", got[:16])
