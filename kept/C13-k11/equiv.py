import importlib, itertools, os, shutil, sys, tempfile, typing
from google.protobuf import descriptor_pb2 as D
from google.protobuf.compiler import plugin_pb2

import betterproto
from betterproto.plugin import compiler as plugin_compiler
plugin_compiler.subprocess.check_output = lambda cmd, input, encoding: input
from betterproto.lib.google.protobuf.compiler import CodeGeneratorRequest
from betterproto.plugin.parser import generate_code
from betterproto.plugin.models import monkey_patch_oneof_index
monkey_patch_oneof_index()

F = D.FieldDescriptorProto


def make_target_file(pkg, fname):
    """A file of package pkg with Target, Target.Inner, Kind, Target.Mode."""
    f = D.FileDescriptorProto(name=fname, package=pkg, syntax="proto3")
    m = f.message_type.add(name="Target")
    m.field.add(name="v", number=1, type=F.TYPE_INT32, label=F.LABEL_OPTIONAL, json_name="v")
    inner = m.nested_type.add(name="Inner")
    inner.field.add(name="w", number=1, type=F.TYPE_INT32, label=F.LABEL_OPTIONAL, json_name="w")
    ne = m.enum_type.add(name="Mode")
    ne.value.add(name="MODE_ZERO", number=0)
    ne.value.add(name="MODE_ONE", number=1)
    e = f.enum_type.add(name="Kind")
    e.value.add(name="KIND_ZERO", number=0)
    e.value.add(name="KIND_ONE", number=1)
    return f


def tname(pkg, name):
    return "." + (pkg + "." if pkg else "") + name


def add_entry(msg, fname, vtype, vtname):
    entry = msg.nested_type.add(name="".join(p.capitalize() for p in fname.split("_")) + "Entry")
    entry.options.map_entry = True
    entry.field.add(name="key", number=1, type=F.TYPE_STRING, label=F.LABEL_OPTIONAL, json_name="key")
    entry.field.add(name="value", number=2, type=vtype, label=F.LABEL_OPTIONAL, type_name=vtname, json_name="value")
    return entry.name


def add_refs(f, holder_name, own_pkg, target_pkg, tag, service=True):
    """Adds message <holder_name> to file f (package own_pkg) that references the four
    kinds of target_pkg at the sites field/repeated/map/oneof, and a service."""
    m = f.message_type.add(name=holder_name)
    kinds = [("msg", F.TYPE_MESSAGE, "Target"), ("inner", F.TYPE_MESSAGE, "Target.Inner"),
             ("kind", F.TYPE_ENUM, "Kind"), ("mode", F.TYPE_ENUM, "Target.Mode")]
    n = 0
    m.oneof_decl.add(name="choice")
    for kname, ftype, t in kinds:
        full = tname(target_pkg, t)
        n += 1
        m.field.add(name=f"f_{kname}", number=n, type=ftype, label=F.LABEL_OPTIONAL, type_name=full, json_name=f"f{kname}")
        n += 1
        m.field.add(name=f"r_{kname}", number=n, type=ftype, label=F.LABEL_REPEATED, type_name=full, json_name=f"r{kname}")
        n += 1
        ename = add_entry(m, f"m_{kname}", ftype, full)
        m.field.add(name=f"m_{kname}", number=n, type=F.TYPE_MESSAGE, label=F.LABEL_REPEATED,
                    type_name=tname(own_pkg, holder_name + "." + ename), json_name=f"m{kname}")
        n += 1
        m.field.add(name=f"o_{kname}", number=n, type=ftype, label=F.LABEL_OPTIONAL, type_name=full,
                    json_name=f"o{kname}", oneof_index=0)
    if service:
        s = f.service.add(name=holder_name + "Svc")
        s.method.add(name="In", input_type=tname(target_pkg, "Target"), output_type=tname(own_pkg, holder_name))
        s.method.add(name="Out", input_type=tname(own_pkg, holder_name), output_type=tname(target_pkg, "Target.Inner"))
        s.method.add(name="Bidi", input_type=tname(target_pkg, "Target.Inner"), output_type=tname(target_pkg, "Target"),
                     client_streaming=True, server_streaming=True)
    return m


def generate(files, root, parameter=""):
    req = plugin_pb2.CodeGeneratorRequest(parameter=parameter)
    for f in files:
        req.file_to_generate.append(f.name)
        req.proto_file.append(f)
    request = CodeGeneratorRequest().parse(req.SerializeToString())
    cwd = os.getcwd()
    os.chdir(root)  # generate_code looks for existing __init__.py relative to cwd
    try:
        response = generate_code(request)
    finally:
        os.chdir(cwd)
    out = {}
    for rf in response.file:
        path = os.path.join(root, rf.name)
        os.makedirs(os.path.dirname(path), exist_ok=True)
        with open(path, "w") as fh:
            fh.write(rf.content)
        out[rf.name] = rf.content
    return out


# ---------------------------------------------------------------------------------
# Reference: the casing helpers as originally written (closure + if/elif chain,
# pattern compiled per call).
# ---------------------------------------------------------------------------------
import keyword
import random
import re

R_SYMBOLS = "[^a-zA-Z0-9]*"
R_WORD = "[A-Z]*[a-z]*[0-9]*"
R_WORD_UPPER = "[A-Z]+(?![a-z])[0-9]*"


def ref_sanitize_name(value):
    if keyword.iskeyword(value):
        return f"{value}_"
    if not value.isidentifier():
        return f"_{value}"
    return value


def ref_snake_case(value, strict=True):
    def substitute_word(symbols, word, is_start):
        if not word:
            return ""
        if strict:
            delimiter_count = 0 if is_start else 1
        elif is_start:
            delimiter_count = len(symbols)
        elif word.isupper() or word.islower():
            delimiter_count = max(1, len(symbols))
        else:
            delimiter_count = len(symbols) + 1
        return ("_" * delimiter_count) + word.lower()

    return re.sub(
        f"(^)?({R_SYMBOLS})({R_WORD_UPPER}|{R_WORD})",
        lambda groups: substitute_word(groups[2], groups[3], groups[1] is not None),
        value,
    )


def ref_pascal_case(value, strict=True):
    def substitute_word(symbols, word):
        if strict:
            return word.capitalize()
        if word.islower():
            delimiter_length = len(symbols[:-1])
        else:
            delimiter_length = len(symbols)
        return ("_" * delimiter_length) + word.capitalize()

    return re.sub(
        f"({R_SYMBOLS})({R_WORD_UPPER}|{R_WORD})",
        lambda groups: substitute_word(groups[1], groups[2]),
        value,
    )


def ref_lowercase_first(value):
    return value[0:1].lower() + value[1:]


def ref_camel_case(value, strict=True):
    return ref_lowercase_first(ref_pascal_case(value, strict=strict))


def ref_safe_snake_case(value):
    return ref_sanitize_name(ref_snake_case(value))


def ref_pythonize_enum_member_name(name, enum_name):
    prefix = ref_snake_case(enum_name).upper() + "_"
    if name.startswith(prefix) and name[len(prefix):].strip("_"):
        name = name[len(prefix):].strip("_")
    return ref_sanitize_name(name)


from betterproto import casing
from betterproto.compile import naming
from betterproto.compile.importing import get_type_reference
from betterproto.plugin.typing_compiler import DirectImportTypingCompiler


def compare(value):
    for strict in (True, False):
        assert casing.snake_case(value, strict) == ref_snake_case(value, strict), (value, strict)
        assert casing.snake_case(value, strict=strict) == ref_snake_case(value, strict), (value, strict)
        assert casing.pascal_case(value, strict) == ref_pascal_case(value, strict), (value, strict)
        assert casing.camel_case(value, strict=strict) == ref_camel_case(value, strict), (value, strict)
    assert casing.snake_case(value) == ref_snake_case(value), value
    assert casing.pascal_case(value) == ref_pascal_case(value), value
    assert casing.camel_case(value) == ref_camel_case(value), value
    assert casing.safe_snake_case(value) == ref_safe_snake_case(value), value
    assert casing.sanitize_name(value) == ref_sanitize_name(value), value
    assert casing.lowercase_first(value) == ref_lowercase_first(value), value
    assert naming.pythonize_class_name(value) == ref_sanitize_name(ref_pascal_case(value)), value
    assert naming.pythonize_field_name(value) == ref_safe_snake_case(value), value
    assert naming.pythonize_method_name(value) == ref_safe_snake_case(value), value


def test_casing_exhaustive_and_random():
    n = 0
    # every string up to length 6 over a small alphabet with all character classes
    alphabet = "aB1_."
    for length in range(0, 7):
        for chars in itertools.product(alphabet, repeat=length):
            compare("".join(chars))
            n += 1
    # second alphabet: two letters of each case so that isupper/islower/mixed words occur
    for length in range(0, 6):
        for chars in itertools.product("abAB0-", repeat=length):
            compare("".join(chars))
            n += 1
    rng = random.Random(13)
    pool = "abcxyzABCXYZ0189_.- /$éÉßЖж中"
    for _ in range(20000):
        compare("".join(rng.choice(pool) for _ in range(rng.randint(0, 24))))
        n += 1
    words = ["", "a", "A", "Target", "Target.Inner", "_Target_Inner", "Outer.Mid.Leaf", "__Outer__Mid_Leaf",
             "HTTPTarget.InnerURL", "_HTTPTarget_InnerURL", "my_enum", "MY_ENUM", "myEnum", "Int32Value",
             "betterproto.lib.google.protobuf", "betterproto.lib.pydantic.google.protobuf", "p.q.r.s",
             "cousin.package2", "v1beta2.api_v2", "b.c", "a_b.c", "fooBar", "FOOBar", "fooBAR", "foo__bar",
             "__foo", "foo__", "Foo1Bar2", "1foo", "foo.1bar", "class.def", "None.True", "UPPER_CASE", "x" * 300]
    for word in words + keyword.kwlist + keyword.softkwlist + [k.capitalize() for k in keyword.kwlist]:
        compare(word)
        for prefix, suffix in itertools.product(["", "_", ".", "__"], repeat=2):
            compare(prefix + word + suffix)
            n += 1
    for enum_name in ["Kind", "Target.Mode", "_Target_Mode", "HTTPCode", "my_enum", "E", ""]:
        for member in ["KIND_ZERO", "KIND_", "KIND", "TARGET_MODE_ONE", "HTTP_CODE_OK", "E_", "E_A", "ZERO", "MY_ENUM_from",
                       "None", "MY_ENUM_None", "_", ""]:
            assert naming.pythonize_enum_member_name(member, enum_name) == ref_pythonize_enum_member_name(member, enum_name)
    return n


# (package, source type) -> (reference, imports); literals recorded from the reference tree
REFERENCES = [
    ("", ".Target", '"Target"', set()),
    ("", ".Target.Inner", '"TargetInner"', set()),
    ("a", ".Target.Mode", '"_TargetMode__"', {"from .. import TargetMode as _TargetMode__"}),
    ("a.b", ".HTTPTarget.InnerURL", '"__HttpTargetInnerUrl__"',
     {"from ... import HttpTargetInnerUrl as __HttpTargetInnerUrl__"}),
    ("a", ".a.b.Target.Inner", '"b.TargetInner"', {"from . import b"}),
    ("", ".a.b.c.my_enum", '"a_b_c.MyEnum"', {"from .a.b import c as a_b_c"}),
    ("a.b.c", ".a.Target", '"___a__.Target"', {"from .... import a as ___a__"}),
    ("a.x", ".a.y.Outer.Mid.Leaf", '"_y__.OuterMidLeaf"', {"from .. import y as _y__"}),
    ("a.b", ".p.q.Target", '"__p_q__.Target"', {"from ...p import q as __p_q__"}),
    ("a.x.y", ".a.b_c.d1.Kind", '"__b_c_d1__.Kind"', {"from ...b_c import d1 as __b_c_d1__"}),
    ("test.v1", ".other.v2beta1.Msg", '"__other_v2_beta1__.Msg"', {"from ...other import v2beta1 as __other_v2_beta1__"}),
    ("a", ".google.protobuf.Any", '"betterproto_lib_google_protobuf.Any"',
     {"import betterproto.lib.google.protobuf as betterproto_lib_google_protobuf"}),
    ("a", ".google.protobuf.FieldDescriptorProto.Type", '"betterproto_lib_google_protobuf.FieldDescriptorProtoType"',
     {"import betterproto.lib.google.protobuf as betterproto_lib_google_protobuf"}),
    ("a", ".a.None", '"None_"', set()),
    ("a", ".b.True", '"_b__.True_"', {"from .. import b as _b__"}),
]


def test_references():
    for package, source_type, want, want_imports in REFERENCES:
        imports = set()
        got = get_type_reference(package=package, imports=imports, source_type=source_type,
                                 typing_compiler=DirectImportTypingCompiler())
        assert got == want, (package, source_type, got)
        assert imports == want_imports, (package, source_type, imports)
    imports = set()
    got = get_type_reference(package="a", imports=imports, source_type=".google.protobuf.Struct",
                             typing_compiler=DirectImportTypingCompiler(), pydantic=True)
    assert got == '"betterproto_lib_pydantic_google_protobuf.Struct"'
    assert imports == {"import betterproto.lib.pydantic.google.protobuf as betterproto_lib_pydantic_google_protobuf"}


def test_generated_names_end_to_end():
    """Types with awkward names, nested two deep, referenced from every relative position:
    the re-cased reference must denote the re-cased class."""
    base = tempfile.mkdtemp(prefix="c13_keep1_")
    sys.path.insert(0, base)
    try:
        root = os.path.join(base, "gen_names")
        os.makedirs(root)
        packages = ["", "a", "a.b_c", "a.b_c.v1", "x2.y"]
        # proto type name -> expected python class name
        expected = {
            "HTTPTarget": "HttpTarget",
            "HTTPTarget.InnerURL": "HttpTargetInnerUrl",
            "HTTPTarget.InnerURL.leaf_msg": "HttpTargetInnerUrlLeafMsg",
            "HTTPTarget.ModeV2": "HttpTargetModeV2",
            "my_enum": "MyEnum",
            "Plain1": "Plain1",
        }
        files = []
        for i, pkg in enumerate(packages):
            f = D.FileDescriptorProto(name=f"t{i}.proto", package=pkg, syntax="proto3")
            m = f.message_type.add(name="HTTPTarget")
            m.field.add(name="v", number=1, type=F.TYPE_INT32, label=F.LABEL_OPTIONAL, json_name="v")
            inner = m.nested_type.add(name="InnerURL")
            inner.field.add(name="w", number=1, type=F.TYPE_INT32, label=F.LABEL_OPTIONAL, json_name="w")
            leaf = inner.nested_type.add(name="leaf_msg")
            leaf.field.add(name="z", number=1, type=F.TYPE_INT32, label=F.LABEL_OPTIONAL, json_name="z")
            e = m.enum_type.add(name="ModeV2")
            e.value.add(name="MODE_V2_ZERO", number=0)
            e.value.add(name="MODE_V2_ONE", number=1)
            e = f.enum_type.add(name="my_enum")
            e.value.add(name="MY_ENUM_ZERO", number=0)
            e.value.add(name="MY_ENUM_ONE", number=1)
            p = f.message_type.add(name="Plain1")
            p.field.add(name="v", number=1, type=F.TYPE_INT32, label=F.LABEL_OPTIONAL, json_name="v")
            files.append(f)
        enums = {"HTTPTarget.ModeV2", "my_enum"}
        for i, pkg in enumerate(packages):
            for j, other in enumerate(packages):
                f = D.FileDescriptorProto(name=f"r{i}_{j}.proto", package=pkg, syntax="proto3")
                m = f.message_type.add(name=f"Ref{j}")
                for n, t in enumerate(expected, start=1):
                    ftype = F.TYPE_ENUM if t in enums else F.TYPE_MESSAGE
                    m.field.add(name=f"f{n}", number=n, type=ftype, label=F.LABEL_OPTIONAL,
                                type_name=tname(other, t), json_name=f"f{n}")
                    m.field.add(name=f"r{n}", number=20 + n, type=ftype, label=F.LABEL_REPEATED,
                                type_name=tname(other, t), json_name=f"r{n}")
                    ename = add_entry(m, f"m{n}", ftype, tname(other, t))
                    m.field.add(name=f"m{n}", number=40 + n, type=F.TYPE_MESSAGE, label=F.LABEL_REPEATED,
                                type_name=tname(pkg, f"Ref{j}.{ename}"), json_name=f"m{n}")
                s = f.service.add(name=f"Svc{j}")
                s.method.add(name="Call", input_type=tname(other, "HTTPTarget.InnerURL.leaf_msg"),
                             output_type=tname(other, "HTTPTarget.InnerURL"))
                files.append(f)
        generate(files, root)
        mods = {pkg: importlib.import_module("gen_names" + ("." + pkg if pkg else "")) for pkg in packages}
        checked = 0
        for pkg in packages:
            for j, other in enumerate(packages):
                holder = getattr(mods[pkg], f"Ref{j}")
                hints = holder._type_hints()
                for n, (t, pyname) in enumerate(expected.items(), start=1):
                    want = getattr(mods[other], pyname)
                    assert want.__module__ == mods[other].__name__ and want.__name__ == pyname
                    assert hints[f"f{n}"] is want, (pkg, other, t)
                    assert typing.get_args(hints[f"r{n}"]) == (want,), (pkg, other, t)
                    assert typing.get_args(hints[f"m{n}"]) == (str, want), (pkg, other, t)
                    checked += 1
                o = mods[other]
                msg = holder(f1=o.HttpTarget(v=1), f2=o.HttpTargetInnerUrl(w=2), f3=o.HttpTargetInnerUrlLeafMsg(z=3),
                             f4=o.HttpTargetModeV2(1), f5=o.MyEnum(1), r6=[o.Plain1(v=4)], m3={"k": o.HttpTargetInnerUrlLeafMsg(z=5)})
                back = holder().parse(bytes(msg))
                assert back == msg and type(back.f3) is o.HttpTargetInnerUrlLeafMsg and type(back.f5) is o.MyEnum
                assert type(back.m3["k"]) is o.HttpTargetInnerUrlLeafMsg and type(back.r6[0]) is o.Plain1
                handler = getattr(mods[pkg], f"Svc{j}Base")().__mapping__()[
                    "/" + (pkg + "." if pkg else "") + f"Svc{j}/Call"]
                assert handler.request_type is o.HttpTargetInnerUrlLeafMsg and handler.reply_type is o.HttpTargetInnerUrl
                assert o.MyEnum.ONE == 1 and o.HttpTargetModeV2.MODE_V2_ONE == 1
        return checked
    finally:
        sys.path.remove(base)
        shutil.rmtree(base, ignore_errors=True)


if __name__ == "__main__":
    print("casing inputs compared:", test_casing_exhaustive_and_random())
    test_references()
    print("reference strings ok:", len(REFERENCES) + 1)
    print("generated references checked:", test_generated_names_end_to_end())
    print("OK")
