"""C15 keep2: _Timestamp.to_datetime / _Duration.to_timedelta (the wire pair ->
datetime / timedelta direction) checked against integer oracles and against
google.protobuf.  Passes on the pristine tree and with the refactor applied.
"""
import random
from dataclasses import dataclass
from datetime import datetime, timedelta, timezone
from typing import Dict, List, Optional

from google.protobuf import duration_pb2, timestamp_pb2

import betterproto
from betterproto import _Duration, _Timestamp

UTC = timezone.utc
EPOCH = datetime(1970, 1, 1, tzinfo=UTC)
NAIVE_EPOCH = datetime(1970, 1, 1)
US = timedelta(microseconds=1)
MIN_TS, MAX_TS = -62135596800, 253402300799
MAX_DUR = 315576000000
rng = random.Random(1502)


@dataclass(eq=False, repr=False)
class Holder(betterproto.Message):
    ts: datetime = betterproto.message_field(1)
    dur: timedelta = betterproto.message_field(2)
    many_ts: List[datetime] = betterproto.message_field(3)
    many_dur: List[timedelta] = betterproto.message_field(4)
    dur_map: Dict[int, timedelta] = betterproto.map_field(
        5, betterproto.TYPE_INT32, betterproto.TYPE_MESSAGE
    )
    opt_ts: Optional[datetime] = betterproto.message_field(6, optional=True)
    opt_dur: Optional[timedelta] = betterproto.message_field(7, optional=True)


def datetime_from_us(total_us):
    """Oracle: build the UTC datetime from integer microseconds since the epoch
    with calendar arithmetic only (no timedelta(seconds=...))."""
    days, rest = divmod(total_us, 86400 * 10**6)
    second_of_day, us = divmod(rest, 10**6)
    hh, rem = divmod(second_of_day, 3600)
    mm, ss = divmod(rem, 60)
    d = datetime.fromordinal(NAIVE_EPOCH.toordinal() + days)
    return datetime(d.year, d.month, d.day, hh, mm, ss, us, tzinfo=UTC)


def check_ts(seconds, nanos):
    got = _Timestamp(seconds=seconds, nanos=nanos).to_datetime()
    want = datetime_from_us(seconds * 10**6 + nanos // 1000)  # sub-microsecond part is floored
    assert got == want, (seconds, nanos, got, want)
    assert got.tzinfo is UTC and type(got) is datetime
    assert (got.microsecond, got.second) == (want.microsecond, want.second)
    return got


def check_dur(seconds, nanos):
    got = _Duration(seconds=seconds, nanos=nanos).to_timedelta()
    # nanos / 1e3 is rounded half-even to whole microseconds
    want_us = seconds * 10**6 + round(nanos / 1e3)
    assert got // US == want_us and got == want_us * US, (seconds, nanos, got, want_us)
    assert type(got) is timedelta
    assert (got.days, got.seconds, got.microseconds) == (
        want_us // (86400 * 10**6),
        want_us // 10**6 % 86400,
        want_us % 10**6,
    )
    return got


# ------------------------------------------------------------------ to_datetime, direct
ts_pairs = [
    (0, 0), (0, 1000), (0, 999999000), (-1, 999999000), (-1, 0), (1, 0), (-1, 1000),
    (MIN_TS, 0), (MIN_TS, 1000), (MIN_TS, 999999000), (MAX_TS, 999999000), (MAX_TS, 0),
    (86399, 999999000), (86400, 0), (-86400, 0), (-86401, 999999000), (-86399, 0),
    (2**31 - 1, 999999000), (2**31, 0), (-(2**31), 0), (-(2**31) - 1, 1000),
    (2**53 // 10**6, 740993000), (2**53 // 10**6, 740992000), (-(2**53 // 10**6) - 1, 259007000),
    (951782400, 0), (951868799, 999999000), (4107542400, 0),
    # nanos that are not whole microseconds (outside the property's domain): floored
    (0, 1), (0, 999), (0, 1999), (-1, 999999999), (5, 123456789), (MIN_TS, 999), (MAX_TS, 999999999),
]
for _ in range(20000):
    ts_pairs.append((rng.randrange(MIN_TS, MAX_TS + 1), rng.randrange(10**6) * 1000))
for _ in range(3000):
    ts_pairs.append((rng.randrange(MIN_TS, MAX_TS + 1), rng.randrange(10**9)))
for k in range(-3, 4):  # around every day boundary near the epoch and the range ends
    for base in (0, MIN_TS + 86400 * 3, MAX_TS - 86400 * 3 + 1, -86400 * 365, 86400 * 366):
        for nanos in (0, 1000, 999999000):
            ts_pairs.append((base + k, nanos))
            ts_pairs.append((base + 86400 * k, nanos))
ts_pairs = [(s, n) for s, n in ts_pairs if MIN_TS <= s <= MAX_TS]
for seconds, nanos in ts_pairs:
    check_ts(seconds, nanos)

for seconds, nanos in ((MAX_TS + 1, 0), (MIN_TS - 1, 999999000), (2**62, 0), (-(2**62), 0), (2**63 - 1, 0), (-(2**63), 0)):
    try:
        _Timestamp(seconds=seconds, nanos=nanos).to_datetime()
    except OverflowError:
        pass
    else:
        raise AssertionError((seconds, nanos))

# ----------------------------------------------------------------- to_timedelta, direct
dur_pairs = [
    (0, 0), (0, 1000), (0, -1000), (0, 999999000), (0, -999999000), (1, 0), (-1, 0),
    (-1, -500000000), (1, 500000000), (MAX_DUR, 0), (-MAX_DUR, 0), (MAX_DUR - 1, 999999000),
    (-MAX_DUR + 1, -999999000), (2**53 // 10**6, 740993000), (-(2**53 // 10**6), -740993000),
    (86399, 999999000), (86400, 0), (-86400, 0), (-86399, -999999000), (-86400, -1000), (-86401, 0),
    (2**31, 1000), (-(2**31) - 1, -1000), (-3, -1000), (-2, -999999000),
    # mixed signs and sub-microsecond nanos (outside the domain): same arithmetic
    (1, -1000), (-1, 1000), (-1, 999999000), (1, -999999000), (-86400, 1000), (86400, -1000),
    (0, 500), (0, 1500), (0, 2500), (0, -500), (0, -1500), (0, -2500), (-3, -1500), (-3, -2500),
    (-3, 1500), (7, 2500), (86400, 500), (-86400, -500), (-86400, 1500), (0, 1499), (0, 1501),
    (0, 999999999), (0, -999999999), (-1, -999999500), (1, 999999500),
    # far outside the protobuf range but inside timedelta's
    (86399999999999, 999999000), (-86399999913600, 0), (86400 * 999999999, 0), (-86400 * 999999999, 0),
]
for _ in range(20000):
    s = rng.randrange(0, MAX_DUR + 1)
    n = rng.randrange(10**6) * 1000
    dur_pairs.append((s, n) if rng.random() < 0.5 else (-s, -n))
for _ in range(5000):
    dur_pairs.append((rng.randrange(-MAX_DUR, MAX_DUR + 1), rng.randrange(-(10**9) + 1, 10**9)))
for _ in range(2000):  # exact .5 microsecond ties on either side of zero
    dur_pairs.append((rng.randrange(-10**6, 10**6), (rng.randrange(-(10**6), 10**6)) * 1000 + 500))
for k in range(-3, 4):
    for base in (0, 86400, -86400, 86400 * 36525, -86400 * 36525, MAX_DUR, -MAX_DUR):
        for nanos in (0, 1000, -1000, 999999000, -999999000):
            dur_pairs.append((base + k, nanos))
for seconds, nanos in dur_pairs:
    check_dur(seconds, nanos)

for seconds, nanos in ((86400 * 10**9, 0), (-86400 * 999999999 - 1, 0), (2**63 - 1, 0), (-(2**63), 0), (10**15, 5000)):
    try:
        _Duration(seconds=seconds, nanos=nanos).to_timedelta()
    except OverflowError:
        pass
    else:
        raise AssertionError((seconds, nanos))


# ------------------------------------ through a field, from bytes written by the reference
def field(number, payload):
    assert len(payload) < 128
    return bytes([number << 3 | 2, len(payload)]) + payload


for seconds, nanos in ts_pairs[:2500]:
    ref = timestamp_pb2.Timestamp(seconds=seconds, nanos=nanos)
    payload = ref.SerializeToString()
    want = check_ts(seconds, nanos)
    if nanos % 1000 == 0:
        assert ref.ToDatetime(tzinfo=UTC) == want, (seconds, nanos)
    msg = Holder().parse(field(1, payload) + field(3, payload) + field(6, payload))
    assert msg.ts == want and msg.many_ts == [want] and msg.opt_ts == want
    if nanos % 1000 == 0:
        # and back: the identical pair, in the reference's bytes
        assert bytes(Holder(ts=want)) == (field(1, payload) if payload else b"")
        text = ref.ToJsonString()
        assert Holder().from_dict({"ts": text}).ts == want
        assert Holder(ts=want).to_dict() == ({"ts": text} if payload else {})

for seconds, nanos in dur_pairs[:2500]:
    in_range = abs(seconds) <= MAX_DUR and (seconds >= 0 <= nanos or seconds <= 0 >= nanos)
    if not (-(2**63) <= seconds < 2**63):
        continue
    ref = duration_pb2.Duration(seconds=seconds, nanos=nanos)
    payload = ref.SerializeToString()
    want = check_dur(seconds, nanos)
    if in_range and nanos % 1000 == 0:
        assert ref.ToTimedelta() == want, (seconds, nanos)
    entry = b"\x08\x07" + field(2, payload)
    msg = Holder().parse(field(2, payload) + field(4, payload) + field(7, payload) + field(5, entry))
    assert msg.dur == want and msg.many_dur == [want] and msg.opt_dur == want
    assert msg.dur_map == {7: want}
    if in_range and nanos % 1000 == 0:
        assert bytes(Holder(dur=want)) == (field(2, payload) if payload else b"")
        assert Holder().from_dict(Holder(dur=want).to_dict()).dur == want

# ------------------------------------------------- whole round trips from Python values
for _ in range(3000):
    us = rng.randrange(MIN_TS * 10**6, (MAX_TS + 1) * 10**6)
    minutes = rng.randrange(-1439, 1440)
    dt = datetime_from_us(us)
    try:
        local = dt.astimezone(timezone(timedelta(minutes=minutes)))
    except OverflowError:
        local = dt
    span = rng.randrange(-MAX_DUR * 10**6, MAX_DUR * 10**6 + 1) * US
    msg = Holder(ts=local, dur=span, many_ts=[local, EPOCH], many_dur=[span, -span, timedelta(0)], dur_map={0: span})
    back = Holder().parse(bytes(msg))
    assert back.ts == dt and back.ts.utcoffset() == timedelta(0)
    assert back.dur == span and back.many_ts == [dt, EPOCH]
    assert back.many_dur == [span, -span, timedelta(0)] and back.dur_map == {0: span}
    ref_ts = timestamp_pb2.Timestamp()
    ref_ts.FromDatetime(local)
    ref_dur = duration_pb2.Duration()
    ref_dur.FromTimedelta(span)
    assert bytes(Holder(ts=local)) == (field(1, ref_ts.SerializeToString()) if us else b"")
    assert bytes(Holder(dur=span)) == (field(2, ref_dur.SerializeToString()) if span else b"")

print("C15 keep2 equiv: ok")
