"""C05 keep2: the JSON text of google.protobuf.Duration values (_Duration.delta_to_json)
and its use by to_dict / to_json for singular, optional, oneof, repeated and map fields.

Part 1 compares delta_to_json with an independent integer-arithmetic statement of the
format over boundary and random timedeltas (the whole timedelta range, not only the
proto range), and checks the text is read back exactly by delta_from_json.
Part 2 cross-checks messages against google.protobuf.json_format in both directions.
"""
import json
import random
import re
from dataclasses import dataclass
from datetime import timedelta
from typing import Dict, List, Optional

import betterproto
from betterproto import _Duration
from google.protobuf import (
    descriptor_pb2,
    descriptor_pool,
    duration_pb2,
    json_format,
    message_factory,
)

US = timedelta(microseconds=1)
rng = random.Random(50505)


# ------------------------------------------------------------ part 1: the text itself
def expected_text(total_us: int) -> str:
    """Decimal seconds, sign once in front, 3 fractional digits when the value is a
    whole number of milliseconds and 6 otherwise, suffix 's'."""
    sign = "-" if total_us < 0 else ""
    digits = str(abs(total_us)).rjust(7, "0")
    seconds, fraction = digits[:-6], digits[-6:]
    if fraction.endswith("000"):
        fraction = fraction[:3]
    return f"{sign}{seconds}.{fraction}s"


MAX_US = timedelta.max // US
MIN_US = timedelta.min // US
PROTO_MAX_US = 315_576_000_000 * 10**6

magnitudes = {0, 1, 2, 9, 10, 99, 100, 999, 1000, 1001, 1999, 2000, 9999, 10_000}
for p in range(0, 19):
    for d in (-1001, -1000, -999, -1, 0, 1, 999, 1000, 1001):
        magnitudes.add(abs(10**p + d))
for p in (31, 32, 51, 52, 53, 54, 62, 63, 64):
    for d in (-1000, -1, 0, 1, 1000):
        magnitudes.add(2**p + d)
for s in (1, 59, 60, 3599, 3600, 86399, 86400, 86401, 2 * 86400, 365 * 86400):
    for us in (0, 1, 500, 1000, 500_000, 999_000, 999_999):
        magnitudes.add(s * 10**6 + us)
        magnitudes.add(max(0, s * 10**6 - us))
for d in (0, 1, 999, 1000, 10**6, 86400 * 10**6):
    magnitudes.add(PROTO_MAX_US - d)
    magnitudes.add(PROTO_MAX_US + d)
    magnitudes.add(MAX_US - d)
    magnitudes.add(-MIN_US - d)
for _ in range(40_000):
    bits = rng.randint(1, 66)
    magnitudes.add(rng.getrandbits(bits))
for _ in range(10_000):
    magnitudes.add(rng.randint(0, 5 * 10**6))
for _ in range(5_000):
    # whole milliseconds and whole seconds
    magnitudes.add(rng.getrandbits(rng.randint(1, 50)) * 1000)
    magnitudes.add(rng.getrandbits(rng.randint(1, 40)) * 10**6)

TEXT = re.compile(r"-?(0|[1-9][0-9]*)\.([0-9]{3}|[0-9]{6})s")
texts_checked = 0
for magnitude in sorted(magnitudes):
    for total_us in (magnitude, -magnitude):
        if not MIN_US <= total_us <= MAX_US:
            continue
        delta = total_us * US
        assert delta // US == total_us
        text = _Duration.delta_to_json(delta)
        assert type(text) is str
        assert text == expected_text(total_us), (total_us, text, expected_text(total_us))
        assert TEXT.fullmatch(text), text
        assert not text.startswith("-") or total_us < 0, text
        # the argument is not modified and equal durations give equal text
        assert delta // US == total_us
        assert _Duration.delta_to_json(timedelta(microseconds=total_us)) == text
        # exact read-back
        assert _Duration.delta_from_json(text) == delta, (text, delta)
        assert _Duration.delta_from_json(text) // US == total_us
        texts_checked += 1

# differently constructed but equal timedeltas (normalisation of days/seconds/micros)
for _ in range(5_000):
    days = rng.randint(-5000, 5000)
    seconds = rng.randint(-200_000, 200_000)
    micros = rng.randint(-3_000_000, 3_000_000)
    delta = timedelta(days=days, seconds=seconds, microseconds=micros)
    total_us = (days * 86400 + seconds) * 10**6 + micros
    assert _Duration.delta_to_json(delta) == expected_text(total_us)
    texts_checked += 1

assert _Duration.delta_to_json(timedelta(0)) == "0.000s"
assert _Duration.delta_to_json(timedelta(microseconds=-1)) == "-0.000001s"
assert _Duration.delta_to_json(timedelta(milliseconds=-1)) == "-0.001s"
assert _Duration.delta_to_json(timedelta(seconds=-1)) == "-1.000s"
assert _Duration.delta_to_json(timedelta(days=-1)) == "-86400.000s"
assert _Duration.delta_to_json(timedelta(days=-1, microseconds=1)) == "-86399.999999s"
assert _Duration.delta_to_json(timedelta.max) == "86399999999999.999999s"
assert _Duration.delta_to_json(timedelta.min) == "-86399999913600.000s"


# ------------------------------------------------- part 2: against google.protobuf
F = descriptor_pb2.FieldDescriptorProto
DUR = ".google.protobuf.Duration"
fdp = descriptor_pb2.FileDescriptorProto(
    name="c05_keep2_durations.proto",
    package="c05keep2",
    syntax="proto3",
    dependency=["google/protobuf/duration.proto"],
)
msg = fdp.message_type.add(name="Durations")
msg.field.add(name="single", number=1, type=F.TYPE_MESSAGE, label=F.LABEL_OPTIONAL, type_name=DUR)
msg.field.add(name="maybe", number=2, type=F.TYPE_MESSAGE, label=F.LABEL_OPTIONAL, type_name=DUR, proto3_optional=True, oneof_index=1)
msg.field.add(name="many", number=3, type=F.TYPE_MESSAGE, label=F.LABEL_REPEATED, type_name=DUR)
entry = msg.nested_type.add(name="ByNameEntry")
entry.options.map_entry = True
entry.field.add(name="key", number=1, type=F.TYPE_STRING, label=F.LABEL_OPTIONAL)
entry.field.add(name="value", number=2, type=F.TYPE_MESSAGE, label=F.LABEL_OPTIONAL, type_name=DUR)
msg.field.add(name="by_name", number=4, type=F.TYPE_MESSAGE, label=F.LABEL_REPEATED, type_name=".c05keep2.Durations.ByNameEntry")
msg.field.add(name="timeout", number=5, type=F.TYPE_MESSAGE, label=F.LABEL_OPTIONAL, type_name=DUR, oneof_index=0)
msg.field.add(name="retries", number=6, type=F.TYPE_INT32, label=F.LABEL_OPTIONAL, oneof_index=0)
msg.oneof_decl.add(name="limit")
msg.oneof_decl.add(name="_maybe")
pool = descriptor_pool.Default()
assert duration_pb2.DESCRIPTOR.name == "google/protobuf/duration.proto"
pool.Add(fdp)
RefDurations = message_factory.GetMessageClass(pool.FindMessageTypeByName("c05keep2.Durations"))


@dataclass(eq=False, repr=False)
class Durations(betterproto.Message):
    single: timedelta = betterproto.message_field(1)
    maybe: Optional[timedelta] = betterproto.message_field(2, optional=True)
    many: List[timedelta] = betterproto.message_field(3)
    by_name: Dict[str, timedelta] = betterproto.map_field(
        4, betterproto.TYPE_STRING, betterproto.TYPE_MESSAGE
    )
    timeout: timedelta = betterproto.message_field(5, group="limit")
    retries: int = betterproto.int32_field(6, group="limit")


INTERESTING_US = [
    0, 1, -1, 999, -999, 1000, -1000, 1001, 999_999, -999_999, 10**6, -(10**6),
    10**6 + 1, -(10**6) - 1, 1_500_000, -1_500_000, 60 * 10**6, 86400 * 10**6,
    -86400 * 10**6, -86400 * 10**6 + 1, 2**31 * 10**6, 2**53, 2**53 + 1, -(2**53) - 1,
    PROTO_MAX_US, -PROTO_MAX_US, PROTO_MAX_US - 1, -PROTO_MAX_US + 1,
    PROTO_MAX_US - 1000, 123_456_789_000, -123_456_789_012,
]  # fmt: skip


def some_delta():
    r = rng.random()
    if r < 0.5:
        us = rng.choice(INTERESTING_US)
    elif r < 0.7:
        us = rng.randint(-3 * 10**6, 3 * 10**6)
    elif r < 0.85:
        us = rng.randint(-PROTO_MAX_US, PROTO_MAX_US)
    else:
        us = rng.randint(-(10**9), 10**9) * 1000
    return us * US


def expected_json_value(delta):
    return expected_text(delta // US)


messages_checked = 0


def cross_check(bp_msg):
    global messages_checked
    ref_msg = RefDurations.FromString(bytes(bp_msg))
    text = bp_msg.to_json()
    # what to_json wrote is the documented text for every Duration in the message
    doc = json.loads(text)
    if "single" in doc:
        assert doc["single"] == expected_json_value(bp_msg.single)
    if "maybe" in doc:
        assert doc["maybe"] == expected_json_value(bp_msg.maybe)
    assert doc.get("many", []) == [expected_json_value(d) for d in bp_msg.many]
    assert doc.get("byName", {}) == {
        k: expected_json_value(d) for k, d in bp_msg.by_name.items()
    }
    if "timeout" in doc:
        assert doc["timeout"] == expected_json_value(bp_msg.timeout)
    assert bp_msg.to_dict() == doc
    # betterproto -> reference
    assert json_format.Parse(text, RefDurations()) == ref_msg, text
    # reference -> betterproto
    ref_text = json_format.MessageToJson(ref_msg)
    back = Durations().from_json(ref_text)
    assert back == bp_msg, (ref_text, back, bp_msg)
    assert RefDurations.FromString(bytes(back)) == ref_msg, ref_text
    # and betterproto reads its own text back
    assert Durations().from_json(text) == bp_msg, text
    messages_checked += 1


for us in INTERESTING_US:
    d = us * US
    cross_check(Durations(single=d))
    cross_check(Durations(maybe=d))
    cross_check(Durations(many=[d]))
    cross_check(Durations(many=[d, -d, d]))
    cross_check(Durations(by_name={"k": d, "": -d}))
    cross_check(Durations(timeout=d))
    cross_check(Durations(single=d, maybe=-d, many=[d], by_name={"x": d}, timeout=-d))
cross_check(Durations())
cross_check(Durations(retries=0))
cross_check(Durations(retries=3, single=timedelta(seconds=1)))

for _ in range(1500):
    kwargs = {}
    if rng.random() < 0.6:
        kwargs["single"] = some_delta()
    if rng.random() < 0.5:
        kwargs["maybe"] = some_delta()
    if rng.random() < 0.6:
        kwargs["many"] = [some_delta() for _ in range(rng.randint(0, 4))]
    if rng.random() < 0.6:
        kwargs["by_name"] = {
            rng.choice(["a", "b", "c", "", "dé"]): some_delta()
            for _ in range(rng.randint(0, 3))
        }
    which = rng.random()
    if which < 0.4:
        kwargs["timeout"] = some_delta()
    elif which < 0.6:
        kwargs["retries"] = rng.choice([0, 1, -1])
    cross_check(Durations(**kwargs))

print(
    f"C05 keep2 equiv: {texts_checked} Duration texts, {messages_checked} messages "
    f"cross-checked with google.protobuf - all passed"
)
