"""Equivalence check for the to_dict / to_pydict restructuring (C07).

1. Seeded random histories (construct, assign, parse, dict load, copy, deepcopy, pickle)
   over a message with three oneof groups; after every step to_dict / to_pydict /
   to_json are compared, for both casings and both include_default_values settings,
   with a model and (default settings) with google.protobuf's MessageToDict.
2. A table of hand-made messages with datetime, timedelta, wrapper, proto3-optional,
   repeated, map and nested oneof members whose outputs are compared with golden values
   recorded from the reference tree.
"""
import base64
import copy
import json
import pickle
import random
from dataclasses import dataclass
from datetime import datetime, timedelta, timezone
from typing import Dict, List, Optional

from google.protobuf import descriptor_pb2, descriptor_pool, json_format, message_factory

import betterproto
from betterproto import Casing, which_one_of


class Colour(betterproto.Enum):
    ZERO = 0
    RED = 1
    BLUE = 2


@dataclass(eq=False, repr=False)
class Sub(betterproto.Message):
    val: int = betterproto.int32_field(1)
    name: str = betterproto.string_field(2)


@dataclass(eq=False, repr=False)
class Msg(betterproto.Message):
    plain: int = betterproto.int32_field(1)
    a_int: int = betterproto.int32_field(2, group="first")
    a_str: str = betterproto.string_field(3, group="first")
    a_sub: Sub = betterproto.message_field(4, group="first")
    a_enum: Colour = betterproto.enum_field(5, group="first")
    label: str = betterproto.string_field(6)
    b_bool: bool = betterproto.bool_field(7, group="second")
    b_bytes: bytes = betterproto.bytes_field(8, group="second")
    b_sub: Sub = betterproto.message_field(9, group="second")
    b_dbl: float = betterproto.double_field(10, group="second")
    c_only: int = betterproto.sint64_field(11, group="third")


@dataclass(eq=False, repr=False)
class Rich(betterproto.Message):
    when: datetime = betterproto.message_field(1, group="t")
    span: timedelta = betterproto.message_field(2, group="t")
    t_str: str = betterproto.string_field(3, group="t")
    wrapped: Optional[int] = betterproto.message_field(
        4, wraps=betterproto.TYPE_INT32, group="w"
    )
    w_sub: Sub = betterproto.message_field(5, group="w")
    opt: Optional[int] = betterproto.int32_field(6, optional=True, group="_opt")
    items: List[int] = betterproto.int32_field(7)
    subs: List[Sub] = betterproto.message_field(8)
    counts: Dict[str, int] = betterproto.map_field(
        9, betterproto.TYPE_STRING, betterproto.TYPE_INT32
    )
    child: Sub = betterproto.message_field(10)
    big: int = betterproto.int64_field(11, group="n")
    raw: bytes = betterproto.bytes_field(12, group="n")
    ratio: float = betterproto.float_field(13, group="n")
    kind: Colour = betterproto.enum_field(14, group="n")
    inner: Msg = betterproto.message_field(15, group="n")
    opt_sub: Optional[Sub] = betterproto.message_field(16, optional=True, group="_os")
    trailing_: int = betterproto.int32_field(17, group="u")
    other_u: str = betterproto.string_field(18, group="u")


# ---------------------------------------------------------------- google twin
def _build_google():
    fdp = descriptor_pb2.FileDescriptorProto(
        name="c07_equiv_keep2.proto", package="c07k2", syntax="proto3"
    )
    enum = fdp.enum_type.add(name="Colour")
    for n, v in (("ZERO", 0), ("RED", 1), ("BLUE", 2)):
        enum.value.add(name=n, number=v)
    F = descriptor_pb2.FieldDescriptorProto
    sub = fdp.message_type.add(name="Sub")
    sub.field.add(name="val", number=1, type=F.TYPE_INT32, label=F.LABEL_OPTIONAL)
    sub.field.add(name="name", number=2, type=F.TYPE_STRING, label=F.LABEL_OPTIONAL)
    msg = fdp.message_type.add(name="Msg")
    for g in ("first", "second", "third"):
        msg.oneof_decl.add(name=g)
    spec = [
        ("plain", 1, F.TYPE_INT32, None, None),
        ("a_int", 2, F.TYPE_INT32, 0, None),
        ("a_str", 3, F.TYPE_STRING, 0, None),
        ("a_sub", 4, F.TYPE_MESSAGE, 0, ".c07k2.Sub"),
        ("a_enum", 5, F.TYPE_ENUM, 0, ".c07k2.Colour"),
        ("label", 6, F.TYPE_STRING, None, None),
        ("b_bool", 7, F.TYPE_BOOL, 1, None),
        ("b_bytes", 8, F.TYPE_BYTES, 1, None),
        ("b_sub", 9, F.TYPE_MESSAGE, 1, ".c07k2.Sub"),
        ("b_dbl", 10, F.TYPE_DOUBLE, 1, None),
        ("c_only", 11, F.TYPE_SINT64, 2, None),
    ]
    for name, number, typ, oneof, type_name in spec:
        f = msg.field.add(name=name, number=number, type=typ, label=F.LABEL_OPTIONAL)
        if oneof is not None:
            f.oneof_index = oneof
        if type_name:
            f.type_name = type_name
    pool = descriptor_pool.DescriptorPool()
    pool.Add(fdp)
    return message_factory.GetMessageClass(pool.FindMessageTypeByName("c07k2.Msg"))


GMsg = _build_google()

GROUPS = {
    "first": ("a_int", "a_str", "a_sub", "a_enum"),
    "second": ("b_bool", "b_bytes", "b_sub", "b_dbl"),
    "third": ("c_only",),
}
GROUP_OF = {m: g for g, ms in GROUPS.items() for m in ms}
DECL_ORDER = [
    "plain", "a_int", "a_str", "a_sub", "a_enum", "label",
    "b_bool", "b_bytes", "b_sub", "b_dbl", "c_only",
]
DEFAULT = {
    "plain": 0, "a_int": 0, "a_str": "", "a_sub": (0, ""), "a_enum": Colour.ZERO,
    "label": "", "b_bool": False, "b_bytes": b"", "b_sub": (0, ""), "b_dbl": 0.0,
    "c_only": 0,
}
VALUES = {
    "a_int": [0, 1, -1, 2**31 - 1, -(2**31)],
    "a_str": ["", "x", "héllo", "0"],
    "a_sub": [(0, ""), (5, ""), (0, "n"), (-3, "zz")],
    "a_enum": [Colour.ZERO, Colour.RED, Colour.BLUE],
    "b_bool": [False, True],
    "b_bytes": [b"", b"\x00", b"abc"],
    "b_sub": [(0, ""), (7, "q")],
    "b_dbl": [0.0, 1.5, -2.25, 1e300],
    "c_only": [0, 1, -1, 2**63 - 1, -(2**63)],
    "plain": [0, 1, -7, 123456],
    "label": ["", "lbl"],
}


def mk(member, v):
    return Sub(val=v[0], name=v[1]) if member.endswith("_sub") else v


def google_of(model):
    g = GMsg()
    for name, v in model.items():
        if v is None:
            continue
        if name.endswith("_sub"):
            getattr(g, name).SetInParent()
            getattr(g, name).val = v[0]
            getattr(g, name).name = v[1]
        elif name == "a_enum":
            g.a_enum = int(v)
        else:
            setattr(g, name, v)
    return g


def encode_field(member, v):
    g = google_of({member: v})
    if member not in GROUP_OF and not v:
        return b""
    return g.SerializeToString()


def render_json(member, v, include_defaults, casing):
    if member.endswith("_sub"):
        out = {}
        if v[0] or include_defaults:
            out["val"] = v[0]
        if v[1] or include_defaults:
            out["name"] = v[1]
        return out
    if member == "a_enum":
        return Colour(v).name
    if member == "b_bytes":
        return base64.b64encode(v).decode()
    if member == "c_only":
        return str(v)
    return v


def render_py(member, v, include_defaults, casing):
    if member.endswith("_sub"):
        return render_json(member, v, include_defaults, casing)
    return v


def expected_dict(model, include_defaults, casing, render):
    out = {}
    for name in DECL_ORDER:
        v = model[name]
        key = casing(name).rstrip("_")
        if name in GROUP_OF:
            if v is not None:
                out[key] = render(name, v, include_defaults, casing)
            elif include_defaults:
                out[key] = render(name, DEFAULT[name], include_defaults, casing)
        elif v != DEFAULT[name] or include_defaults:
            out[key] = render(name, v, include_defaults, casing)
    return out


def check(msg, model):
    for group, members in GROUPS.items():
        selected = [m for m in members if model[m] is not None]
        assert which_one_of(msg, group)[0] == (selected[0] if selected else "")
    g = google_of(model)
    assert bytes(msg) == g.SerializeToString()
    assert msg.to_dict() == json_format.MessageToDict(g)
    assert msg.to_dict(casing=Casing.SNAKE) == json_format.MessageToDict(
        g, preserving_proto_field_name=True
    )
    for include_defaults in (False, True):
        for casing in (Casing.CAMEL, Casing.SNAKE):
            got = msg.to_dict(casing, include_defaults)
            want = expected_dict(model, include_defaults, casing, render_json)
            assert got == want and list(got) == list(want), (got, want)
            got_py = msg.to_pydict(casing, include_defaults)
            want_py = expected_dict(model, include_defaults, casing, render_py)
            assert got_py == want_py and list(got_py) == list(want_py), (got_py, want_py)
            for key, value in want_py.items():
                assert type(got_py[key]) is type(value) or key in ("aEnum", "a_enum")
            assert json.loads(
                msg.to_json(include_default_values=include_defaults, casing=casing)
            ) == got
    # to_dict must not change the state it reports
    for group, members in GROUPS.items():
        selected = [m for m in members if model[m] is not None]
        assert which_one_of(msg, group)[0] == (selected[0] if selected else "")
        for m in members:
            if model[m] is None:
                assert not hasattr(msg, m)


def empty_model():
    model = {n: None for n in DECL_ORDER}
    model["plain"] = 0
    model["label"] = ""
    return model


def select(model, member, v):
    for m in GROUPS[GROUP_OF[member]]:
        model[m] = None
    model[member] = v


def run_history(rng, steps):
    model = empty_model()
    msg = Msg()
    check(msg, model)
    for _ in range(steps):
        op = rng.choice(
            ["ctor", "set", "set", "set", "plain", "parse", "from_dict",
             "from_dict_cls", "copy", "deepcopy", "pickle"]
        )
        if op == "ctor":
            model = empty_model()
            kwargs = {}
            for group, members in GROUPS.items():
                k = rng.choice([0, 1, 1, 2]) if len(members) > 1 else rng.choice([0, 1])
                chosen = rng.sample(members, k)
                for m in chosen:
                    kwargs[m] = rng.choice(VALUES[m])
                if chosen:
                    last = max(chosen, key=DECL_ORDER.index)
                    model[last] = kwargs[last]
            msg = Msg(**{m: mk(m, v) for m, v in kwargs.items()})
        elif op == "set":
            member = rng.choice(list(GROUP_OF))
            v = rng.choice(VALUES[member])
            setattr(msg, member, mk(member, v))
            select(model, member, v)
        elif op == "plain":
            if rng.random() < 0.5:
                model["plain"] = msg.plain = rng.choice(VALUES["plain"])
            else:
                model["label"] = msg.label = rng.choice(VALUES["label"])
        elif op == "parse":
            chunks = []
            for _ in range(rng.randrange(0, 5)):
                member = rng.choice(list(GROUP_OF) + ["plain"])
                v = rng.choice(VALUES[member])
                chunk = encode_field(member, v)
                chunks.append(chunk)
                if member in GROUP_OF:
                    select(model, member, v)
                elif chunk:
                    model[member] = v
            msg.parse(b"".join(chunks))
        elif op == "from_dict":
            for m in rng.sample(list(GROUP_OF), rng.randrange(0, 4)):
                v = rng.choice(VALUES[m])
                msg.from_dict({m: render_json(m, v, False, Casing.SNAKE)})
                select(model, m, v)
        elif op == "from_dict_cls":
            msg = Msg.from_dict(msg.to_dict())
        elif op == "copy":
            msg = copy.copy(msg)
        elif op == "deepcopy":
            msg = copy.deepcopy(msg)
        elif op == "pickle":
            msg = pickle.loads(pickle.dumps(msg))
        check(msg, model)


# ------------------------------------------------------------ golden table
UTC = timezone.utc


def _rich_cases():
    yield "empty", Rich()
    yield "when0", Rich(when=datetime(1970, 1, 1, tzinfo=UTC))
    yield "when1", Rich(when=datetime(2020, 5, 17, 12, 30, 1, 250000, tzinfo=UTC))
    yield "span0", Rich(span=timedelta(0))
    yield "span1", Rich(span=timedelta(days=1, microseconds=5))
    yield "tstr0", Rich(t_str="")
    yield "wrapped0", Rich(wrapped=0)
    yield "wrapped7", Rich(wrapped=7)
    yield "wsub0", Rich(w_sub=Sub())
    yield "wsub1", Rich(w_sub=Sub(val=3))
    yield "opt0", Rich(opt=0)
    yield "opt5", Rich(opt=5)
    yield "optsub0", Rich(opt_sub=Sub())
    yield "containers", Rich(items=[0, 1], subs=[Sub(), Sub(name="s")], counts={"k": 0})
    yield "child0", Rich(child=Sub())
    yield "big0", Rich(big=0)
    yield "big", Rich(big=-(2**63))
    yield "raw0", Rich(raw=b"")
    yield "raw", Rich(raw=b"\xff\x00")
    yield "ratio0", Rich(ratio=0.0)
    yield "ratio_nan", Rich(ratio=float("nan"))
    yield "ratio_inf", Rich(ratio=float("-inf"))
    yield "kind0", Rich(kind=Colour.ZERO)
    yield "kind2", Rich(kind=Colour.BLUE)
    yield "inner0", Rich(inner=Msg())
    yield "inner1", Rich(inner=Msg(a_enum=Colour.ZERO, b_sub=Sub(), c_only=0))
    yield "trailing0", Rich(trailing_=0)
    yield "other_u0", Rich(other_u="")
    # histories
    m = Rich(when=datetime(2001, 2, 3, tzinfo=UTC), big=4)
    m.span = timedelta(0)
    m.kind = Colour.ZERO
    yield "hist1", m
    m = copy.deepcopy(m)
    m.t_str = ""
    m.inner = Msg(b_bool=False)
    m.inner.a_str = ""
    yield "hist2", m
    m = pickle.loads(pickle.dumps(m))
    m.wrapped = 0
    m.w_sub = Sub()
    m.opt = 0
    yield "hist3", m
    m = Rich().parse(bytes(m))
    m.from_dict({"ratio": 0.0, "when": "1970-01-01T00:00:00Z", "otherU": ""})
    yield "hist4", m
    m = Rich(when=datetime(1999, 1, 1, tzinfo=UTC), span=timedelta(1), t_str="both")
    yield "ctor_multi", m
    m = copy.copy(m)
    m.when = datetime(1970, 1, 1, tzinfo=UTC)
    yield "ctor_multi_then_set", m


def _snapshot(msg):
    out = []
    for include_defaults in (False, True):
        for casing in (Casing.CAMEL, Casing.SNAKE):
            out.append(repr(msg.to_dict(casing, include_defaults)))
            out.append(repr(msg.to_pydict(casing, include_defaults)))
    out.append(msg.to_json())
    out.append(repr([which_one_of(msg, g)[0] for g in ("t", "w", "_opt", "n", "_os", "u")]))
    return out


GOLDEN = None  # replaced below by the recorded table
# Recorded from the reference tree with this very script (GOLDEN = None prints it).
GOLDEN = {'big': ["{'big': '-9223372036854775808'}",
         "{'big': -9223372036854775808}",
         "{'big': '-9223372036854775808'}",
         "{'big': -9223372036854775808}",
         "{'when': '1970-01-01T00:00:00Z', 'span': '0.000s', 'tStr': '', 'wrapped': None, 'wSub': "
         "{'val': 0, 'name': ''}, 'opt': None, 'items': [], 'subs': [], 'counts': {}, 'child': "
         "{'val': 0, 'name': ''}, 'big': '-9223372036854775808', 'raw': '', 'ratio': 0.0, 'kind': "
         "'ZERO', 'inner': {'plain': 0, 'aInt': 0, 'aStr': '', 'aSub': {'val': 0, 'name': ''}, "
         "'aEnum': 'ZERO', 'label': '', 'bBool': False, 'bBytes': '', 'bSub': {'val': 0, 'name': "
         "''}, 'bDbl': 0.0, 'cOnly': '0'}, 'optSub': None, 'trailing': 0, 'otherU': ''}",
         "{'when': datetime.datetime(1970, 1, 1, 0, 0, tzinfo=datetime.timezone.utc), 'span': "
         "datetime.timedelta(0), 'tStr': '', 'wrapped': None, 'wSub': {'val': 0, 'name': ''}, "
         "'opt': None, 'items': [], 'subs': [], 'counts': {}, 'child': {'val': 0, 'name': ''}, "
         "'big': -9223372036854775808, 'raw': b'', 'ratio': 0.0, 'kind': Colour.ZERO, 'inner': "
         "{'plain': 0, 'aInt': 0, 'aStr': '', 'aSub': {'val': 0, 'name': ''}, 'aEnum': "
         "Colour.ZERO, 'label': '', 'bBool': False, 'bBytes': b'', 'bSub': {'val': 0, 'name': ''}, "
         "'bDbl': 0.0, 'cOnly': 0}, 'optSub': None, 'trailing': 0, 'otherU': ''}",
         "{'when': '1970-01-01T00:00:00Z', 'span': '0.000s', 't_str': '', 'wrapped': None, "
         "'w_sub': {'val': 0, 'name': ''}, 'opt': None, 'items': [], 'subs': [], 'counts': {}, "
         "'child': {'val': 0, 'name': ''}, 'big': '-9223372036854775808', 'raw': '', 'ratio': 0.0, "
         "'kind': 'ZERO', 'inner': {'plain': 0, 'a_int': 0, 'a_str': '', 'a_sub': {'val': 0, "
         "'name': ''}, 'a_enum': 'ZERO', 'label': '', 'b_bool': False, 'b_bytes': '', 'b_sub': "
         "{'val': 0, 'name': ''}, 'b_dbl': 0.0, 'c_only': '0'}, 'opt_sub': None, 'trailing': 0, "
         "'other_u': ''}",
         "{'when': datetime.datetime(1970, 1, 1, 0, 0, tzinfo=datetime.timezone.utc), 'span': "
         "datetime.timedelta(0), 't_str': '', 'wrapped': None, 'w_sub': {'val': 0, 'name': ''}, "
         "'opt': None, 'items': [], 'subs': [], 'counts': {}, 'child': {'val': 0, 'name': ''}, "
         "'big': -9223372036854775808, 'raw': b'', 'ratio': 0.0, 'kind': Colour.ZERO, 'inner': "
         "{'plain': 0, 'a_int': 0, 'a_str': '', 'a_sub': {'val': 0, 'name': ''}, 'a_enum': "
         "Colour.ZERO, 'label': '', 'b_bool': False, 'b_bytes': b'', 'b_sub': {'val': 0, 'name': "
         "''}, 'b_dbl': 0.0, 'c_only': 0}, 'opt_sub': None, 'trailing': 0, 'other_u': ''}",
         '{"big": "-9223372036854775808"}',
         "['', '', '', 'big', '', '']"],
 'big0': ["{'big': '0'}",
          "{'big': 0}",
          "{'big': '0'}",
          "{'big': 0}",
          "{'when': '1970-01-01T00:00:00Z', 'span': '0.000s', 'tStr': '', 'wrapped': None, 'wSub': "
          "{'val': 0, 'name': ''}, 'opt': None, 'items': [], 'subs': [], 'counts': {}, 'child': "
          "{'val': 0, 'name': ''}, 'big': '0', 'raw': '', 'ratio': 0.0, 'kind': 'ZERO', 'inner': "
          "{'plain': 0, 'aInt': 0, 'aStr': '', 'aSub': {'val': 0, 'name': ''}, 'aEnum': 'ZERO', "
          "'label': '', 'bBool': False, 'bBytes': '', 'bSub': {'val': 0, 'name': ''}, 'bDbl': 0.0, "
          "'cOnly': '0'}, 'optSub': None, 'trailing': 0, 'otherU': ''}",
          "{'when': datetime.datetime(1970, 1, 1, 0, 0, tzinfo=datetime.timezone.utc), 'span': "
          "datetime.timedelta(0), 'tStr': '', 'wrapped': None, 'wSub': {'val': 0, 'name': ''}, "
          "'opt': None, 'items': [], 'subs': [], 'counts': {}, 'child': {'val': 0, 'name': ''}, "
          "'big': 0, 'raw': b'', 'ratio': 0.0, 'kind': Colour.ZERO, 'inner': {'plain': 0, 'aInt': "
          "0, 'aStr': '', 'aSub': {'val': 0, 'name': ''}, 'aEnum': Colour.ZERO, 'label': '', "
          "'bBool': False, 'bBytes': b'', 'bSub': {'val': 0, 'name': ''}, 'bDbl': 0.0, 'cOnly': "
          "0}, 'optSub': None, 'trailing': 0, 'otherU': ''}",
          "{'when': '1970-01-01T00:00:00Z', 'span': '0.000s', 't_str': '', 'wrapped': None, "
          "'w_sub': {'val': 0, 'name': ''}, 'opt': None, 'items': [], 'subs': [], 'counts': {}, "
          "'child': {'val': 0, 'name': ''}, 'big': '0', 'raw': '', 'ratio': 0.0, 'kind': 'ZERO', "
          "'inner': {'plain': 0, 'a_int': 0, 'a_str': '', 'a_sub': {'val': 0, 'name': ''}, "
          "'a_enum': 'ZERO', 'label': '', 'b_bool': False, 'b_bytes': '', 'b_sub': {'val': 0, "
          "'name': ''}, 'b_dbl': 0.0, 'c_only': '0'}, 'opt_sub': None, 'trailing': 0, 'other_u': "
          "''}",
          "{'when': datetime.datetime(1970, 1, 1, 0, 0, tzinfo=datetime.timezone.utc), 'span': "
          "datetime.timedelta(0), 't_str': '', 'wrapped': None, 'w_sub': {'val': 0, 'name': ''}, "
          "'opt': None, 'items': [], 'subs': [], 'counts': {}, 'child': {'val': 0, 'name': ''}, "
          "'big': 0, 'raw': b'', 'ratio': 0.0, 'kind': Colour.ZERO, 'inner': {'plain': 0, 'a_int': "
          "0, 'a_str': '', 'a_sub': {'val': 0, 'name': ''}, 'a_enum': Colour.ZERO, 'label': '', "
          "'b_bool': False, 'b_bytes': b'', 'b_sub': {'val': 0, 'name': ''}, 'b_dbl': 0.0, "
          "'c_only': 0}, 'opt_sub': None, 'trailing': 0, 'other_u': ''}",
          '{"big": "0"}',
          "['', '', '', 'big', '', '']"],
 'child0': ['{}',
            '{}',
            '{}',
            '{}',
            "{'when': '1970-01-01T00:00:00Z', 'span': '0.000s', 'tStr': '', 'wrapped': None, "
            "'wSub': {'val': 0, 'name': ''}, 'opt': None, 'items': [], 'subs': [], 'counts': {}, "
            "'child': {'val': 0, 'name': ''}, 'big': '0', 'raw': '', 'ratio': 0.0, 'kind': 'ZERO', "
            "'inner': {'plain': 0, 'aInt': 0, 'aStr': '', 'aSub': {'val': 0, 'name': ''}, 'aEnum': "
            "'ZERO', 'label': '', 'bBool': False, 'bBytes': '', 'bSub': {'val': 0, 'name': ''}, "
            "'bDbl': 0.0, 'cOnly': '0'}, 'optSub': None, 'trailing': 0, 'otherU': ''}",
            "{'when': datetime.datetime(1970, 1, 1, 0, 0, tzinfo=datetime.timezone.utc), 'span': "
            "datetime.timedelta(0), 'tStr': '', 'wrapped': None, 'wSub': {'val': 0, 'name': ''}, "
            "'opt': None, 'items': [], 'subs': [], 'counts': {}, 'child': {'val': 0, 'name': ''}, "
            "'big': 0, 'raw': b'', 'ratio': 0.0, 'kind': Colour.ZERO, 'inner': {'plain': 0, "
            "'aInt': 0, 'aStr': '', 'aSub': {'val': 0, 'name': ''}, 'aEnum': Colour.ZERO, 'label': "
            "'', 'bBool': False, 'bBytes': b'', 'bSub': {'val': 0, 'name': ''}, 'bDbl': 0.0, "
            "'cOnly': 0}, 'optSub': None, 'trailing': 0, 'otherU': ''}",
            "{'when': '1970-01-01T00:00:00Z', 'span': '0.000s', 't_str': '', 'wrapped': None, "
            "'w_sub': {'val': 0, 'name': ''}, 'opt': None, 'items': [], 'subs': [], 'counts': {}, "
            "'child': {'val': 0, 'name': ''}, 'big': '0', 'raw': '', 'ratio': 0.0, 'kind': 'ZERO', "
            "'inner': {'plain': 0, 'a_int': 0, 'a_str': '', 'a_sub': {'val': 0, 'name': ''}, "
            "'a_enum': 'ZERO', 'label': '', 'b_bool': False, 'b_bytes': '', 'b_sub': {'val': 0, "
            "'name': ''}, 'b_dbl': 0.0, 'c_only': '0'}, 'opt_sub': None, 'trailing': 0, 'other_u': "
            "''}",
            "{'when': datetime.datetime(1970, 1, 1, 0, 0, tzinfo=datetime.timezone.utc), 'span': "
            "datetime.timedelta(0), 't_str': '', 'wrapped': None, 'w_sub': {'val': 0, 'name': ''}, "
            "'opt': None, 'items': [], 'subs': [], 'counts': {}, 'child': {'val': 0, 'name': ''}, "
            "'big': 0, 'raw': b'', 'ratio': 0.0, 'kind': Colour.ZERO, 'inner': {'plain': 0, "
            "'a_int': 0, 'a_str': '', 'a_sub': {'val': 0, 'name': ''}, 'a_enum': Colour.ZERO, "
            "'label': '', 'b_bool': False, 'b_bytes': b'', 'b_sub': {'val': 0, 'name': ''}, "
            "'b_dbl': 0.0, 'c_only': 0}, 'opt_sub': None, 'trailing': 0, 'other_u': ''}",
            '{}',
            "['', '', '', '', '', '']"],
 'containers': ["{'items': [0, 1], 'subs': [{}, {'name': 's'}], 'counts': {'k': 0}}",
                "{'items': [0, 1], 'subs': [{}, {'name': 's'}], 'counts': {'k': 0}}",
                "{'items': [0, 1], 'subs': [{}, {'name': 's'}], 'counts': {'k': 0}}",
                "{'items': [0, 1], 'subs': [{}, {'name': 's'}], 'counts': {'k': 0}}",
                "{'when': '1970-01-01T00:00:00Z', 'span': '0.000s', 'tStr': '', 'wrapped': None, "
                "'wSub': {'val': 0, 'name': ''}, 'opt': None, 'items': [0, 1], 'subs': [{'val': 0, "
                "'name': ''}, {'val': 0, 'name': 's'}], 'counts': {'k': 0}, 'child': {'val': 0, "
                "'name': ''}, 'big': '0', 'raw': '', 'ratio': 0.0, 'kind': 'ZERO', 'inner': "
                "{'plain': 0, 'aInt': 0, 'aStr': '', 'aSub': {'val': 0, 'name': ''}, 'aEnum': "
                "'ZERO', 'label': '', 'bBool': False, 'bBytes': '', 'bSub': {'val': 0, 'name': "
                "''}, 'bDbl': 0.0, 'cOnly': '0'}, 'optSub': None, 'trailing': 0, 'otherU': ''}",
                "{'when': datetime.datetime(1970, 1, 1, 0, 0, tzinfo=datetime.timezone.utc), "
                "'span': datetime.timedelta(0), 'tStr': '', 'wrapped': None, 'wSub': {'val': 0, "
                "'name': ''}, 'opt': None, 'items': [0, 1], 'subs': [{'val': 0, 'name': ''}, "
                "{'val': 0, 'name': 's'}], 'counts': {'k': 0}, 'child': {'val': 0, 'name': ''}, "
                "'big': 0, 'raw': b'', 'ratio': 0.0, 'kind': Colour.ZERO, 'inner': {'plain': 0, "
                "'aInt': 0, 'aStr': '', 'aSub': {'val': 0, 'name': ''}, 'aEnum': Colour.ZERO, "
                "'label': '', 'bBool': False, 'bBytes': b'', 'bSub': {'val': 0, 'name': ''}, "
                "'bDbl': 0.0, 'cOnly': 0}, 'optSub': None, 'trailing': 0, 'otherU': ''}",
                "{'when': '1970-01-01T00:00:00Z', 'span': '0.000s', 't_str': '', 'wrapped': None, "
                "'w_sub': {'val': 0, 'name': ''}, 'opt': None, 'items': [0, 1], 'subs': [{'val': "
                "0, 'name': ''}, {'val': 0, 'name': 's'}], 'counts': {'k': 0}, 'child': {'val': 0, "
                "'name': ''}, 'big': '0', 'raw': '', 'ratio': 0.0, 'kind': 'ZERO', 'inner': "
                "{'plain': 0, 'a_int': 0, 'a_str': '', 'a_sub': {'val': 0, 'name': ''}, 'a_enum': "
                "'ZERO', 'label': '', 'b_bool': False, 'b_bytes': '', 'b_sub': {'val': 0, 'name': "
                "''}, 'b_dbl': 0.0, 'c_only': '0'}, 'opt_sub': None, 'trailing': 0, 'other_u': ''}",
                "{'when': datetime.datetime(1970, 1, 1, 0, 0, tzinfo=datetime.timezone.utc), "
                "'span': datetime.timedelta(0), 't_str': '', 'wrapped': None, 'w_sub': {'val': 0, "
                "'name': ''}, 'opt': None, 'items': [0, 1], 'subs': [{'val': 0, 'name': ''}, "
                "{'val': 0, 'name': 's'}], 'counts': {'k': 0}, 'child': {'val': 0, 'name': ''}, "
                "'big': 0, 'raw': b'', 'ratio': 0.0, 'kind': Colour.ZERO, 'inner': {'plain': 0, "
                "'a_int': 0, 'a_str': '', 'a_sub': {'val': 0, 'name': ''}, 'a_enum': Colour.ZERO, "
                "'label': '', 'b_bool': False, 'b_bytes': b'', 'b_sub': {'val': 0, 'name': ''}, "
                "'b_dbl': 0.0, 'c_only': 0}, 'opt_sub': None, 'trailing': 0, 'other_u': ''}",
                '{"items": [0, 1], "subs": [{}, {"name": "s"}], "counts": {"k": 0}}',
                "['', '', '', '', '', '']"],
 'ctor_multi': ["{'tStr': 'both'}",
                "{'tStr': 'both'}",
                "{'t_str': 'both'}",
                "{'t_str': 'both'}",
                "{'when': '1970-01-01T00:00:00Z', 'span': '0.000s', 'tStr': 'both', 'wrapped': "
                "None, 'wSub': {'val': 0, 'name': ''}, 'opt': None, 'items': [], 'subs': [], "
                "'counts': {}, 'child': {'val': 0, 'name': ''}, 'big': '0', 'raw': '', 'ratio': "
                "0.0, 'kind': 'ZERO', 'inner': {'plain': 0, 'aInt': 0, 'aStr': '', 'aSub': {'val': "
                "0, 'name': ''}, 'aEnum': 'ZERO', 'label': '', 'bBool': False, 'bBytes': '', "
                "'bSub': {'val': 0, 'name': ''}, 'bDbl': 0.0, 'cOnly': '0'}, 'optSub': None, "
                "'trailing': 0, 'otherU': ''}",
                "{'when': datetime.datetime(1970, 1, 1, 0, 0, tzinfo=datetime.timezone.utc), "
                "'span': datetime.timedelta(0), 'tStr': 'both', 'wrapped': None, 'wSub': {'val': "
                "0, 'name': ''}, 'opt': None, 'items': [], 'subs': [], 'counts': {}, 'child': "
                "{'val': 0, 'name': ''}, 'big': 0, 'raw': b'', 'ratio': 0.0, 'kind': Colour.ZERO, "
                "'inner': {'plain': 0, 'aInt': 0, 'aStr': '', 'aSub': {'val': 0, 'name': ''}, "
                "'aEnum': Colour.ZERO, 'label': '', 'bBool': False, 'bBytes': b'', 'bSub': {'val': "
                "0, 'name': ''}, 'bDbl': 0.0, 'cOnly': 0}, 'optSub': None, 'trailing': 0, "
                "'otherU': ''}",
                "{'when': '1970-01-01T00:00:00Z', 'span': '0.000s', 't_str': 'both', 'wrapped': "
                "None, 'w_sub': {'val': 0, 'name': ''}, 'opt': None, 'items': [], 'subs': [], "
                "'counts': {}, 'child': {'val': 0, 'name': ''}, 'big': '0', 'raw': '', 'ratio': "
                "0.0, 'kind': 'ZERO', 'inner': {'plain': 0, 'a_int': 0, 'a_str': '', 'a_sub': "
                "{'val': 0, 'name': ''}, 'a_enum': 'ZERO', 'label': '', 'b_bool': False, "
                "'b_bytes': '', 'b_sub': {'val': 0, 'name': ''}, 'b_dbl': 0.0, 'c_only': '0'}, "
                "'opt_sub': None, 'trailing': 0, 'other_u': ''}",
                "{'when': datetime.datetime(1970, 1, 1, 0, 0, tzinfo=datetime.timezone.utc), "
                "'span': datetime.timedelta(0), 't_str': 'both', 'wrapped': None, 'w_sub': {'val': "
                "0, 'name': ''}, 'opt': None, 'items': [], 'subs': [], 'counts': {}, 'child': "
                "{'val': 0, 'name': ''}, 'big': 0, 'raw': b'', 'ratio': 0.0, 'kind': Colour.ZERO, "
                "'inner': {'plain': 0, 'a_int': 0, 'a_str': '', 'a_sub': {'val': 0, 'name': ''}, "
                "'a_enum': Colour.ZERO, 'label': '', 'b_bool': False, 'b_bytes': b'', 'b_sub': "
                "{'val': 0, 'name': ''}, 'b_dbl': 0.0, 'c_only': 0}, 'opt_sub': None, 'trailing': "
                "0, 'other_u': ''}",
                '{"tStr": "both"}',
                "['t_str', '', '', '', '', '']"],
 'ctor_multi_then_set': ["{'when': '1970-01-01T00:00:00Z'}",
                         "{'when': datetime.datetime(1970, 1, 1, 0, 0, "
                         'tzinfo=datetime.timezone.utc)}',
                         "{'when': '1970-01-01T00:00:00Z'}",
                         "{'when': datetime.datetime(1970, 1, 1, 0, 0, "
                         'tzinfo=datetime.timezone.utc)}',
                         "{'when': '1970-01-01T00:00:00Z', 'span': '0.000s', 'tStr': '', "
                         "'wrapped': None, 'wSub': {'val': 0, 'name': ''}, 'opt': None, 'items': "
                         "[], 'subs': [], 'counts': {}, 'child': {'val': 0, 'name': ''}, 'big': "
                         "'0', 'raw': '', 'ratio': 0.0, 'kind': 'ZERO', 'inner': {'plain': 0, "
                         "'aInt': 0, 'aStr': '', 'aSub': {'val': 0, 'name': ''}, 'aEnum': 'ZERO', "
                         "'label': '', 'bBool': False, 'bBytes': '', 'bSub': {'val': 0, 'name': "
                         "''}, 'bDbl': 0.0, 'cOnly': '0'}, 'optSub': None, 'trailing': 0, "
                         "'otherU': ''}",
                         "{'when': datetime.datetime(1970, 1, 1, 0, 0, "
                         "tzinfo=datetime.timezone.utc), 'span': datetime.timedelta(0), 'tStr': "
                         "'', 'wrapped': None, 'wSub': {'val': 0, 'name': ''}, 'opt': None, "
                         "'items': [], 'subs': [], 'counts': {}, 'child': {'val': 0, 'name': ''}, "
                         "'big': 0, 'raw': b'', 'ratio': 0.0, 'kind': Colour.ZERO, 'inner': "
                         "{'plain': 0, 'aInt': 0, 'aStr': '', 'aSub': {'val': 0, 'name': ''}, "
                         "'aEnum': Colour.ZERO, 'label': '', 'bBool': False, 'bBytes': b'', "
                         "'bSub': {'val': 0, 'name': ''}, 'bDbl': 0.0, 'cOnly': 0}, 'optSub': "
                         "None, 'trailing': 0, 'otherU': ''}",
                         "{'when': '1970-01-01T00:00:00Z', 'span': '0.000s', 't_str': '', "
                         "'wrapped': None, 'w_sub': {'val': 0, 'name': ''}, 'opt': None, 'items': "
                         "[], 'subs': [], 'counts': {}, 'child': {'val': 0, 'name': ''}, 'big': "
                         "'0', 'raw': '', 'ratio': 0.0, 'kind': 'ZERO', 'inner': {'plain': 0, "
                         "'a_int': 0, 'a_str': '', 'a_sub': {'val': 0, 'name': ''}, 'a_enum': "
                         "'ZERO', 'label': '', 'b_bool': False, 'b_bytes': '', 'b_sub': {'val': 0, "
                         "'name': ''}, 'b_dbl': 0.0, 'c_only': '0'}, 'opt_sub': None, 'trailing': "
                         "0, 'other_u': ''}",
                         "{'when': datetime.datetime(1970, 1, 1, 0, 0, "
                         "tzinfo=datetime.timezone.utc), 'span': datetime.timedelta(0), 't_str': "
                         "'', 'wrapped': None, 'w_sub': {'val': 0, 'name': ''}, 'opt': None, "
                         "'items': [], 'subs': [], 'counts': {}, 'child': {'val': 0, 'name': ''}, "
                         "'big': 0, 'raw': b'', 'ratio': 0.0, 'kind': Colour.ZERO, 'inner': "
                         "{'plain': 0, 'a_int': 0, 'a_str': '', 'a_sub': {'val': 0, 'name': ''}, "
                         "'a_enum': Colour.ZERO, 'label': '', 'b_bool': False, 'b_bytes': b'', "
                         "'b_sub': {'val': 0, 'name': ''}, 'b_dbl': 0.0, 'c_only': 0}, 'opt_sub': "
                         "None, 'trailing': 0, 'other_u': ''}",
                         '{"when": "1970-01-01T00:00:00Z"}',
                         "['when', '', '', '', '', '']"],
 'empty': ['{}',
           '{}',
           '{}',
           '{}',
           "{'when': '1970-01-01T00:00:00Z', 'span': '0.000s', 'tStr': '', 'wrapped': None, "
           "'wSub': {'val': 0, 'name': ''}, 'opt': None, 'items': [], 'subs': [], 'counts': {}, "
           "'child': {'val': 0, 'name': ''}, 'big': '0', 'raw': '', 'ratio': 0.0, 'kind': 'ZERO', "
           "'inner': {'plain': 0, 'aInt': 0, 'aStr': '', 'aSub': {'val': 0, 'name': ''}, 'aEnum': "
           "'ZERO', 'label': '', 'bBool': False, 'bBytes': '', 'bSub': {'val': 0, 'name': ''}, "
           "'bDbl': 0.0, 'cOnly': '0'}, 'optSub': None, 'trailing': 0, 'otherU': ''}",
           "{'when': datetime.datetime(1970, 1, 1, 0, 0, tzinfo=datetime.timezone.utc), 'span': "
           "datetime.timedelta(0), 'tStr': '', 'wrapped': None, 'wSub': {'val': 0, 'name': ''}, "
           "'opt': None, 'items': [], 'subs': [], 'counts': {}, 'child': {'val': 0, 'name': ''}, "
           "'big': 0, 'raw': b'', 'ratio': 0.0, 'kind': Colour.ZERO, 'inner': {'plain': 0, 'aInt': "
           "0, 'aStr': '', 'aSub': {'val': 0, 'name': ''}, 'aEnum': Colour.ZERO, 'label': '', "
           "'bBool': False, 'bBytes': b'', 'bSub': {'val': 0, 'name': ''}, 'bDbl': 0.0, 'cOnly': "
           "0}, 'optSub': None, 'trailing': 0, 'otherU': ''}",
           "{'when': '1970-01-01T00:00:00Z', 'span': '0.000s', 't_str': '', 'wrapped': None, "
           "'w_sub': {'val': 0, 'name': ''}, 'opt': None, 'items': [], 'subs': [], 'counts': {}, "
           "'child': {'val': 0, 'name': ''}, 'big': '0', 'raw': '', 'ratio': 0.0, 'kind': 'ZERO', "
           "'inner': {'plain': 0, 'a_int': 0, 'a_str': '', 'a_sub': {'val': 0, 'name': ''}, "
           "'a_enum': 'ZERO', 'label': '', 'b_bool': False, 'b_bytes': '', 'b_sub': {'val': 0, "
           "'name': ''}, 'b_dbl': 0.0, 'c_only': '0'}, 'opt_sub': None, 'trailing': 0, 'other_u': "
           "''}",
           "{'when': datetime.datetime(1970, 1, 1, 0, 0, tzinfo=datetime.timezone.utc), 'span': "
           "datetime.timedelta(0), 't_str': '', 'wrapped': None, 'w_sub': {'val': 0, 'name': ''}, "
           "'opt': None, 'items': [], 'subs': [], 'counts': {}, 'child': {'val': 0, 'name': ''}, "
           "'big': 0, 'raw': b'', 'ratio': 0.0, 'kind': Colour.ZERO, 'inner': {'plain': 0, "
           "'a_int': 0, 'a_str': '', 'a_sub': {'val': 0, 'name': ''}, 'a_enum': Colour.ZERO, "
           "'label': '', 'b_bool': False, 'b_bytes': b'', 'b_sub': {'val': 0, 'name': ''}, "
           "'b_dbl': 0.0, 'c_only': 0}, 'opt_sub': None, 'trailing': 0, 'other_u': ''}",
           '{}',
           "['', '', '', '', '', '']"],
 'hist1': ["{'span': '0.000s', 'kind': 'ZERO'}",
           "{'span': datetime.timedelta(0), 'kind': Colour.ZERO}",
           "{'span': '0.000s', 'kind': 'ZERO'}",
           "{'span': datetime.timedelta(0), 'kind': Colour.ZERO}",
           "{'when': '1970-01-01T00:00:00Z', 'span': '0.000s', 'tStr': '', 'wrapped': None, "
           "'wSub': {'val': 0, 'name': ''}, 'opt': None, 'items': [], 'subs': [], 'counts': {}, "
           "'child': {'val': 0, 'name': ''}, 'big': '0', 'raw': '', 'ratio': 0.0, 'kind': 'ZERO', "
           "'inner': {'plain': 0, 'aInt': 0, 'aStr': '', 'aSub': {'val': 0, 'name': ''}, 'aEnum': "
           "'ZERO', 'label': '', 'bBool': False, 'bBytes': '', 'bSub': {'val': 0, 'name': ''}, "
           "'bDbl': 0.0, 'cOnly': '0'}, 'optSub': None, 'trailing': 0, 'otherU': ''}",
           "{'when': datetime.datetime(1970, 1, 1, 0, 0, tzinfo=datetime.timezone.utc), 'span': "
           "datetime.timedelta(0), 'tStr': '', 'wrapped': None, 'wSub': {'val': 0, 'name': ''}, "
           "'opt': None, 'items': [], 'subs': [], 'counts': {}, 'child': {'val': 0, 'name': ''}, "
           "'big': 0, 'raw': b'', 'ratio': 0.0, 'kind': Colour.ZERO, 'inner': {'plain': 0, 'aInt': "
           "0, 'aStr': '', 'aSub': {'val': 0, 'name': ''}, 'aEnum': Colour.ZERO, 'label': '', "
           "'bBool': False, 'bBytes': b'', 'bSub': {'val': 0, 'name': ''}, 'bDbl': 0.0, 'cOnly': "
           "0}, 'optSub': None, 'trailing': 0, 'otherU': ''}",
           "{'when': '1970-01-01T00:00:00Z', 'span': '0.000s', 't_str': '', 'wrapped': None, "
           "'w_sub': {'val': 0, 'name': ''}, 'opt': None, 'items': [], 'subs': [], 'counts': {}, "
           "'child': {'val': 0, 'name': ''}, 'big': '0', 'raw': '', 'ratio': 0.0, 'kind': 'ZERO', "
           "'inner': {'plain': 0, 'a_int': 0, 'a_str': '', 'a_sub': {'val': 0, 'name': ''}, "
           "'a_enum': 'ZERO', 'label': '', 'b_bool': False, 'b_bytes': '', 'b_sub': {'val': 0, "
           "'name': ''}, 'b_dbl': 0.0, 'c_only': '0'}, 'opt_sub': None, 'trailing': 0, 'other_u': "
           "''}",
           "{'when': datetime.datetime(1970, 1, 1, 0, 0, tzinfo=datetime.timezone.utc), 'span': "
           "datetime.timedelta(0), 't_str': '', 'wrapped': None, 'w_sub': {'val': 0, 'name': ''}, "
           "'opt': None, 'items': [], 'subs': [], 'counts': {}, 'child': {'val': 0, 'name': ''}, "
           "'big': 0, 'raw': b'', 'ratio': 0.0, 'kind': Colour.ZERO, 'inner': {'plain': 0, "
           "'a_int': 0, 'a_str': '', 'a_sub': {'val': 0, 'name': ''}, 'a_enum': Colour.ZERO, "
           "'label': '', 'b_bool': False, 'b_bytes': b'', 'b_sub': {'val': 0, 'name': ''}, "
           "'b_dbl': 0.0, 'c_only': 0}, 'opt_sub': None, 'trailing': 0, 'other_u': ''}",
           '{"span": "0.000s", "kind": "ZERO"}',
           "['span', '', '', 'kind', '', '']"],
 'hist2': ["{'tStr': '', 'inner': {'aStr': '', 'bBool': False}}",
           "{'tStr': '', 'inner': {'aStr': '', 'bBool': False}}",
           "{'t_str': '', 'inner': {'a_str': '', 'b_bool': False}}",
           "{'t_str': '', 'inner': {'a_str': '', 'b_bool': False}}",
           "{'when': '1970-01-01T00:00:00Z', 'span': '0.000s', 'tStr': '', 'wrapped': None, "
           "'wSub': {'val': 0, 'name': ''}, 'opt': None, 'items': [], 'subs': [], 'counts': {}, "
           "'child': {'val': 0, 'name': ''}, 'big': '0', 'raw': '', 'ratio': 0.0, 'kind': 'ZERO', "
           "'inner': {'plain': 0, 'aInt': 0, 'aStr': '', 'aSub': {'val': 0, 'name': ''}, 'aEnum': "
           "'ZERO', 'label': '', 'bBool': False, 'bBytes': '', 'bSub': {'val': 0, 'name': ''}, "
           "'bDbl': 0.0, 'cOnly': '0'}, 'optSub': None, 'trailing': 0, 'otherU': ''}",
           "{'when': datetime.datetime(1970, 1, 1, 0, 0, tzinfo=datetime.timezone.utc), 'span': "
           "datetime.timedelta(0), 'tStr': '', 'wrapped': None, 'wSub': {'val': 0, 'name': ''}, "
           "'opt': None, 'items': [], 'subs': [], 'counts': {}, 'child': {'val': 0, 'name': ''}, "
           "'big': 0, 'raw': b'', 'ratio': 0.0, 'kind': Colour.ZERO, 'inner': {'plain': 0, 'aInt': "
           "0, 'aStr': '', 'aSub': {'val': 0, 'name': ''}, 'aEnum': Colour.ZERO, 'label': '', "
           "'bBool': False, 'bBytes': b'', 'bSub': {'val': 0, 'name': ''}, 'bDbl': 0.0, 'cOnly': "
           "0}, 'optSub': None, 'trailing': 0, 'otherU': ''}",
           "{'when': '1970-01-01T00:00:00Z', 'span': '0.000s', 't_str': '', 'wrapped': None, "
           "'w_sub': {'val': 0, 'name': ''}, 'opt': None, 'items': [], 'subs': [], 'counts': {}, "
           "'child': {'val': 0, 'name': ''}, 'big': '0', 'raw': '', 'ratio': 0.0, 'kind': 'ZERO', "
           "'inner': {'plain': 0, 'a_int': 0, 'a_str': '', 'a_sub': {'val': 0, 'name': ''}, "
           "'a_enum': 'ZERO', 'label': '', 'b_bool': False, 'b_bytes': '', 'b_sub': {'val': 0, "
           "'name': ''}, 'b_dbl': 0.0, 'c_only': '0'}, 'opt_sub': None, 'trailing': 0, 'other_u': "
           "''}",
           "{'when': datetime.datetime(1970, 1, 1, 0, 0, tzinfo=datetime.timezone.utc), 'span': "
           "datetime.timedelta(0), 't_str': '', 'wrapped': None, 'w_sub': {'val': 0, 'name': ''}, "
           "'opt': None, 'items': [], 'subs': [], 'counts': {}, 'child': {'val': 0, 'name': ''}, "
           "'big': 0, 'raw': b'', 'ratio': 0.0, 'kind': Colour.ZERO, 'inner': {'plain': 0, "
           "'a_int': 0, 'a_str': '', 'a_sub': {'val': 0, 'name': ''}, 'a_enum': Colour.ZERO, "
           "'label': '', 'b_bool': False, 'b_bytes': b'', 'b_sub': {'val': 0, 'name': ''}, "
           "'b_dbl': 0.0, 'c_only': 0}, 'opt_sub': None, 'trailing': 0, 'other_u': ''}",
           '{"tStr": "", "inner": {"aStr": "", "bBool": false}}',
           "['t_str', '', '', 'inner', '', '']"],
 'hist3': ["{'tStr': '', 'wSub': {}, 'opt': 0, 'inner': {'aStr': '', 'bBool': False}}",
           "{'tStr': '', 'wSub': {}, 'opt': 0, 'inner': {'aStr': '', 'bBool': False}}",
           "{'t_str': '', 'w_sub': {}, 'opt': 0, 'inner': {'a_str': '', 'b_bool': False}}",
           "{'t_str': '', 'w_sub': {}, 'opt': 0, 'inner': {'a_str': '', 'b_bool': False}}",
           "{'when': '1970-01-01T00:00:00Z', 'span': '0.000s', 'tStr': '', 'wrapped': None, "
           "'wSub': {'val': 0, 'name': ''}, 'opt': 0, 'items': [], 'subs': [], 'counts': {}, "
           "'child': {'val': 0, 'name': ''}, 'big': '0', 'raw': '', 'ratio': 0.0, 'kind': 'ZERO', "
           "'inner': {'plain': 0, 'aInt': 0, 'aStr': '', 'aSub': {'val': 0, 'name': ''}, 'aEnum': "
           "'ZERO', 'label': '', 'bBool': False, 'bBytes': '', 'bSub': {'val': 0, 'name': ''}, "
           "'bDbl': 0.0, 'cOnly': '0'}, 'optSub': None, 'trailing': 0, 'otherU': ''}",
           "{'when': datetime.datetime(1970, 1, 1, 0, 0, tzinfo=datetime.timezone.utc), 'span': "
           "datetime.timedelta(0), 'tStr': '', 'wrapped': None, 'wSub': {'val': 0, 'name': ''}, "
           "'opt': 0, 'items': [], 'subs': [], 'counts': {}, 'child': {'val': 0, 'name': ''}, "
           "'big': 0, 'raw': b'', 'ratio': 0.0, 'kind': Colour.ZERO, 'inner': {'plain': 0, 'aInt': "
           "0, 'aStr': '', 'aSub': {'val': 0, 'name': ''}, 'aEnum': Colour.ZERO, 'label': '', "
           "'bBool': False, 'bBytes': b'', 'bSub': {'val': 0, 'name': ''}, 'bDbl': 0.0, 'cOnly': "
           "0}, 'optSub': None, 'trailing': 0, 'otherU': ''}",
           "{'when': '1970-01-01T00:00:00Z', 'span': '0.000s', 't_str': '', 'wrapped': None, "
           "'w_sub': {'val': 0, 'name': ''}, 'opt': 0, 'items': [], 'subs': [], 'counts': {}, "
           "'child': {'val': 0, 'name': ''}, 'big': '0', 'raw': '', 'ratio': 0.0, 'kind': 'ZERO', "
           "'inner': {'plain': 0, 'a_int': 0, 'a_str': '', 'a_sub': {'val': 0, 'name': ''}, "
           "'a_enum': 'ZERO', 'label': '', 'b_bool': False, 'b_bytes': '', 'b_sub': {'val': 0, "
           "'name': ''}, 'b_dbl': 0.0, 'c_only': '0'}, 'opt_sub': None, 'trailing': 0, 'other_u': "
           "''}",
           "{'when': datetime.datetime(1970, 1, 1, 0, 0, tzinfo=datetime.timezone.utc), 'span': "
           "datetime.timedelta(0), 't_str': '', 'wrapped': None, 'w_sub': {'val': 0, 'name': ''}, "
           "'opt': 0, 'items': [], 'subs': [], 'counts': {}, 'child': {'val': 0, 'name': ''}, "
           "'big': 0, 'raw': b'', 'ratio': 0.0, 'kind': Colour.ZERO, 'inner': {'plain': 0, "
           "'a_int': 0, 'a_str': '', 'a_sub': {'val': 0, 'name': ''}, 'a_enum': Colour.ZERO, "
           "'label': '', 'b_bool': False, 'b_bytes': b'', 'b_sub': {'val': 0, 'name': ''}, "
           "'b_dbl': 0.0, 'c_only': 0}, 'opt_sub': None, 'trailing': 0, 'other_u': ''}",
           '{"tStr": "", "wSub": {}, "opt": 0, "inner": {"aStr": "", "bBool": false}}',
           "['t_str', 'w_sub', 'opt', 'inner', '', '']"],
 'hist4': ["{'when': '1970-01-01T00:00:00Z', 'wSub': {}, 'opt': 0, 'ratio': 0.0, 'otherU': ''}",
           "{'when': datetime.datetime(1970, 1, 1, 0, 0, tzinfo=tzutc()), 'wSub': {}, 'opt': 0, "
           "'ratio': 0.0, 'otherU': ''}",
           "{'when': '1970-01-01T00:00:00Z', 'w_sub': {}, 'opt': 0, 'ratio': 0.0, 'other_u': ''}",
           "{'when': datetime.datetime(1970, 1, 1, 0, 0, tzinfo=tzutc()), 'w_sub': {}, 'opt': 0, "
           "'ratio': 0.0, 'other_u': ''}",
           "{'when': '1970-01-01T00:00:00Z', 'span': '0.000s', 'tStr': '', 'wrapped': None, "
           "'wSub': {'val': 0, 'name': ''}, 'opt': 0, 'items': [], 'subs': [], 'counts': {}, "
           "'child': {'val': 0, 'name': ''}, 'big': '0', 'raw': '', 'ratio': 0.0, 'kind': 'ZERO', "
           "'inner': {'plain': 0, 'aInt': 0, 'aStr': '', 'aSub': {'val': 0, 'name': ''}, 'aEnum': "
           "'ZERO', 'label': '', 'bBool': False, 'bBytes': '', 'bSub': {'val': 0, 'name': ''}, "
           "'bDbl': 0.0, 'cOnly': '0'}, 'optSub': None, 'trailing': 0, 'otherU': ''}",
           "{'when': datetime.datetime(1970, 1, 1, 0, 0, tzinfo=tzutc()), 'span': "
           "datetime.timedelta(0), 'tStr': '', 'wrapped': None, 'wSub': {'val': 0, 'name': ''}, "
           "'opt': 0, 'items': [], 'subs': [], 'counts': {}, 'child': {'val': 0, 'name': ''}, "
           "'big': 0, 'raw': b'', 'ratio': 0.0, 'kind': Colour.ZERO, 'inner': {'plain': 0, 'aInt': "
           "0, 'aStr': '', 'aSub': {'val': 0, 'name': ''}, 'aEnum': Colour.ZERO, 'label': '', "
           "'bBool': False, 'bBytes': b'', 'bSub': {'val': 0, 'name': ''}, 'bDbl': 0.0, 'cOnly': "
           "0}, 'optSub': None, 'trailing': 0, 'otherU': ''}",
           "{'when': '1970-01-01T00:00:00Z', 'span': '0.000s', 't_str': '', 'wrapped': None, "
           "'w_sub': {'val': 0, 'name': ''}, 'opt': 0, 'items': [], 'subs': [], 'counts': {}, "
           "'child': {'val': 0, 'name': ''}, 'big': '0', 'raw': '', 'ratio': 0.0, 'kind': 'ZERO', "
           "'inner': {'plain': 0, 'a_int': 0, 'a_str': '', 'a_sub': {'val': 0, 'name': ''}, "
           "'a_enum': 'ZERO', 'label': '', 'b_bool': False, 'b_bytes': '', 'b_sub': {'val': 0, "
           "'name': ''}, 'b_dbl': 0.0, 'c_only': '0'}, 'opt_sub': None, 'trailing': 0, 'other_u': "
           "''}",
           "{'when': datetime.datetime(1970, 1, 1, 0, 0, tzinfo=tzutc()), 'span': "
           "datetime.timedelta(0), 't_str': '', 'wrapped': None, 'w_sub': {'val': 0, 'name': ''}, "
           "'opt': 0, 'items': [], 'subs': [], 'counts': {}, 'child': {'val': 0, 'name': ''}, "
           "'big': 0, 'raw': b'', 'ratio': 0.0, 'kind': Colour.ZERO, 'inner': {'plain': 0, "
           "'a_int': 0, 'a_str': '', 'a_sub': {'val': 0, 'name': ''}, 'a_enum': Colour.ZERO, "
           "'label': '', 'b_bool': False, 'b_bytes': b'', 'b_sub': {'val': 0, 'name': ''}, "
           "'b_dbl': 0.0, 'c_only': 0}, 'opt_sub': None, 'trailing': 0, 'other_u': ''}",
           '{"when": "1970-01-01T00:00:00Z", "wSub": {}, "opt": 0, "ratio": 0.0, "otherU": ""}',
           "['when', 'w_sub', 'opt', 'ratio', '', 'other_u']"],
 'inner0': ["{'inner': {}}",
            "{'inner': {}}",
            "{'inner': {}}",
            "{'inner': {}}",
            "{'when': '1970-01-01T00:00:00Z', 'span': '0.000s', 'tStr': '', 'wrapped': None, "
            "'wSub': {'val': 0, 'name': ''}, 'opt': None, 'items': [], 'subs': [], 'counts': {}, "
            "'child': {'val': 0, 'name': ''}, 'big': '0', 'raw': '', 'ratio': 0.0, 'kind': 'ZERO', "
            "'inner': {'plain': 0, 'aInt': 0, 'aStr': '', 'aSub': {'val': 0, 'name': ''}, 'aEnum': "
            "'ZERO', 'label': '', 'bBool': False, 'bBytes': '', 'bSub': {'val': 0, 'name': ''}, "
            "'bDbl': 0.0, 'cOnly': '0'}, 'optSub': None, 'trailing': 0, 'otherU': ''}",
            "{'when': datetime.datetime(1970, 1, 1, 0, 0, tzinfo=datetime.timezone.utc), 'span': "
            "datetime.timedelta(0), 'tStr': '', 'wrapped': None, 'wSub': {'val': 0, 'name': ''}, "
            "'opt': None, 'items': [], 'subs': [], 'counts': {}, 'child': {'val': 0, 'name': ''}, "
            "'big': 0, 'raw': b'', 'ratio': 0.0, 'kind': Colour.ZERO, 'inner': {'plain': 0, "
            "'aInt': 0, 'aStr': '', 'aSub': {'val': 0, 'name': ''}, 'aEnum': Colour.ZERO, 'label': "
            "'', 'bBool': False, 'bBytes': b'', 'bSub': {'val': 0, 'name': ''}, 'bDbl': 0.0, "
            "'cOnly': 0}, 'optSub': None, 'trailing': 0, 'otherU': ''}",
            "{'when': '1970-01-01T00:00:00Z', 'span': '0.000s', 't_str': '', 'wrapped': None, "
            "'w_sub': {'val': 0, 'name': ''}, 'opt': None, 'items': [], 'subs': [], 'counts': {}, "
            "'child': {'val': 0, 'name': ''}, 'big': '0', 'raw': '', 'ratio': 0.0, 'kind': 'ZERO', "
            "'inner': {'plain': 0, 'a_int': 0, 'a_str': '', 'a_sub': {'val': 0, 'name': ''}, "
            "'a_enum': 'ZERO', 'label': '', 'b_bool': False, 'b_bytes': '', 'b_sub': {'val': 0, "
            "'name': ''}, 'b_dbl': 0.0, 'c_only': '0'}, 'opt_sub': None, 'trailing': 0, 'other_u': "
            "''}",
            "{'when': datetime.datetime(1970, 1, 1, 0, 0, tzinfo=datetime.timezone.utc), 'span': "
            "datetime.timedelta(0), 't_str': '', 'wrapped': None, 'w_sub': {'val': 0, 'name': ''}, "
            "'opt': None, 'items': [], 'subs': [], 'counts': {}, 'child': {'val': 0, 'name': ''}, "
            "'big': 0, 'raw': b'', 'ratio': 0.0, 'kind': Colour.ZERO, 'inner': {'plain': 0, "
            "'a_int': 0, 'a_str': '', 'a_sub': {'val': 0, 'name': ''}, 'a_enum': Colour.ZERO, "
            "'label': '', 'b_bool': False, 'b_bytes': b'', 'b_sub': {'val': 0, 'name': ''}, "
            "'b_dbl': 0.0, 'c_only': 0}, 'opt_sub': None, 'trailing': 0, 'other_u': ''}",
            '{"inner": {}}',
            "['', '', '', 'inner', '', '']"],
 'inner1': ["{'inner': {'aEnum': 'ZERO', 'bSub': {}, 'cOnly': '0'}}",
            "{'inner': {'aEnum': Colour.ZERO, 'bSub': {}, 'cOnly': 0}}",
            "{'inner': {'a_enum': 'ZERO', 'b_sub': {}, 'c_only': '0'}}",
            "{'inner': {'a_enum': Colour.ZERO, 'b_sub': {}, 'c_only': 0}}",
            "{'when': '1970-01-01T00:00:00Z', 'span': '0.000s', 'tStr': '', 'wrapped': None, "
            "'wSub': {'val': 0, 'name': ''}, 'opt': None, 'items': [], 'subs': [], 'counts': {}, "
            "'child': {'val': 0, 'name': ''}, 'big': '0', 'raw': '', 'ratio': 0.0, 'kind': 'ZERO', "
            "'inner': {'plain': 0, 'aInt': 0, 'aStr': '', 'aSub': {'val': 0, 'name': ''}, 'aEnum': "
            "'ZERO', 'label': '', 'bBool': False, 'bBytes': '', 'bSub': {'val': 0, 'name': ''}, "
            "'bDbl': 0.0, 'cOnly': '0'}, 'optSub': None, 'trailing': 0, 'otherU': ''}",
            "{'when': datetime.datetime(1970, 1, 1, 0, 0, tzinfo=datetime.timezone.utc), 'span': "
            "datetime.timedelta(0), 'tStr': '', 'wrapped': None, 'wSub': {'val': 0, 'name': ''}, "
            "'opt': None, 'items': [], 'subs': [], 'counts': {}, 'child': {'val': 0, 'name': ''}, "
            "'big': 0, 'raw': b'', 'ratio': 0.0, 'kind': Colour.ZERO, 'inner': {'plain': 0, "
            "'aInt': 0, 'aStr': '', 'aSub': {'val': 0, 'name': ''}, 'aEnum': Colour.ZERO, 'label': "
            "'', 'bBool': False, 'bBytes': b'', 'bSub': {'val': 0, 'name': ''}, 'bDbl': 0.0, "
            "'cOnly': 0}, 'optSub': None, 'trailing': 0, 'otherU': ''}",
            "{'when': '1970-01-01T00:00:00Z', 'span': '0.000s', 't_str': '', 'wrapped': None, "
            "'w_sub': {'val': 0, 'name': ''}, 'opt': None, 'items': [], 'subs': [], 'counts': {}, "
            "'child': {'val': 0, 'name': ''}, 'big': '0', 'raw': '', 'ratio': 0.0, 'kind': 'ZERO', "
            "'inner': {'plain': 0, 'a_int': 0, 'a_str': '', 'a_sub': {'val': 0, 'name': ''}, "
            "'a_enum': 'ZERO', 'label': '', 'b_bool': False, 'b_bytes': '', 'b_sub': {'val': 0, "
            "'name': ''}, 'b_dbl': 0.0, 'c_only': '0'}, 'opt_sub': None, 'trailing': 0, 'other_u': "
            "''}",
            "{'when': datetime.datetime(1970, 1, 1, 0, 0, tzinfo=datetime.timezone.utc), 'span': "
            "datetime.timedelta(0), 't_str': '', 'wrapped': None, 'w_sub': {'val': 0, 'name': ''}, "
            "'opt': None, 'items': [], 'subs': [], 'counts': {}, 'child': {'val': 0, 'name': ''}, "
            "'big': 0, 'raw': b'', 'ratio': 0.0, 'kind': Colour.ZERO, 'inner': {'plain': 0, "
            "'a_int': 0, 'a_str': '', 'a_sub': {'val': 0, 'name': ''}, 'a_enum': Colour.ZERO, "
            "'label': '', 'b_bool': False, 'b_bytes': b'', 'b_sub': {'val': 0, 'name': ''}, "
            "'b_dbl': 0.0, 'c_only': 0}, 'opt_sub': None, 'trailing': 0, 'other_u': ''}",
            '{"inner": {"aEnum": "ZERO", "bSub": {}, "cOnly": "0"}}',
            "['', '', '', 'inner', '', '']"],
 'kind0': ["{'kind': 'ZERO'}",
           "{'kind': Colour.ZERO}",
           "{'kind': 'ZERO'}",
           "{'kind': Colour.ZERO}",
           "{'when': '1970-01-01T00:00:00Z', 'span': '0.000s', 'tStr': '', 'wrapped': None, "
           "'wSub': {'val': 0, 'name': ''}, 'opt': None, 'items': [], 'subs': [], 'counts': {}, "
           "'child': {'val': 0, 'name': ''}, 'big': '0', 'raw': '', 'ratio': 0.0, 'kind': 'ZERO', "
           "'inner': {'plain': 0, 'aInt': 0, 'aStr': '', 'aSub': {'val': 0, 'name': ''}, 'aEnum': "
           "'ZERO', 'label': '', 'bBool': False, 'bBytes': '', 'bSub': {'val': 0, 'name': ''}, "
           "'bDbl': 0.0, 'cOnly': '0'}, 'optSub': None, 'trailing': 0, 'otherU': ''}",
           "{'when': datetime.datetime(1970, 1, 1, 0, 0, tzinfo=datetime.timezone.utc), 'span': "
           "datetime.timedelta(0), 'tStr': '', 'wrapped': None, 'wSub': {'val': 0, 'name': ''}, "
           "'opt': None, 'items': [], 'subs': [], 'counts': {}, 'child': {'val': 0, 'name': ''}, "
           "'big': 0, 'raw': b'', 'ratio': 0.0, 'kind': Colour.ZERO, 'inner': {'plain': 0, 'aInt': "
           "0, 'aStr': '', 'aSub': {'val': 0, 'name': ''}, 'aEnum': Colour.ZERO, 'label': '', "
           "'bBool': False, 'bBytes': b'', 'bSub': {'val': 0, 'name': ''}, 'bDbl': 0.0, 'cOnly': "
           "0}, 'optSub': None, 'trailing': 0, 'otherU': ''}",
           "{'when': '1970-01-01T00:00:00Z', 'span': '0.000s', 't_str': '', 'wrapped': None, "
           "'w_sub': {'val': 0, 'name': ''}, 'opt': None, 'items': [], 'subs': [], 'counts': {}, "
           "'child': {'val': 0, 'name': ''}, 'big': '0', 'raw': '', 'ratio': 0.0, 'kind': 'ZERO', "
           "'inner': {'plain': 0, 'a_int': 0, 'a_str': '', 'a_sub': {'val': 0, 'name': ''}, "
           "'a_enum': 'ZERO', 'label': '', 'b_bool': False, 'b_bytes': '', 'b_sub': {'val': 0, "
           "'name': ''}, 'b_dbl': 0.0, 'c_only': '0'}, 'opt_sub': None, 'trailing': 0, 'other_u': "
           "''}",
           "{'when': datetime.datetime(1970, 1, 1, 0, 0, tzinfo=datetime.timezone.utc), 'span': "
           "datetime.timedelta(0), 't_str': '', 'wrapped': None, 'w_sub': {'val': 0, 'name': ''}, "
           "'opt': None, 'items': [], 'subs': [], 'counts': {}, 'child': {'val': 0, 'name': ''}, "
           "'big': 0, 'raw': b'', 'ratio': 0.0, 'kind': Colour.ZERO, 'inner': {'plain': 0, "
           "'a_int': 0, 'a_str': '', 'a_sub': {'val': 0, 'name': ''}, 'a_enum': Colour.ZERO, "
           "'label': '', 'b_bool': False, 'b_bytes': b'', 'b_sub': {'val': 0, 'name': ''}, "
           "'b_dbl': 0.0, 'c_only': 0}, 'opt_sub': None, 'trailing': 0, 'other_u': ''}",
           '{"kind": "ZERO"}',
           "['', '', '', 'kind', '', '']"],
 'kind2': ["{'kind': 'BLUE'}",
           "{'kind': Colour.BLUE}",
           "{'kind': 'BLUE'}",
           "{'kind': Colour.BLUE}",
           "{'when': '1970-01-01T00:00:00Z', 'span': '0.000s', 'tStr': '', 'wrapped': None, "
           "'wSub': {'val': 0, 'name': ''}, 'opt': None, 'items': [], 'subs': [], 'counts': {}, "
           "'child': {'val': 0, 'name': ''}, 'big': '0', 'raw': '', 'ratio': 0.0, 'kind': 'BLUE', "
           "'inner': {'plain': 0, 'aInt': 0, 'aStr': '', 'aSub': {'val': 0, 'name': ''}, 'aEnum': "
           "'ZERO', 'label': '', 'bBool': False, 'bBytes': '', 'bSub': {'val': 0, 'name': ''}, "
           "'bDbl': 0.0, 'cOnly': '0'}, 'optSub': None, 'trailing': 0, 'otherU': ''}",
           "{'when': datetime.datetime(1970, 1, 1, 0, 0, tzinfo=datetime.timezone.utc), 'span': "
           "datetime.timedelta(0), 'tStr': '', 'wrapped': None, 'wSub': {'val': 0, 'name': ''}, "
           "'opt': None, 'items': [], 'subs': [], 'counts': {}, 'child': {'val': 0, 'name': ''}, "
           "'big': 0, 'raw': b'', 'ratio': 0.0, 'kind': Colour.BLUE, 'inner': {'plain': 0, 'aInt': "
           "0, 'aStr': '', 'aSub': {'val': 0, 'name': ''}, 'aEnum': Colour.ZERO, 'label': '', "
           "'bBool': False, 'bBytes': b'', 'bSub': {'val': 0, 'name': ''}, 'bDbl': 0.0, 'cOnly': "
           "0}, 'optSub': None, 'trailing': 0, 'otherU': ''}",
           "{'when': '1970-01-01T00:00:00Z', 'span': '0.000s', 't_str': '', 'wrapped': None, "
           "'w_sub': {'val': 0, 'name': ''}, 'opt': None, 'items': [], 'subs': [], 'counts': {}, "
           "'child': {'val': 0, 'name': ''}, 'big': '0', 'raw': '', 'ratio': 0.0, 'kind': 'BLUE', "
           "'inner': {'plain': 0, 'a_int': 0, 'a_str': '', 'a_sub': {'val': 0, 'name': ''}, "
           "'a_enum': 'ZERO', 'label': '', 'b_bool': False, 'b_bytes': '', 'b_sub': {'val': 0, "
           "'name': ''}, 'b_dbl': 0.0, 'c_only': '0'}, 'opt_sub': None, 'trailing': 0, 'other_u': "
           "''}",
           "{'when': datetime.datetime(1970, 1, 1, 0, 0, tzinfo=datetime.timezone.utc), 'span': "
           "datetime.timedelta(0), 't_str': '', 'wrapped': None, 'w_sub': {'val': 0, 'name': ''}, "
           "'opt': None, 'items': [], 'subs': [], 'counts': {}, 'child': {'val': 0, 'name': ''}, "
           "'big': 0, 'raw': b'', 'ratio': 0.0, 'kind': Colour.BLUE, 'inner': {'plain': 0, "
           "'a_int': 0, 'a_str': '', 'a_sub': {'val': 0, 'name': ''}, 'a_enum': Colour.ZERO, "
           "'label': '', 'b_bool': False, 'b_bytes': b'', 'b_sub': {'val': 0, 'name': ''}, "
           "'b_dbl': 0.0, 'c_only': 0}, 'opt_sub': None, 'trailing': 0, 'other_u': ''}",
           '{"kind": "BLUE"}',
           "['', '', '', 'kind', '', '']"],
 'opt0': ["{'opt': 0}",
          "{'opt': 0}",
          "{'opt': 0}",
          "{'opt': 0}",
          "{'when': '1970-01-01T00:00:00Z', 'span': '0.000s', 'tStr': '', 'wrapped': None, 'wSub': "
          "{'val': 0, 'name': ''}, 'opt': 0, 'items': [], 'subs': [], 'counts': {}, 'child': "
          "{'val': 0, 'name': ''}, 'big': '0', 'raw': '', 'ratio': 0.0, 'kind': 'ZERO', 'inner': "
          "{'plain': 0, 'aInt': 0, 'aStr': '', 'aSub': {'val': 0, 'name': ''}, 'aEnum': 'ZERO', "
          "'label': '', 'bBool': False, 'bBytes': '', 'bSub': {'val': 0, 'name': ''}, 'bDbl': 0.0, "
          "'cOnly': '0'}, 'optSub': None, 'trailing': 0, 'otherU': ''}",
          "{'when': datetime.datetime(1970, 1, 1, 0, 0, tzinfo=datetime.timezone.utc), 'span': "
          "datetime.timedelta(0), 'tStr': '', 'wrapped': None, 'wSub': {'val': 0, 'name': ''}, "
          "'opt': 0, 'items': [], 'subs': [], 'counts': {}, 'child': {'val': 0, 'name': ''}, "
          "'big': 0, 'raw': b'', 'ratio': 0.0, 'kind': Colour.ZERO, 'inner': {'plain': 0, 'aInt': "
          "0, 'aStr': '', 'aSub': {'val': 0, 'name': ''}, 'aEnum': Colour.ZERO, 'label': '', "
          "'bBool': False, 'bBytes': b'', 'bSub': {'val': 0, 'name': ''}, 'bDbl': 0.0, 'cOnly': "
          "0}, 'optSub': None, 'trailing': 0, 'otherU': ''}",
          "{'when': '1970-01-01T00:00:00Z', 'span': '0.000s', 't_str': '', 'wrapped': None, "
          "'w_sub': {'val': 0, 'name': ''}, 'opt': 0, 'items': [], 'subs': [], 'counts': {}, "
          "'child': {'val': 0, 'name': ''}, 'big': '0', 'raw': '', 'ratio': 0.0, 'kind': 'ZERO', "
          "'inner': {'plain': 0, 'a_int': 0, 'a_str': '', 'a_sub': {'val': 0, 'name': ''}, "
          "'a_enum': 'ZERO', 'label': '', 'b_bool': False, 'b_bytes': '', 'b_sub': {'val': 0, "
          "'name': ''}, 'b_dbl': 0.0, 'c_only': '0'}, 'opt_sub': None, 'trailing': 0, 'other_u': "
          "''}",
          "{'when': datetime.datetime(1970, 1, 1, 0, 0, tzinfo=datetime.timezone.utc), 'span': "
          "datetime.timedelta(0), 't_str': '', 'wrapped': None, 'w_sub': {'val': 0, 'name': ''}, "
          "'opt': 0, 'items': [], 'subs': [], 'counts': {}, 'child': {'val': 0, 'name': ''}, "
          "'big': 0, 'raw': b'', 'ratio': 0.0, 'kind': Colour.ZERO, 'inner': {'plain': 0, 'a_int': "
          "0, 'a_str': '', 'a_sub': {'val': 0, 'name': ''}, 'a_enum': Colour.ZERO, 'label': '', "
          "'b_bool': False, 'b_bytes': b'', 'b_sub': {'val': 0, 'name': ''}, 'b_dbl': 0.0, "
          "'c_only': 0}, 'opt_sub': None, 'trailing': 0, 'other_u': ''}",
          '{"opt": 0}',
          "['', '', 'opt', '', '', '']"],
 'opt5': ["{'opt': 5}",
          "{'opt': 5}",
          "{'opt': 5}",
          "{'opt': 5}",
          "{'when': '1970-01-01T00:00:00Z', 'span': '0.000s', 'tStr': '', 'wrapped': None, 'wSub': "
          "{'val': 0, 'name': ''}, 'opt': 5, 'items': [], 'subs': [], 'counts': {}, 'child': "
          "{'val': 0, 'name': ''}, 'big': '0', 'raw': '', 'ratio': 0.0, 'kind': 'ZERO', 'inner': "
          "{'plain': 0, 'aInt': 0, 'aStr': '', 'aSub': {'val': 0, 'name': ''}, 'aEnum': 'ZERO', "
          "'label': '', 'bBool': False, 'bBytes': '', 'bSub': {'val': 0, 'name': ''}, 'bDbl': 0.0, "
          "'cOnly': '0'}, 'optSub': None, 'trailing': 0, 'otherU': ''}",
          "{'when': datetime.datetime(1970, 1, 1, 0, 0, tzinfo=datetime.timezone.utc), 'span': "
          "datetime.timedelta(0), 'tStr': '', 'wrapped': None, 'wSub': {'val': 0, 'name': ''}, "
          "'opt': 5, 'items': [], 'subs': [], 'counts': {}, 'child': {'val': 0, 'name': ''}, "
          "'big': 0, 'raw': b'', 'ratio': 0.0, 'kind': Colour.ZERO, 'inner': {'plain': 0, 'aInt': "
          "0, 'aStr': '', 'aSub': {'val': 0, 'name': ''}, 'aEnum': Colour.ZERO, 'label': '', "
          "'bBool': False, 'bBytes': b'', 'bSub': {'val': 0, 'name': ''}, 'bDbl': 0.0, 'cOnly': "
          "0}, 'optSub': None, 'trailing': 0, 'otherU': ''}",
          "{'when': '1970-01-01T00:00:00Z', 'span': '0.000s', 't_str': '', 'wrapped': None, "
          "'w_sub': {'val': 0, 'name': ''}, 'opt': 5, 'items': [], 'subs': [], 'counts': {}, "
          "'child': {'val': 0, 'name': ''}, 'big': '0', 'raw': '', 'ratio': 0.0, 'kind': 'ZERO', "
          "'inner': {'plain': 0, 'a_int': 0, 'a_str': '', 'a_sub': {'val': 0, 'name': ''}, "
          "'a_enum': 'ZERO', 'label': '', 'b_bool': False, 'b_bytes': '', 'b_sub': {'val': 0, "
          "'name': ''}, 'b_dbl': 0.0, 'c_only': '0'}, 'opt_sub': None, 'trailing': 0, 'other_u': "
          "''}",
          "{'when': datetime.datetime(1970, 1, 1, 0, 0, tzinfo=datetime.timezone.utc), 'span': "
          "datetime.timedelta(0), 't_str': '', 'wrapped': None, 'w_sub': {'val': 0, 'name': ''}, "
          "'opt': 5, 'items': [], 'subs': [], 'counts': {}, 'child': {'val': 0, 'name': ''}, "
          "'big': 0, 'raw': b'', 'ratio': 0.0, 'kind': Colour.ZERO, 'inner': {'plain': 0, 'a_int': "
          "0, 'a_str': '', 'a_sub': {'val': 0, 'name': ''}, 'a_enum': Colour.ZERO, 'label': '', "
          "'b_bool': False, 'b_bytes': b'', 'b_sub': {'val': 0, 'name': ''}, 'b_dbl': 0.0, "
          "'c_only': 0}, 'opt_sub': None, 'trailing': 0, 'other_u': ''}",
          '{"opt": 5}',
          "['', '', 'opt', '', '', '']"],
 'optsub0': ["{'optSub': {}}",
             "{'optSub': {}}",
             "{'opt_sub': {}}",
             "{'opt_sub': {}}",
             "{'when': '1970-01-01T00:00:00Z', 'span': '0.000s', 'tStr': '', 'wrapped': None, "
             "'wSub': {'val': 0, 'name': ''}, 'opt': None, 'items': [], 'subs': [], 'counts': {}, "
             "'child': {'val': 0, 'name': ''}, 'big': '0', 'raw': '', 'ratio': 0.0, 'kind': "
             "'ZERO', 'inner': {'plain': 0, 'aInt': 0, 'aStr': '', 'aSub': {'val': 0, 'name': ''}, "
             "'aEnum': 'ZERO', 'label': '', 'bBool': False, 'bBytes': '', 'bSub': {'val': 0, "
             "'name': ''}, 'bDbl': 0.0, 'cOnly': '0'}, 'optSub': {'val': 0, 'name': ''}, "
             "'trailing': 0, 'otherU': ''}",
             "{'when': datetime.datetime(1970, 1, 1, 0, 0, tzinfo=datetime.timezone.utc), 'span': "
             "datetime.timedelta(0), 'tStr': '', 'wrapped': None, 'wSub': {'val': 0, 'name': ''}, "
             "'opt': None, 'items': [], 'subs': [], 'counts': {}, 'child': {'val': 0, 'name': ''}, "
             "'big': 0, 'raw': b'', 'ratio': 0.0, 'kind': Colour.ZERO, 'inner': {'plain': 0, "
             "'aInt': 0, 'aStr': '', 'aSub': {'val': 0, 'name': ''}, 'aEnum': Colour.ZERO, "
             "'label': '', 'bBool': False, 'bBytes': b'', 'bSub': {'val': 0, 'name': ''}, 'bDbl': "
             "0.0, 'cOnly': 0}, 'optSub': {'val': 0, 'name': ''}, 'trailing': 0, 'otherU': ''}",
             "{'when': '1970-01-01T00:00:00Z', 'span': '0.000s', 't_str': '', 'wrapped': None, "
             "'w_sub': {'val': 0, 'name': ''}, 'opt': None, 'items': [], 'subs': [], 'counts': {}, "
             "'child': {'val': 0, 'name': ''}, 'big': '0', 'raw': '', 'ratio': 0.0, 'kind': "
             "'ZERO', 'inner': {'plain': 0, 'a_int': 0, 'a_str': '', 'a_sub': {'val': 0, 'name': "
             "''}, 'a_enum': 'ZERO', 'label': '', 'b_bool': False, 'b_bytes': '', 'b_sub': {'val': "
             "0, 'name': ''}, 'b_dbl': 0.0, 'c_only': '0'}, 'opt_sub': {'val': 0, 'name': ''}, "
             "'trailing': 0, 'other_u': ''}",
             "{'when': datetime.datetime(1970, 1, 1, 0, 0, tzinfo=datetime.timezone.utc), 'span': "
             "datetime.timedelta(0), 't_str': '', 'wrapped': None, 'w_sub': {'val': 0, 'name': "
             "''}, 'opt': None, 'items': [], 'subs': [], 'counts': {}, 'child': {'val': 0, 'name': "
             "''}, 'big': 0, 'raw': b'', 'ratio': 0.0, 'kind': Colour.ZERO, 'inner': {'plain': 0, "
             "'a_int': 0, 'a_str': '', 'a_sub': {'val': 0, 'name': ''}, 'a_enum': Colour.ZERO, "
             "'label': '', 'b_bool': False, 'b_bytes': b'', 'b_sub': {'val': 0, 'name': ''}, "
             "'b_dbl': 0.0, 'c_only': 0}, 'opt_sub': {'val': 0, 'name': ''}, 'trailing': 0, "
             "'other_u': ''}",
             '{"optSub": {}}',
             "['', '', '', '', 'opt_sub', '']"],
 'other_u0': ["{'otherU': ''}",
              "{'otherU': ''}",
              "{'other_u': ''}",
              "{'other_u': ''}",
              "{'when': '1970-01-01T00:00:00Z', 'span': '0.000s', 'tStr': '', 'wrapped': None, "
              "'wSub': {'val': 0, 'name': ''}, 'opt': None, 'items': [], 'subs': [], 'counts': {}, "
              "'child': {'val': 0, 'name': ''}, 'big': '0', 'raw': '', 'ratio': 0.0, 'kind': "
              "'ZERO', 'inner': {'plain': 0, 'aInt': 0, 'aStr': '', 'aSub': {'val': 0, 'name': "
              "''}, 'aEnum': 'ZERO', 'label': '', 'bBool': False, 'bBytes': '', 'bSub': {'val': 0, "
              "'name': ''}, 'bDbl': 0.0, 'cOnly': '0'}, 'optSub': None, 'trailing': 0, 'otherU': "
              "''}",
              "{'when': datetime.datetime(1970, 1, 1, 0, 0, tzinfo=datetime.timezone.utc), 'span': "
              "datetime.timedelta(0), 'tStr': '', 'wrapped': None, 'wSub': {'val': 0, 'name': ''}, "
              "'opt': None, 'items': [], 'subs': [], 'counts': {}, 'child': {'val': 0, 'name': "
              "''}, 'big': 0, 'raw': b'', 'ratio': 0.0, 'kind': Colour.ZERO, 'inner': {'plain': 0, "
              "'aInt': 0, 'aStr': '', 'aSub': {'val': 0, 'name': ''}, 'aEnum': Colour.ZERO, "
              "'label': '', 'bBool': False, 'bBytes': b'', 'bSub': {'val': 0, 'name': ''}, 'bDbl': "
              "0.0, 'cOnly': 0}, 'optSub': None, 'trailing': 0, 'otherU': ''}",
              "{'when': '1970-01-01T00:00:00Z', 'span': '0.000s', 't_str': '', 'wrapped': None, "
              "'w_sub': {'val': 0, 'name': ''}, 'opt': None, 'items': [], 'subs': [], 'counts': "
              "{}, 'child': {'val': 0, 'name': ''}, 'big': '0', 'raw': '', 'ratio': 0.0, 'kind': "
              "'ZERO', 'inner': {'plain': 0, 'a_int': 0, 'a_str': '', 'a_sub': {'val': 0, 'name': "
              "''}, 'a_enum': 'ZERO', 'label': '', 'b_bool': False, 'b_bytes': '', 'b_sub': "
              "{'val': 0, 'name': ''}, 'b_dbl': 0.0, 'c_only': '0'}, 'opt_sub': None, 'trailing': "
              "0, 'other_u': ''}",
              "{'when': datetime.datetime(1970, 1, 1, 0, 0, tzinfo=datetime.timezone.utc), 'span': "
              "datetime.timedelta(0), 't_str': '', 'wrapped': None, 'w_sub': {'val': 0, 'name': "
              "''}, 'opt': None, 'items': [], 'subs': [], 'counts': {}, 'child': {'val': 0, "
              "'name': ''}, 'big': 0, 'raw': b'', 'ratio': 0.0, 'kind': Colour.ZERO, 'inner': "
              "{'plain': 0, 'a_int': 0, 'a_str': '', 'a_sub': {'val': 0, 'name': ''}, 'a_enum': "
              "Colour.ZERO, 'label': '', 'b_bool': False, 'b_bytes': b'', 'b_sub': {'val': 0, "
              "'name': ''}, 'b_dbl': 0.0, 'c_only': 0}, 'opt_sub': None, 'trailing': 0, 'other_u': "
              "''}",
              '{"otherU": ""}',
              "['', '', '', '', '', 'other_u']"],
 'ratio0': ["{'ratio': 0.0}",
            "{'ratio': 0.0}",
            "{'ratio': 0.0}",
            "{'ratio': 0.0}",
            "{'when': '1970-01-01T00:00:00Z', 'span': '0.000s', 'tStr': '', 'wrapped': None, "
            "'wSub': {'val': 0, 'name': ''}, 'opt': None, 'items': [], 'subs': [], 'counts': {}, "
            "'child': {'val': 0, 'name': ''}, 'big': '0', 'raw': '', 'ratio': 0.0, 'kind': 'ZERO', "
            "'inner': {'plain': 0, 'aInt': 0, 'aStr': '', 'aSub': {'val': 0, 'name': ''}, 'aEnum': "
            "'ZERO', 'label': '', 'bBool': False, 'bBytes': '', 'bSub': {'val': 0, 'name': ''}, "
            "'bDbl': 0.0, 'cOnly': '0'}, 'optSub': None, 'trailing': 0, 'otherU': ''}",
            "{'when': datetime.datetime(1970, 1, 1, 0, 0, tzinfo=datetime.timezone.utc), 'span': "
            "datetime.timedelta(0), 'tStr': '', 'wrapped': None, 'wSub': {'val': 0, 'name': ''}, "
            "'opt': None, 'items': [], 'subs': [], 'counts': {}, 'child': {'val': 0, 'name': ''}, "
            "'big': 0, 'raw': b'', 'ratio': 0.0, 'kind': Colour.ZERO, 'inner': {'plain': 0, "
            "'aInt': 0, 'aStr': '', 'aSub': {'val': 0, 'name': ''}, 'aEnum': Colour.ZERO, 'label': "
            "'', 'bBool': False, 'bBytes': b'', 'bSub': {'val': 0, 'name': ''}, 'bDbl': 0.0, "
            "'cOnly': 0}, 'optSub': None, 'trailing': 0, 'otherU': ''}",
            "{'when': '1970-01-01T00:00:00Z', 'span': '0.000s', 't_str': '', 'wrapped': None, "
            "'w_sub': {'val': 0, 'name': ''}, 'opt': None, 'items': [], 'subs': [], 'counts': {}, "
            "'child': {'val': 0, 'name': ''}, 'big': '0', 'raw': '', 'ratio': 0.0, 'kind': 'ZERO', "
            "'inner': {'plain': 0, 'a_int': 0, 'a_str': '', 'a_sub': {'val': 0, 'name': ''}, "
            "'a_enum': 'ZERO', 'label': '', 'b_bool': False, 'b_bytes': '', 'b_sub': {'val': 0, "
            "'name': ''}, 'b_dbl': 0.0, 'c_only': '0'}, 'opt_sub': None, 'trailing': 0, 'other_u': "
            "''}",
            "{'when': datetime.datetime(1970, 1, 1, 0, 0, tzinfo=datetime.timezone.utc), 'span': "
            "datetime.timedelta(0), 't_str': '', 'wrapped': None, 'w_sub': {'val': 0, 'name': ''}, "
            "'opt': None, 'items': [], 'subs': [], 'counts': {}, 'child': {'val': 0, 'name': ''}, "
            "'big': 0, 'raw': b'', 'ratio': 0.0, 'kind': Colour.ZERO, 'inner': {'plain': 0, "
            "'a_int': 0, 'a_str': '', 'a_sub': {'val': 0, 'name': ''}, 'a_enum': Colour.ZERO, "
            "'label': '', 'b_bool': False, 'b_bytes': b'', 'b_sub': {'val': 0, 'name': ''}, "
            "'b_dbl': 0.0, 'c_only': 0}, 'opt_sub': None, 'trailing': 0, 'other_u': ''}",
            '{"ratio": 0.0}',
            "['', '', '', 'ratio', '', '']"],
 'ratio_inf': ["{'ratio': '-Infinity'}",
               "{'ratio': -inf}",
               "{'ratio': '-Infinity'}",
               "{'ratio': -inf}",
               "{'when': '1970-01-01T00:00:00Z', 'span': '0.000s', 'tStr': '', 'wrapped': None, "
               "'wSub': {'val': 0, 'name': ''}, 'opt': None, 'items': [], 'subs': [], 'counts': "
               "{}, 'child': {'val': 0, 'name': ''}, 'big': '0', 'raw': '', 'ratio': '-Infinity', "
               "'kind': 'ZERO', 'inner': {'plain': 0, 'aInt': 0, 'aStr': '', 'aSub': {'val': 0, "
               "'name': ''}, 'aEnum': 'ZERO', 'label': '', 'bBool': False, 'bBytes': '', 'bSub': "
               "{'val': 0, 'name': ''}, 'bDbl': 0.0, 'cOnly': '0'}, 'optSub': None, 'trailing': 0, "
               "'otherU': ''}",
               "{'when': datetime.datetime(1970, 1, 1, 0, 0, tzinfo=datetime.timezone.utc), "
               "'span': datetime.timedelta(0), 'tStr': '', 'wrapped': None, 'wSub': {'val': 0, "
               "'name': ''}, 'opt': None, 'items': [], 'subs': [], 'counts': {}, 'child': {'val': "
               "0, 'name': ''}, 'big': 0, 'raw': b'', 'ratio': -inf, 'kind': Colour.ZERO, 'inner': "
               "{'plain': 0, 'aInt': 0, 'aStr': '', 'aSub': {'val': 0, 'name': ''}, 'aEnum': "
               "Colour.ZERO, 'label': '', 'bBool': False, 'bBytes': b'', 'bSub': {'val': 0, "
               "'name': ''}, 'bDbl': 0.0, 'cOnly': 0}, 'optSub': None, 'trailing': 0, 'otherU': "
               "''}",
               "{'when': '1970-01-01T00:00:00Z', 'span': '0.000s', 't_str': '', 'wrapped': None, "
               "'w_sub': {'val': 0, 'name': ''}, 'opt': None, 'items': [], 'subs': [], 'counts': "
               "{}, 'child': {'val': 0, 'name': ''}, 'big': '0', 'raw': '', 'ratio': '-Infinity', "
               "'kind': 'ZERO', 'inner': {'plain': 0, 'a_int': 0, 'a_str': '', 'a_sub': {'val': 0, "
               "'name': ''}, 'a_enum': 'ZERO', 'label': '', 'b_bool': False, 'b_bytes': '', "
               "'b_sub': {'val': 0, 'name': ''}, 'b_dbl': 0.0, 'c_only': '0'}, 'opt_sub': None, "
               "'trailing': 0, 'other_u': ''}",
               "{'when': datetime.datetime(1970, 1, 1, 0, 0, tzinfo=datetime.timezone.utc), "
               "'span': datetime.timedelta(0), 't_str': '', 'wrapped': None, 'w_sub': {'val': 0, "
               "'name': ''}, 'opt': None, 'items': [], 'subs': [], 'counts': {}, 'child': {'val': "
               "0, 'name': ''}, 'big': 0, 'raw': b'', 'ratio': -inf, 'kind': Colour.ZERO, 'inner': "
               "{'plain': 0, 'a_int': 0, 'a_str': '', 'a_sub': {'val': 0, 'name': ''}, 'a_enum': "
               "Colour.ZERO, 'label': '', 'b_bool': False, 'b_bytes': b'', 'b_sub': {'val': 0, "
               "'name': ''}, 'b_dbl': 0.0, 'c_only': 0}, 'opt_sub': None, 'trailing': 0, "
               "'other_u': ''}",
               '{"ratio": "-Infinity"}',
               "['', '', '', 'ratio', '', '']"],
 'ratio_nan': ["{'ratio': 'NaN'}",
               "{'ratio': nan}",
               "{'ratio': 'NaN'}",
               "{'ratio': nan}",
               "{'when': '1970-01-01T00:00:00Z', 'span': '0.000s', 'tStr': '', 'wrapped': None, "
               "'wSub': {'val': 0, 'name': ''}, 'opt': None, 'items': [], 'subs': [], 'counts': "
               "{}, 'child': {'val': 0, 'name': ''}, 'big': '0', 'raw': '', 'ratio': 'NaN', "
               "'kind': 'ZERO', 'inner': {'plain': 0, 'aInt': 0, 'aStr': '', 'aSub': {'val': 0, "
               "'name': ''}, 'aEnum': 'ZERO', 'label': '', 'bBool': False, 'bBytes': '', 'bSub': "
               "{'val': 0, 'name': ''}, 'bDbl': 0.0, 'cOnly': '0'}, 'optSub': None, 'trailing': 0, "
               "'otherU': ''}",
               "{'when': datetime.datetime(1970, 1, 1, 0, 0, tzinfo=datetime.timezone.utc), "
               "'span': datetime.timedelta(0), 'tStr': '', 'wrapped': None, 'wSub': {'val': 0, "
               "'name': ''}, 'opt': None, 'items': [], 'subs': [], 'counts': {}, 'child': {'val': "
               "0, 'name': ''}, 'big': 0, 'raw': b'', 'ratio': nan, 'kind': Colour.ZERO, 'inner': "
               "{'plain': 0, 'aInt': 0, 'aStr': '', 'aSub': {'val': 0, 'name': ''}, 'aEnum': "
               "Colour.ZERO, 'label': '', 'bBool': False, 'bBytes': b'', 'bSub': {'val': 0, "
               "'name': ''}, 'bDbl': 0.0, 'cOnly': 0}, 'optSub': None, 'trailing': 0, 'otherU': "
               "''}",
               "{'when': '1970-01-01T00:00:00Z', 'span': '0.000s', 't_str': '', 'wrapped': None, "
               "'w_sub': {'val': 0, 'name': ''}, 'opt': None, 'items': [], 'subs': [], 'counts': "
               "{}, 'child': {'val': 0, 'name': ''}, 'big': '0', 'raw': '', 'ratio': 'NaN', "
               "'kind': 'ZERO', 'inner': {'plain': 0, 'a_int': 0, 'a_str': '', 'a_sub': {'val': 0, "
               "'name': ''}, 'a_enum': 'ZERO', 'label': '', 'b_bool': False, 'b_bytes': '', "
               "'b_sub': {'val': 0, 'name': ''}, 'b_dbl': 0.0, 'c_only': '0'}, 'opt_sub': None, "
               "'trailing': 0, 'other_u': ''}",
               "{'when': datetime.datetime(1970, 1, 1, 0, 0, tzinfo=datetime.timezone.utc), "
               "'span': datetime.timedelta(0), 't_str': '', 'wrapped': None, 'w_sub': {'val': 0, "
               "'name': ''}, 'opt': None, 'items': [], 'subs': [], 'counts': {}, 'child': {'val': "
               "0, 'name': ''}, 'big': 0, 'raw': b'', 'ratio': nan, 'kind': Colour.ZERO, 'inner': "
               "{'plain': 0, 'a_int': 0, 'a_str': '', 'a_sub': {'val': 0, 'name': ''}, 'a_enum': "
               "Colour.ZERO, 'label': '', 'b_bool': False, 'b_bytes': b'', 'b_sub': {'val': 0, "
               "'name': ''}, 'b_dbl': 0.0, 'c_only': 0}, 'opt_sub': None, 'trailing': 0, "
               "'other_u': ''}",
               '{"ratio": "NaN"}',
               "['', '', '', 'ratio', '', '']"],
 'raw': ["{'raw': '/wA='}",
         "{'raw': b'\\xff\\x00'}",
         "{'raw': '/wA='}",
         "{'raw': b'\\xff\\x00'}",
         "{'when': '1970-01-01T00:00:00Z', 'span': '0.000s', 'tStr': '', 'wrapped': None, 'wSub': "
         "{'val': 0, 'name': ''}, 'opt': None, 'items': [], 'subs': [], 'counts': {}, 'child': "
         "{'val': 0, 'name': ''}, 'big': '0', 'raw': '/wA=', 'ratio': 0.0, 'kind': 'ZERO', "
         "'inner': {'plain': 0, 'aInt': 0, 'aStr': '', 'aSub': {'val': 0, 'name': ''}, 'aEnum': "
         "'ZERO', 'label': '', 'bBool': False, 'bBytes': '', 'bSub': {'val': 0, 'name': ''}, "
         "'bDbl': 0.0, 'cOnly': '0'}, 'optSub': None, 'trailing': 0, 'otherU': ''}",
         "{'when': datetime.datetime(1970, 1, 1, 0, 0, tzinfo=datetime.timezone.utc), 'span': "
         "datetime.timedelta(0), 'tStr': '', 'wrapped': None, 'wSub': {'val': 0, 'name': ''}, "
         "'opt': None, 'items': [], 'subs': [], 'counts': {}, 'child': {'val': 0, 'name': ''}, "
         "'big': 0, 'raw': b'\\xff\\x00', 'ratio': 0.0, 'kind': Colour.ZERO, 'inner': {'plain': 0, "
         "'aInt': 0, 'aStr': '', 'aSub': {'val': 0, 'name': ''}, 'aEnum': Colour.ZERO, 'label': "
         "'', 'bBool': False, 'bBytes': b'', 'bSub': {'val': 0, 'name': ''}, 'bDbl': 0.0, 'cOnly': "
         "0}, 'optSub': None, 'trailing': 0, 'otherU': ''}",
         "{'when': '1970-01-01T00:00:00Z', 'span': '0.000s', 't_str': '', 'wrapped': None, "
         "'w_sub': {'val': 0, 'name': ''}, 'opt': None, 'items': [], 'subs': [], 'counts': {}, "
         "'child': {'val': 0, 'name': ''}, 'big': '0', 'raw': '/wA=', 'ratio': 0.0, 'kind': "
         "'ZERO', 'inner': {'plain': 0, 'a_int': 0, 'a_str': '', 'a_sub': {'val': 0, 'name': ''}, "
         "'a_enum': 'ZERO', 'label': '', 'b_bool': False, 'b_bytes': '', 'b_sub': {'val': 0, "
         "'name': ''}, 'b_dbl': 0.0, 'c_only': '0'}, 'opt_sub': None, 'trailing': 0, 'other_u': "
         "''}",
         "{'when': datetime.datetime(1970, 1, 1, 0, 0, tzinfo=datetime.timezone.utc), 'span': "
         "datetime.timedelta(0), 't_str': '', 'wrapped': None, 'w_sub': {'val': 0, 'name': ''}, "
         "'opt': None, 'items': [], 'subs': [], 'counts': {}, 'child': {'val': 0, 'name': ''}, "
         "'big': 0, 'raw': b'\\xff\\x00', 'ratio': 0.0, 'kind': Colour.ZERO, 'inner': {'plain': 0, "
         "'a_int': 0, 'a_str': '', 'a_sub': {'val': 0, 'name': ''}, 'a_enum': Colour.ZERO, "
         "'label': '', 'b_bool': False, 'b_bytes': b'', 'b_sub': {'val': 0, 'name': ''}, 'b_dbl': "
         "0.0, 'c_only': 0}, 'opt_sub': None, 'trailing': 0, 'other_u': ''}",
         '{"raw": "/wA="}',
         "['', '', '', 'raw', '', '']"],
 'raw0': ["{'raw': ''}",
          "{'raw': b''}",
          "{'raw': ''}",
          "{'raw': b''}",
          "{'when': '1970-01-01T00:00:00Z', 'span': '0.000s', 'tStr': '', 'wrapped': None, 'wSub': "
          "{'val': 0, 'name': ''}, 'opt': None, 'items': [], 'subs': [], 'counts': {}, 'child': "
          "{'val': 0, 'name': ''}, 'big': '0', 'raw': '', 'ratio': 0.0, 'kind': 'ZERO', 'inner': "
          "{'plain': 0, 'aInt': 0, 'aStr': '', 'aSub': {'val': 0, 'name': ''}, 'aEnum': 'ZERO', "
          "'label': '', 'bBool': False, 'bBytes': '', 'bSub': {'val': 0, 'name': ''}, 'bDbl': 0.0, "
          "'cOnly': '0'}, 'optSub': None, 'trailing': 0, 'otherU': ''}",
          "{'when': datetime.datetime(1970, 1, 1, 0, 0, tzinfo=datetime.timezone.utc), 'span': "
          "datetime.timedelta(0), 'tStr': '', 'wrapped': None, 'wSub': {'val': 0, 'name': ''}, "
          "'opt': None, 'items': [], 'subs': [], 'counts': {}, 'child': {'val': 0, 'name': ''}, "
          "'big': 0, 'raw': b'', 'ratio': 0.0, 'kind': Colour.ZERO, 'inner': {'plain': 0, 'aInt': "
          "0, 'aStr': '', 'aSub': {'val': 0, 'name': ''}, 'aEnum': Colour.ZERO, 'label': '', "
          "'bBool': False, 'bBytes': b'', 'bSub': {'val': 0, 'name': ''}, 'bDbl': 0.0, 'cOnly': "
          "0}, 'optSub': None, 'trailing': 0, 'otherU': ''}",
          "{'when': '1970-01-01T00:00:00Z', 'span': '0.000s', 't_str': '', 'wrapped': None, "
          "'w_sub': {'val': 0, 'name': ''}, 'opt': None, 'items': [], 'subs': [], 'counts': {}, "
          "'child': {'val': 0, 'name': ''}, 'big': '0', 'raw': '', 'ratio': 0.0, 'kind': 'ZERO', "
          "'inner': {'plain': 0, 'a_int': 0, 'a_str': '', 'a_sub': {'val': 0, 'name': ''}, "
          "'a_enum': 'ZERO', 'label': '', 'b_bool': False, 'b_bytes': '', 'b_sub': {'val': 0, "
          "'name': ''}, 'b_dbl': 0.0, 'c_only': '0'}, 'opt_sub': None, 'trailing': 0, 'other_u': "
          "''}",
          "{'when': datetime.datetime(1970, 1, 1, 0, 0, tzinfo=datetime.timezone.utc), 'span': "
          "datetime.timedelta(0), 't_str': '', 'wrapped': None, 'w_sub': {'val': 0, 'name': ''}, "
          "'opt': None, 'items': [], 'subs': [], 'counts': {}, 'child': {'val': 0, 'name': ''}, "
          "'big': 0, 'raw': b'', 'ratio': 0.0, 'kind': Colour.ZERO, 'inner': {'plain': 0, 'a_int': "
          "0, 'a_str': '', 'a_sub': {'val': 0, 'name': ''}, 'a_enum': Colour.ZERO, 'label': '', "
          "'b_bool': False, 'b_bytes': b'', 'b_sub': {'val': 0, 'name': ''}, 'b_dbl': 0.0, "
          "'c_only': 0}, 'opt_sub': None, 'trailing': 0, 'other_u': ''}",
          '{"raw": ""}',
          "['', '', '', 'raw', '', '']"],
 'span0': ["{'span': '0.000s'}",
           "{'span': datetime.timedelta(0)}",
           "{'span': '0.000s'}",
           "{'span': datetime.timedelta(0)}",
           "{'when': '1970-01-01T00:00:00Z', 'span': '0.000s', 'tStr': '', 'wrapped': None, "
           "'wSub': {'val': 0, 'name': ''}, 'opt': None, 'items': [], 'subs': [], 'counts': {}, "
           "'child': {'val': 0, 'name': ''}, 'big': '0', 'raw': '', 'ratio': 0.0, 'kind': 'ZERO', "
           "'inner': {'plain': 0, 'aInt': 0, 'aStr': '', 'aSub': {'val': 0, 'name': ''}, 'aEnum': "
           "'ZERO', 'label': '', 'bBool': False, 'bBytes': '', 'bSub': {'val': 0, 'name': ''}, "
           "'bDbl': 0.0, 'cOnly': '0'}, 'optSub': None, 'trailing': 0, 'otherU': ''}",
           "{'when': datetime.datetime(1970, 1, 1, 0, 0, tzinfo=datetime.timezone.utc), 'span': "
           "datetime.timedelta(0), 'tStr': '', 'wrapped': None, 'wSub': {'val': 0, 'name': ''}, "
           "'opt': None, 'items': [], 'subs': [], 'counts': {}, 'child': {'val': 0, 'name': ''}, "
           "'big': 0, 'raw': b'', 'ratio': 0.0, 'kind': Colour.ZERO, 'inner': {'plain': 0, 'aInt': "
           "0, 'aStr': '', 'aSub': {'val': 0, 'name': ''}, 'aEnum': Colour.ZERO, 'label': '', "
           "'bBool': False, 'bBytes': b'', 'bSub': {'val': 0, 'name': ''}, 'bDbl': 0.0, 'cOnly': "
           "0}, 'optSub': None, 'trailing': 0, 'otherU': ''}",
           "{'when': '1970-01-01T00:00:00Z', 'span': '0.000s', 't_str': '', 'wrapped': None, "
           "'w_sub': {'val': 0, 'name': ''}, 'opt': None, 'items': [], 'subs': [], 'counts': {}, "
           "'child': {'val': 0, 'name': ''}, 'big': '0', 'raw': '', 'ratio': 0.0, 'kind': 'ZERO', "
           "'inner': {'plain': 0, 'a_int': 0, 'a_str': '', 'a_sub': {'val': 0, 'name': ''}, "
           "'a_enum': 'ZERO', 'label': '', 'b_bool': False, 'b_bytes': '', 'b_sub': {'val': 0, "
           "'name': ''}, 'b_dbl': 0.0, 'c_only': '0'}, 'opt_sub': None, 'trailing': 0, 'other_u': "
           "''}",
           "{'when': datetime.datetime(1970, 1, 1, 0, 0, tzinfo=datetime.timezone.utc), 'span': "
           "datetime.timedelta(0), 't_str': '', 'wrapped': None, 'w_sub': {'val': 0, 'name': ''}, "
           "'opt': None, 'items': [], 'subs': [], 'counts': {}, 'child': {'val': 0, 'name': ''}, "
           "'big': 0, 'raw': b'', 'ratio': 0.0, 'kind': Colour.ZERO, 'inner': {'plain': 0, "
           "'a_int': 0, 'a_str': '', 'a_sub': {'val': 0, 'name': ''}, 'a_enum': Colour.ZERO, "
           "'label': '', 'b_bool': False, 'b_bytes': b'', 'b_sub': {'val': 0, 'name': ''}, "
           "'b_dbl': 0.0, 'c_only': 0}, 'opt_sub': None, 'trailing': 0, 'other_u': ''}",
           '{"span": "0.000s"}',
           "['span', '', '', '', '', '']"],
 'span1': ["{'span': '86400.000005s'}",
           "{'span': datetime.timedelta(days=1, microseconds=5)}",
           "{'span': '86400.000005s'}",
           "{'span': datetime.timedelta(days=1, microseconds=5)}",
           "{'when': '1970-01-01T00:00:00Z', 'span': '86400.000005s', 'tStr': '', 'wrapped': None, "
           "'wSub': {'val': 0, 'name': ''}, 'opt': None, 'items': [], 'subs': [], 'counts': {}, "
           "'child': {'val': 0, 'name': ''}, 'big': '0', 'raw': '', 'ratio': 0.0, 'kind': 'ZERO', "
           "'inner': {'plain': 0, 'aInt': 0, 'aStr': '', 'aSub': {'val': 0, 'name': ''}, 'aEnum': "
           "'ZERO', 'label': '', 'bBool': False, 'bBytes': '', 'bSub': {'val': 0, 'name': ''}, "
           "'bDbl': 0.0, 'cOnly': '0'}, 'optSub': None, 'trailing': 0, 'otherU': ''}",
           "{'when': datetime.datetime(1970, 1, 1, 0, 0, tzinfo=datetime.timezone.utc), 'span': "
           "datetime.timedelta(days=1, microseconds=5), 'tStr': '', 'wrapped': None, 'wSub': "
           "{'val': 0, 'name': ''}, 'opt': None, 'items': [], 'subs': [], 'counts': {}, 'child': "
           "{'val': 0, 'name': ''}, 'big': 0, 'raw': b'', 'ratio': 0.0, 'kind': Colour.ZERO, "
           "'inner': {'plain': 0, 'aInt': 0, 'aStr': '', 'aSub': {'val': 0, 'name': ''}, 'aEnum': "
           "Colour.ZERO, 'label': '', 'bBool': False, 'bBytes': b'', 'bSub': {'val': 0, 'name': "
           "''}, 'bDbl': 0.0, 'cOnly': 0}, 'optSub': None, 'trailing': 0, 'otherU': ''}",
           "{'when': '1970-01-01T00:00:00Z', 'span': '86400.000005s', 't_str': '', 'wrapped': "
           "None, 'w_sub': {'val': 0, 'name': ''}, 'opt': None, 'items': [], 'subs': [], 'counts': "
           "{}, 'child': {'val': 0, 'name': ''}, 'big': '0', 'raw': '', 'ratio': 0.0, 'kind': "
           "'ZERO', 'inner': {'plain': 0, 'a_int': 0, 'a_str': '', 'a_sub': {'val': 0, 'name': "
           "''}, 'a_enum': 'ZERO', 'label': '', 'b_bool': False, 'b_bytes': '', 'b_sub': {'val': "
           "0, 'name': ''}, 'b_dbl': 0.0, 'c_only': '0'}, 'opt_sub': None, 'trailing': 0, "
           "'other_u': ''}",
           "{'when': datetime.datetime(1970, 1, 1, 0, 0, tzinfo=datetime.timezone.utc), 'span': "
           "datetime.timedelta(days=1, microseconds=5), 't_str': '', 'wrapped': None, 'w_sub': "
           "{'val': 0, 'name': ''}, 'opt': None, 'items': [], 'subs': [], 'counts': {}, 'child': "
           "{'val': 0, 'name': ''}, 'big': 0, 'raw': b'', 'ratio': 0.0, 'kind': Colour.ZERO, "
           "'inner': {'plain': 0, 'a_int': 0, 'a_str': '', 'a_sub': {'val': 0, 'name': ''}, "
           "'a_enum': Colour.ZERO, 'label': '', 'b_bool': False, 'b_bytes': b'', 'b_sub': {'val': "
           "0, 'name': ''}, 'b_dbl': 0.0, 'c_only': 0}, 'opt_sub': None, 'trailing': 0, 'other_u': "
           "''}",
           '{"span": "86400.000005s"}',
           "['span', '', '', '', '', '']"],
 'trailing0': ["{'trailing': 0}",
               "{'trailing': 0}",
               "{'trailing': 0}",
               "{'trailing': 0}",
               "{'when': '1970-01-01T00:00:00Z', 'span': '0.000s', 'tStr': '', 'wrapped': None, "
               "'wSub': {'val': 0, 'name': ''}, 'opt': None, 'items': [], 'subs': [], 'counts': "
               "{}, 'child': {'val': 0, 'name': ''}, 'big': '0', 'raw': '', 'ratio': 0.0, 'kind': "
               "'ZERO', 'inner': {'plain': 0, 'aInt': 0, 'aStr': '', 'aSub': {'val': 0, 'name': "
               "''}, 'aEnum': 'ZERO', 'label': '', 'bBool': False, 'bBytes': '', 'bSub': {'val': "
               "0, 'name': ''}, 'bDbl': 0.0, 'cOnly': '0'}, 'optSub': None, 'trailing': 0, "
               "'otherU': ''}",
               "{'when': datetime.datetime(1970, 1, 1, 0, 0, tzinfo=datetime.timezone.utc), "
               "'span': datetime.timedelta(0), 'tStr': '', 'wrapped': None, 'wSub': {'val': 0, "
               "'name': ''}, 'opt': None, 'items': [], 'subs': [], 'counts': {}, 'child': {'val': "
               "0, 'name': ''}, 'big': 0, 'raw': b'', 'ratio': 0.0, 'kind': Colour.ZERO, 'inner': "
               "{'plain': 0, 'aInt': 0, 'aStr': '', 'aSub': {'val': 0, 'name': ''}, 'aEnum': "
               "Colour.ZERO, 'label': '', 'bBool': False, 'bBytes': b'', 'bSub': {'val': 0, "
               "'name': ''}, 'bDbl': 0.0, 'cOnly': 0}, 'optSub': None, 'trailing': 0, 'otherU': "
               "''}",
               "{'when': '1970-01-01T00:00:00Z', 'span': '0.000s', 't_str': '', 'wrapped': None, "
               "'w_sub': {'val': 0, 'name': ''}, 'opt': None, 'items': [], 'subs': [], 'counts': "
               "{}, 'child': {'val': 0, 'name': ''}, 'big': '0', 'raw': '', 'ratio': 0.0, 'kind': "
               "'ZERO', 'inner': {'plain': 0, 'a_int': 0, 'a_str': '', 'a_sub': {'val': 0, 'name': "
               "''}, 'a_enum': 'ZERO', 'label': '', 'b_bool': False, 'b_bytes': '', 'b_sub': "
               "{'val': 0, 'name': ''}, 'b_dbl': 0.0, 'c_only': '0'}, 'opt_sub': None, 'trailing': "
               "0, 'other_u': ''}",
               "{'when': datetime.datetime(1970, 1, 1, 0, 0, tzinfo=datetime.timezone.utc), "
               "'span': datetime.timedelta(0), 't_str': '', 'wrapped': None, 'w_sub': {'val': 0, "
               "'name': ''}, 'opt': None, 'items': [], 'subs': [], 'counts': {}, 'child': {'val': "
               "0, 'name': ''}, 'big': 0, 'raw': b'', 'ratio': 0.0, 'kind': Colour.ZERO, 'inner': "
               "{'plain': 0, 'a_int': 0, 'a_str': '', 'a_sub': {'val': 0, 'name': ''}, 'a_enum': "
               "Colour.ZERO, 'label': '', 'b_bool': False, 'b_bytes': b'', 'b_sub': {'val': 0, "
               "'name': ''}, 'b_dbl': 0.0, 'c_only': 0}, 'opt_sub': None, 'trailing': 0, "
               "'other_u': ''}",
               '{"trailing": 0}',
               "['', '', '', '', '', 'trailing_']"],
 'tstr0': ["{'tStr': ''}",
           "{'tStr': ''}",
           "{'t_str': ''}",
           "{'t_str': ''}",
           "{'when': '1970-01-01T00:00:00Z', 'span': '0.000s', 'tStr': '', 'wrapped': None, "
           "'wSub': {'val': 0, 'name': ''}, 'opt': None, 'items': [], 'subs': [], 'counts': {}, "
           "'child': {'val': 0, 'name': ''}, 'big': '0', 'raw': '', 'ratio': 0.0, 'kind': 'ZERO', "
           "'inner': {'plain': 0, 'aInt': 0, 'aStr': '', 'aSub': {'val': 0, 'name': ''}, 'aEnum': "
           "'ZERO', 'label': '', 'bBool': False, 'bBytes': '', 'bSub': {'val': 0, 'name': ''}, "
           "'bDbl': 0.0, 'cOnly': '0'}, 'optSub': None, 'trailing': 0, 'otherU': ''}",
           "{'when': datetime.datetime(1970, 1, 1, 0, 0, tzinfo=datetime.timezone.utc), 'span': "
           "datetime.timedelta(0), 'tStr': '', 'wrapped': None, 'wSub': {'val': 0, 'name': ''}, "
           "'opt': None, 'items': [], 'subs': [], 'counts': {}, 'child': {'val': 0, 'name': ''}, "
           "'big': 0, 'raw': b'', 'ratio': 0.0, 'kind': Colour.ZERO, 'inner': {'plain': 0, 'aInt': "
           "0, 'aStr': '', 'aSub': {'val': 0, 'name': ''}, 'aEnum': Colour.ZERO, 'label': '', "
           "'bBool': False, 'bBytes': b'', 'bSub': {'val': 0, 'name': ''}, 'bDbl': 0.0, 'cOnly': "
           "0}, 'optSub': None, 'trailing': 0, 'otherU': ''}",
           "{'when': '1970-01-01T00:00:00Z', 'span': '0.000s', 't_str': '', 'wrapped': None, "
           "'w_sub': {'val': 0, 'name': ''}, 'opt': None, 'items': [], 'subs': [], 'counts': {}, "
           "'child': {'val': 0, 'name': ''}, 'big': '0', 'raw': '', 'ratio': 0.0, 'kind': 'ZERO', "
           "'inner': {'plain': 0, 'a_int': 0, 'a_str': '', 'a_sub': {'val': 0, 'name': ''}, "
           "'a_enum': 'ZERO', 'label': '', 'b_bool': False, 'b_bytes': '', 'b_sub': {'val': 0, "
           "'name': ''}, 'b_dbl': 0.0, 'c_only': '0'}, 'opt_sub': None, 'trailing': 0, 'other_u': "
           "''}",
           "{'when': datetime.datetime(1970, 1, 1, 0, 0, tzinfo=datetime.timezone.utc), 'span': "
           "datetime.timedelta(0), 't_str': '', 'wrapped': None, 'w_sub': {'val': 0, 'name': ''}, "
           "'opt': None, 'items': [], 'subs': [], 'counts': {}, 'child': {'val': 0, 'name': ''}, "
           "'big': 0, 'raw': b'', 'ratio': 0.0, 'kind': Colour.ZERO, 'inner': {'plain': 0, "
           "'a_int': 0, 'a_str': '', 'a_sub': {'val': 0, 'name': ''}, 'a_enum': Colour.ZERO, "
           "'label': '', 'b_bool': False, 'b_bytes': b'', 'b_sub': {'val': 0, 'name': ''}, "
           "'b_dbl': 0.0, 'c_only': 0}, 'opt_sub': None, 'trailing': 0, 'other_u': ''}",
           '{"tStr": ""}',
           "['t_str', '', '', '', '', '']"],
 'when0': ["{'when': '1970-01-01T00:00:00Z'}",
           "{'when': datetime.datetime(1970, 1, 1, 0, 0, tzinfo=datetime.timezone.utc)}",
           "{'when': '1970-01-01T00:00:00Z'}",
           "{'when': datetime.datetime(1970, 1, 1, 0, 0, tzinfo=datetime.timezone.utc)}",
           "{'when': '1970-01-01T00:00:00Z', 'span': '0.000s', 'tStr': '', 'wrapped': None, "
           "'wSub': {'val': 0, 'name': ''}, 'opt': None, 'items': [], 'subs': [], 'counts': {}, "
           "'child': {'val': 0, 'name': ''}, 'big': '0', 'raw': '', 'ratio': 0.0, 'kind': 'ZERO', "
           "'inner': {'plain': 0, 'aInt': 0, 'aStr': '', 'aSub': {'val': 0, 'name': ''}, 'aEnum': "
           "'ZERO', 'label': '', 'bBool': False, 'bBytes': '', 'bSub': {'val': 0, 'name': ''}, "
           "'bDbl': 0.0, 'cOnly': '0'}, 'optSub': None, 'trailing': 0, 'otherU': ''}",
           "{'when': datetime.datetime(1970, 1, 1, 0, 0, tzinfo=datetime.timezone.utc), 'span': "
           "datetime.timedelta(0), 'tStr': '', 'wrapped': None, 'wSub': {'val': 0, 'name': ''}, "
           "'opt': None, 'items': [], 'subs': [], 'counts': {}, 'child': {'val': 0, 'name': ''}, "
           "'big': 0, 'raw': b'', 'ratio': 0.0, 'kind': Colour.ZERO, 'inner': {'plain': 0, 'aInt': "
           "0, 'aStr': '', 'aSub': {'val': 0, 'name': ''}, 'aEnum': Colour.ZERO, 'label': '', "
           "'bBool': False, 'bBytes': b'', 'bSub': {'val': 0, 'name': ''}, 'bDbl': 0.0, 'cOnly': "
           "0}, 'optSub': None, 'trailing': 0, 'otherU': ''}",
           "{'when': '1970-01-01T00:00:00Z', 'span': '0.000s', 't_str': '', 'wrapped': None, "
           "'w_sub': {'val': 0, 'name': ''}, 'opt': None, 'items': [], 'subs': [], 'counts': {}, "
           "'child': {'val': 0, 'name': ''}, 'big': '0', 'raw': '', 'ratio': 0.0, 'kind': 'ZERO', "
           "'inner': {'plain': 0, 'a_int': 0, 'a_str': '', 'a_sub': {'val': 0, 'name': ''}, "
           "'a_enum': 'ZERO', 'label': '', 'b_bool': False, 'b_bytes': '', 'b_sub': {'val': 0, "
           "'name': ''}, 'b_dbl': 0.0, 'c_only': '0'}, 'opt_sub': None, 'trailing': 0, 'other_u': "
           "''}",
           "{'when': datetime.datetime(1970, 1, 1, 0, 0, tzinfo=datetime.timezone.utc), 'span': "
           "datetime.timedelta(0), 't_str': '', 'wrapped': None, 'w_sub': {'val': 0, 'name': ''}, "
           "'opt': None, 'items': [], 'subs': [], 'counts': {}, 'child': {'val': 0, 'name': ''}, "
           "'big': 0, 'raw': b'', 'ratio': 0.0, 'kind': Colour.ZERO, 'inner': {'plain': 0, "
           "'a_int': 0, 'a_str': '', 'a_sub': {'val': 0, 'name': ''}, 'a_enum': Colour.ZERO, "
           "'label': '', 'b_bool': False, 'b_bytes': b'', 'b_sub': {'val': 0, 'name': ''}, "
           "'b_dbl': 0.0, 'c_only': 0}, 'opt_sub': None, 'trailing': 0, 'other_u': ''}",
           '{"when": "1970-01-01T00:00:00Z"}',
           "['when', '', '', '', '', '']"],
 'when1': ["{'when': '2020-05-17T12:30:01.250Z'}",
           "{'when': datetime.datetime(2020, 5, 17, 12, 30, 1, 250000, "
           'tzinfo=datetime.timezone.utc)}',
           "{'when': '2020-05-17T12:30:01.250Z'}",
           "{'when': datetime.datetime(2020, 5, 17, 12, 30, 1, 250000, "
           'tzinfo=datetime.timezone.utc)}',
           "{'when': '2020-05-17T12:30:01.250Z', 'span': '0.000s', 'tStr': '', 'wrapped': None, "
           "'wSub': {'val': 0, 'name': ''}, 'opt': None, 'items': [], 'subs': [], 'counts': {}, "
           "'child': {'val': 0, 'name': ''}, 'big': '0', 'raw': '', 'ratio': 0.0, 'kind': 'ZERO', "
           "'inner': {'plain': 0, 'aInt': 0, 'aStr': '', 'aSub': {'val': 0, 'name': ''}, 'aEnum': "
           "'ZERO', 'label': '', 'bBool': False, 'bBytes': '', 'bSub': {'val': 0, 'name': ''}, "
           "'bDbl': 0.0, 'cOnly': '0'}, 'optSub': None, 'trailing': 0, 'otherU': ''}",
           "{'when': datetime.datetime(2020, 5, 17, 12, 30, 1, 250000, "
           "tzinfo=datetime.timezone.utc), 'span': datetime.timedelta(0), 'tStr': '', 'wrapped': "
           "None, 'wSub': {'val': 0, 'name': ''}, 'opt': None, 'items': [], 'subs': [], 'counts': "
           "{}, 'child': {'val': 0, 'name': ''}, 'big': 0, 'raw': b'', 'ratio': 0.0, 'kind': "
           "Colour.ZERO, 'inner': {'plain': 0, 'aInt': 0, 'aStr': '', 'aSub': {'val': 0, 'name': "
           "''}, 'aEnum': Colour.ZERO, 'label': '', 'bBool': False, 'bBytes': b'', 'bSub': {'val': "
           "0, 'name': ''}, 'bDbl': 0.0, 'cOnly': 0}, 'optSub': None, 'trailing': 0, 'otherU': ''}",
           "{'when': '2020-05-17T12:30:01.250Z', 'span': '0.000s', 't_str': '', 'wrapped': None, "
           "'w_sub': {'val': 0, 'name': ''}, 'opt': None, 'items': [], 'subs': [], 'counts': {}, "
           "'child': {'val': 0, 'name': ''}, 'big': '0', 'raw': '', 'ratio': 0.0, 'kind': 'ZERO', "
           "'inner': {'plain': 0, 'a_int': 0, 'a_str': '', 'a_sub': {'val': 0, 'name': ''}, "
           "'a_enum': 'ZERO', 'label': '', 'b_bool': False, 'b_bytes': '', 'b_sub': {'val': 0, "
           "'name': ''}, 'b_dbl': 0.0, 'c_only': '0'}, 'opt_sub': None, 'trailing': 0, 'other_u': "
           "''}",
           "{'when': datetime.datetime(2020, 5, 17, 12, 30, 1, 250000, "
           "tzinfo=datetime.timezone.utc), 'span': datetime.timedelta(0), 't_str': '', 'wrapped': "
           "None, 'w_sub': {'val': 0, 'name': ''}, 'opt': None, 'items': [], 'subs': [], 'counts': "
           "{}, 'child': {'val': 0, 'name': ''}, 'big': 0, 'raw': b'', 'ratio': 0.0, 'kind': "
           "Colour.ZERO, 'inner': {'plain': 0, 'a_int': 0, 'a_str': '', 'a_sub': {'val': 0, "
           "'name': ''}, 'a_enum': Colour.ZERO, 'label': '', 'b_bool': False, 'b_bytes': b'', "
           "'b_sub': {'val': 0, 'name': ''}, 'b_dbl': 0.0, 'c_only': 0}, 'opt_sub': None, "
           "'trailing': 0, 'other_u': ''}",
           '{"when": "2020-05-17T12:30:01.250Z"}',
           "['when', '', '', '', '', '']"],
 'wrapped0': ["{'wrapped': 0}",
              "{'wrapped': 0}",
              "{'wrapped': 0}",
              "{'wrapped': 0}",
              "{'when': '1970-01-01T00:00:00Z', 'span': '0.000s', 'tStr': '', 'wrapped': 0, "
              "'wSub': {'val': 0, 'name': ''}, 'opt': None, 'items': [], 'subs': [], 'counts': {}, "
              "'child': {'val': 0, 'name': ''}, 'big': '0', 'raw': '', 'ratio': 0.0, 'kind': "
              "'ZERO', 'inner': {'plain': 0, 'aInt': 0, 'aStr': '', 'aSub': {'val': 0, 'name': "
              "''}, 'aEnum': 'ZERO', 'label': '', 'bBool': False, 'bBytes': '', 'bSub': {'val': 0, "
              "'name': ''}, 'bDbl': 0.0, 'cOnly': '0'}, 'optSub': None, 'trailing': 0, 'otherU': "
              "''}",
              "{'when': datetime.datetime(1970, 1, 1, 0, 0, tzinfo=datetime.timezone.utc), 'span': "
              "datetime.timedelta(0), 'tStr': '', 'wrapped': 0, 'wSub': {'val': 0, 'name': ''}, "
              "'opt': None, 'items': [], 'subs': [], 'counts': {}, 'child': {'val': 0, 'name': "
              "''}, 'big': 0, 'raw': b'', 'ratio': 0.0, 'kind': Colour.ZERO, 'inner': {'plain': 0, "
              "'aInt': 0, 'aStr': '', 'aSub': {'val': 0, 'name': ''}, 'aEnum': Colour.ZERO, "
              "'label': '', 'bBool': False, 'bBytes': b'', 'bSub': {'val': 0, 'name': ''}, 'bDbl': "
              "0.0, 'cOnly': 0}, 'optSub': None, 'trailing': 0, 'otherU': ''}",
              "{'when': '1970-01-01T00:00:00Z', 'span': '0.000s', 't_str': '', 'wrapped': 0, "
              "'w_sub': {'val': 0, 'name': ''}, 'opt': None, 'items': [], 'subs': [], 'counts': "
              "{}, 'child': {'val': 0, 'name': ''}, 'big': '0', 'raw': '', 'ratio': 0.0, 'kind': "
              "'ZERO', 'inner': {'plain': 0, 'a_int': 0, 'a_str': '', 'a_sub': {'val': 0, 'name': "
              "''}, 'a_enum': 'ZERO', 'label': '', 'b_bool': False, 'b_bytes': '', 'b_sub': "
              "{'val': 0, 'name': ''}, 'b_dbl': 0.0, 'c_only': '0'}, 'opt_sub': None, 'trailing': "
              "0, 'other_u': ''}",
              "{'when': datetime.datetime(1970, 1, 1, 0, 0, tzinfo=datetime.timezone.utc), 'span': "
              "datetime.timedelta(0), 't_str': '', 'wrapped': 0, 'w_sub': {'val': 0, 'name': ''}, "
              "'opt': None, 'items': [], 'subs': [], 'counts': {}, 'child': {'val': 0, 'name': "
              "''}, 'big': 0, 'raw': b'', 'ratio': 0.0, 'kind': Colour.ZERO, 'inner': {'plain': 0, "
              "'a_int': 0, 'a_str': '', 'a_sub': {'val': 0, 'name': ''}, 'a_enum': Colour.ZERO, "
              "'label': '', 'b_bool': False, 'b_bytes': b'', 'b_sub': {'val': 0, 'name': ''}, "
              "'b_dbl': 0.0, 'c_only': 0}, 'opt_sub': None, 'trailing': 0, 'other_u': ''}",
              '{"wrapped": 0}',
              "['', 'wrapped', '', '', '', '']"],
 'wrapped7': ["{'wrapped': 7}",
              "{'wrapped': 7}",
              "{'wrapped': 7}",
              "{'wrapped': 7}",
              "{'when': '1970-01-01T00:00:00Z', 'span': '0.000s', 'tStr': '', 'wrapped': 7, "
              "'wSub': {'val': 0, 'name': ''}, 'opt': None, 'items': [], 'subs': [], 'counts': {}, "
              "'child': {'val': 0, 'name': ''}, 'big': '0', 'raw': '', 'ratio': 0.0, 'kind': "
              "'ZERO', 'inner': {'plain': 0, 'aInt': 0, 'aStr': '', 'aSub': {'val': 0, 'name': "
              "''}, 'aEnum': 'ZERO', 'label': '', 'bBool': False, 'bBytes': '', 'bSub': {'val': 0, "
              "'name': ''}, 'bDbl': 0.0, 'cOnly': '0'}, 'optSub': None, 'trailing': 0, 'otherU': "
              "''}",
              "{'when': datetime.datetime(1970, 1, 1, 0, 0, tzinfo=datetime.timezone.utc), 'span': "
              "datetime.timedelta(0), 'tStr': '', 'wrapped': 7, 'wSub': {'val': 0, 'name': ''}, "
              "'opt': None, 'items': [], 'subs': [], 'counts': {}, 'child': {'val': 0, 'name': "
              "''}, 'big': 0, 'raw': b'', 'ratio': 0.0, 'kind': Colour.ZERO, 'inner': {'plain': 0, "
              "'aInt': 0, 'aStr': '', 'aSub': {'val': 0, 'name': ''}, 'aEnum': Colour.ZERO, "
              "'label': '', 'bBool': False, 'bBytes': b'', 'bSub': {'val': 0, 'name': ''}, 'bDbl': "
              "0.0, 'cOnly': 0}, 'optSub': None, 'trailing': 0, 'otherU': ''}",
              "{'when': '1970-01-01T00:00:00Z', 'span': '0.000s', 't_str': '', 'wrapped': 7, "
              "'w_sub': {'val': 0, 'name': ''}, 'opt': None, 'items': [], 'subs': [], 'counts': "
              "{}, 'child': {'val': 0, 'name': ''}, 'big': '0', 'raw': '', 'ratio': 0.0, 'kind': "
              "'ZERO', 'inner': {'plain': 0, 'a_int': 0, 'a_str': '', 'a_sub': {'val': 0, 'name': "
              "''}, 'a_enum': 'ZERO', 'label': '', 'b_bool': False, 'b_bytes': '', 'b_sub': "
              "{'val': 0, 'name': ''}, 'b_dbl': 0.0, 'c_only': '0'}, 'opt_sub': None, 'trailing': "
              "0, 'other_u': ''}",
              "{'when': datetime.datetime(1970, 1, 1, 0, 0, tzinfo=datetime.timezone.utc), 'span': "
              "datetime.timedelta(0), 't_str': '', 'wrapped': 7, 'w_sub': {'val': 0, 'name': ''}, "
              "'opt': None, 'items': [], 'subs': [], 'counts': {}, 'child': {'val': 0, 'name': "
              "''}, 'big': 0, 'raw': b'', 'ratio': 0.0, 'kind': Colour.ZERO, 'inner': {'plain': 0, "
              "'a_int': 0, 'a_str': '', 'a_sub': {'val': 0, 'name': ''}, 'a_enum': Colour.ZERO, "
              "'label': '', 'b_bool': False, 'b_bytes': b'', 'b_sub': {'val': 0, 'name': ''}, "
              "'b_dbl': 0.0, 'c_only': 0}, 'opt_sub': None, 'trailing': 0, 'other_u': ''}",
              '{"wrapped": 7}',
              "['', 'wrapped', '', '', '', '']"],
 'wsub0': ["{'wSub': {}}",
           "{'wSub': {}}",
           "{'w_sub': {}}",
           "{'w_sub': {}}",
           "{'when': '1970-01-01T00:00:00Z', 'span': '0.000s', 'tStr': '', 'wrapped': None, "
           "'wSub': {'val': 0, 'name': ''}, 'opt': None, 'items': [], 'subs': [], 'counts': {}, "
           "'child': {'val': 0, 'name': ''}, 'big': '0', 'raw': '', 'ratio': 0.0, 'kind': 'ZERO', "
           "'inner': {'plain': 0, 'aInt': 0, 'aStr': '', 'aSub': {'val': 0, 'name': ''}, 'aEnum': "
           "'ZERO', 'label': '', 'bBool': False, 'bBytes': '', 'bSub': {'val': 0, 'name': ''}, "
           "'bDbl': 0.0, 'cOnly': '0'}, 'optSub': None, 'trailing': 0, 'otherU': ''}",
           "{'when': datetime.datetime(1970, 1, 1, 0, 0, tzinfo=datetime.timezone.utc), 'span': "
           "datetime.timedelta(0), 'tStr': '', 'wrapped': None, 'wSub': {'val': 0, 'name': ''}, "
           "'opt': None, 'items': [], 'subs': [], 'counts': {}, 'child': {'val': 0, 'name': ''}, "
           "'big': 0, 'raw': b'', 'ratio': 0.0, 'kind': Colour.ZERO, 'inner': {'plain': 0, 'aInt': "
           "0, 'aStr': '', 'aSub': {'val': 0, 'name': ''}, 'aEnum': Colour.ZERO, 'label': '', "
           "'bBool': False, 'bBytes': b'', 'bSub': {'val': 0, 'name': ''}, 'bDbl': 0.0, 'cOnly': "
           "0}, 'optSub': None, 'trailing': 0, 'otherU': ''}",
           "{'when': '1970-01-01T00:00:00Z', 'span': '0.000s', 't_str': '', 'wrapped': None, "
           "'w_sub': {'val': 0, 'name': ''}, 'opt': None, 'items': [], 'subs': [], 'counts': {}, "
           "'child': {'val': 0, 'name': ''}, 'big': '0', 'raw': '', 'ratio': 0.0, 'kind': 'ZERO', "
           "'inner': {'plain': 0, 'a_int': 0, 'a_str': '', 'a_sub': {'val': 0, 'name': ''}, "
           "'a_enum': 'ZERO', 'label': '', 'b_bool': False, 'b_bytes': '', 'b_sub': {'val': 0, "
           "'name': ''}, 'b_dbl': 0.0, 'c_only': '0'}, 'opt_sub': None, 'trailing': 0, 'other_u': "
           "''}",
           "{'when': datetime.datetime(1970, 1, 1, 0, 0, tzinfo=datetime.timezone.utc), 'span': "
           "datetime.timedelta(0), 't_str': '', 'wrapped': None, 'w_sub': {'val': 0, 'name': ''}, "
           "'opt': None, 'items': [], 'subs': [], 'counts': {}, 'child': {'val': 0, 'name': ''}, "
           "'big': 0, 'raw': b'', 'ratio': 0.0, 'kind': Colour.ZERO, 'inner': {'plain': 0, "
           "'a_int': 0, 'a_str': '', 'a_sub': {'val': 0, 'name': ''}, 'a_enum': Colour.ZERO, "
           "'label': '', 'b_bool': False, 'b_bytes': b'', 'b_sub': {'val': 0, 'name': ''}, "
           "'b_dbl': 0.0, 'c_only': 0}, 'opt_sub': None, 'trailing': 0, 'other_u': ''}",
           '{"wSub": {}}',
           "['', 'w_sub', '', '', '', '']"],
 'wsub1': ["{'wSub': {'val': 3}}",
           "{'wSub': {'val': 3}}",
           "{'w_sub': {'val': 3}}",
           "{'w_sub': {'val': 3}}",
           "{'when': '1970-01-01T00:00:00Z', 'span': '0.000s', 'tStr': '', 'wrapped': None, "
           "'wSub': {'val': 3, 'name': ''}, 'opt': None, 'items': [], 'subs': [], 'counts': {}, "
           "'child': {'val': 0, 'name': ''}, 'big': '0', 'raw': '', 'ratio': 0.0, 'kind': 'ZERO', "
           "'inner': {'plain': 0, 'aInt': 0, 'aStr': '', 'aSub': {'val': 0, 'name': ''}, 'aEnum': "
           "'ZERO', 'label': '', 'bBool': False, 'bBytes': '', 'bSub': {'val': 0, 'name': ''}, "
           "'bDbl': 0.0, 'cOnly': '0'}, 'optSub': None, 'trailing': 0, 'otherU': ''}",
           "{'when': datetime.datetime(1970, 1, 1, 0, 0, tzinfo=datetime.timezone.utc), 'span': "
           "datetime.timedelta(0), 'tStr': '', 'wrapped': None, 'wSub': {'val': 3, 'name': ''}, "
           "'opt': None, 'items': [], 'subs': [], 'counts': {}, 'child': {'val': 0, 'name': ''}, "
           "'big': 0, 'raw': b'', 'ratio': 0.0, 'kind': Colour.ZERO, 'inner': {'plain': 0, 'aInt': "
           "0, 'aStr': '', 'aSub': {'val': 0, 'name': ''}, 'aEnum': Colour.ZERO, 'label': '', "
           "'bBool': False, 'bBytes': b'', 'bSub': {'val': 0, 'name': ''}, 'bDbl': 0.0, 'cOnly': "
           "0}, 'optSub': None, 'trailing': 0, 'otherU': ''}",
           "{'when': '1970-01-01T00:00:00Z', 'span': '0.000s', 't_str': '', 'wrapped': None, "
           "'w_sub': {'val': 3, 'name': ''}, 'opt': None, 'items': [], 'subs': [], 'counts': {}, "
           "'child': {'val': 0, 'name': ''}, 'big': '0', 'raw': '', 'ratio': 0.0, 'kind': 'ZERO', "
           "'inner': {'plain': 0, 'a_int': 0, 'a_str': '', 'a_sub': {'val': 0, 'name': ''}, "
           "'a_enum': 'ZERO', 'label': '', 'b_bool': False, 'b_bytes': '', 'b_sub': {'val': 0, "
           "'name': ''}, 'b_dbl': 0.0, 'c_only': '0'}, 'opt_sub': None, 'trailing': 0, 'other_u': "
           "''}",
           "{'when': datetime.datetime(1970, 1, 1, 0, 0, tzinfo=datetime.timezone.utc), 'span': "
           "datetime.timedelta(0), 't_str': '', 'wrapped': None, 'w_sub': {'val': 3, 'name': ''}, "
           "'opt': None, 'items': [], 'subs': [], 'counts': {}, 'child': {'val': 0, 'name': ''}, "
           "'big': 0, 'raw': b'', 'ratio': 0.0, 'kind': Colour.ZERO, 'inner': {'plain': 0, "
           "'a_int': 0, 'a_str': '', 'a_sub': {'val': 0, 'name': ''}, 'a_enum': Colour.ZERO, "
           "'label': '', 'b_bool': False, 'b_bytes': b'', 'b_sub': {'val': 0, 'name': ''}, "
           "'b_dbl': 0.0, 'c_only': 0}, 'opt_sub': None, 'trailing': 0, 'other_u': ''}",
           '{"wSub": {"val": 3}}',
           "['', 'w_sub', '', '', '', '']"]}


def golden_cases():
    seen = {}
    for name, msg in _rich_cases():
        before = bytes(msg)
        seen[name] = _snapshot(msg)
        assert bytes(msg) == before
    if GOLDEN is None:
        import pprint
        print("GOLDEN = " + pprint.pformat(seen, width=100))
        raise SystemExit(3)
    assert set(seen) == set(GOLDEN)
    for name in seen:
        assert seen[name] == GOLDEN[name], (name, seen[name], GOLDEN[name])


if __name__ == "__main__":
    golden_cases()
    rng = random.Random(70707)
    for i in range(300):
        run_history(rng, rng.randrange(1, 20))
    print("ok")
