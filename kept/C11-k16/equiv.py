"""C11 keep2 equivalence check: plugin/compiler.py outputfile_compiler (the function that
renders every generated Stub / Base module) and the collision warning it prints.

For a range of generated programs (1..n methods, all four cardinalities, re-cased names,
several packages, typing options, deprecated RPCs, comments, name collisions) it checks
  * the returned module text == header + body rendered independently with jinja2 from the
    library's templates and piped through the same two post-processing commands,
  * the exact commands / keyword arguments handed to subprocess.check_output, their order
    and chaining,
  * the exact warning text on stderr when the module has colliding names (and silence
    otherwise), also on repeated calls,
  * the generated modules work: calls through the stub reach the right handler once, with
    equal requests / responses, UNIMPLEMENTED, GRPCError status, call-level options
    overriding stub-level ones.
"""
import asyncio
import contextlib
import importlib
import io
import os
import sys
import tempfile

import jinja2
from google.protobuf import descriptor_pb2 as d
from google.protobuf.compiler import plugin_pb2

import betterproto
import betterproto.plugin.compiler as plugin_compiler
import betterproto.plugin.parser as plugin_parser
from betterproto.lib.google.protobuf.compiler import CodeGeneratorRequest
from betterproto.plugin.module_validation import ModuleValidator

import grpclib
from grpclib.metadata import Deadline
from grpclib.testing import ChannelFor

STRING = d.FieldDescriptorProto.TYPE_STRING
INT32 = d.FieldDescriptorProto.TYPE_INT32
OPTIONAL = d.FieldDescriptorProto.LABEL_OPTIONAL

# ----------------------------------------------------------- instrumented post-processing
SUBPROCESS_CALLS = []


def fake_check_output(*args, **kwargs):
    SUBPROCESS_CALLS.append((args, dict(kwargs)))
    assert len(args) == 1 and set(kwargs) == {"input", "encoding"}, (args, kwargs)
    # leave a trace so that chaining (2nd command gets the output of the 1st) is visible
    return kwargs["input"] + f"# pass: {' '.join(args[0])}\n"


plugin_compiler.subprocess.check_output = fake_check_output

EXPECTED_COMMANDS = [
    ["ruff", "check", "--select", "I,F401", "--fix", "--silent", "-"],
    ["ruff", "format", "-"],
]

TEMPLATES = os.path.join(os.path.dirname(betterproto.__file__), "templates")


def oracle_compiler(output_file):
    """What outputfile_compiler is specified to do, written independently."""
    env = jinja2.Environment(
        trim_blocks=True,
        lstrip_blocks=True,
        loader=jinja2.FileSystemLoader(TEMPLATES),
        undefined=jinja2.StrictUndefined,
    )
    body = env.get_template("template.py.j2").render(output_file=output_file)
    code = env.get_template("header.py.j2").render(output_file=output_file) + body
    for command in EXPECTED_COMMANDS:
        code += f"# pass: {' '.join(command)}\n"
    validator = ModuleValidator(iter(code.splitlines()))
    if not validator.validate():
        lines = ["[WARNING]: Generated code has collisions in the module:"]
        for name, occurrences in validator.collisions.items():
            lines.append(f'  "{name}" on lines:')
            for number, line in occurrences:
                lines.append(f"    {number}:{line}")
        print("\n".join(lines), file=sys.stderr)
    return code


# ------------------------------------------------------------------------------ programs
def simple_message(name, comment_fields=False):
    m = d.DescriptorProto(name=name)
    m.field.add(name="text", number=1, type=STRING, label=OPTIONAL)
    m.field.add(name="count", number=2, type=INT32, label=OPTIONAL)
    return m


CARDINALITIES = [(False, False), (False, True), (True, False), (True, True)]


def program(seed):
    """A deterministic family of multi-package programs."""
    files = []
    shared = d.FileDescriptorProto(name=f"p{seed}_shared.proto", package=f"p{seed}.shared", syntax="proto3")
    shared.message_type.append(simple_message("Envelope"))
    files.append(shared)

    main = d.FileDescriptorProto(name=f"p{seed}_main.proto", package=f"p{seed}.api.v1", syntax="proto3")
    main.message_type.append(simple_message("Question"))
    main.message_type.append(simple_message("Answer"))
    if seed % 3 == 0:
        # names that collide with typing imports of the generated module
        main.message_type.append(simple_message("Dict"))
        main.message_type.append(simple_message("Optional"))
    n_services = 1 + seed % 2
    method_names = ["Ask", "GetHTTPStatus", "list_all", "Do_It", "import", "SendV2Batch", "x"]
    for s in range(n_services):
        service = main.service.add(name=["Oracle", "second_service"][s])
        n_methods = 1 + (seed + s) % len(method_names)
        for j in range(n_methods):
            cs, ss = CARDINALITIES[(seed + j) % 4]
            method = service.method.add(
                name=method_names[j],
                input_type=[f".p{seed}.api.v1.Question", f".p{seed}.shared.Envelope", ".google.protobuf.StringValue"][(seed + j) % 3],
                output_type=[f".p{seed}.api.v1.Answer", f".p{seed}.shared.Envelope", ".google.protobuf.Empty"][(seed // 2 + j) % 3],
                client_streaming=cs,
                server_streaming=ss,
            )
            if (seed + j) % 5 == 0:
                method.options.deprecated = True
    if seed % 2:
        # comments on the service and its first method
        loc = main.source_code_info.location.add()
        loc.path.extend([6, 0])
        loc.leading_comments = f" Service number {seed}.\n With \"quotes\" and a \\ backslash.\n"
        loc = main.source_code_info.location.add()
        loc.path.extend([6, 0, 2, 0])
        loc.leading_comments = " First method.\n"
    files.append(main)
    return files


def plugin_request(files, parameter=""):
    raw = plugin_pb2.CodeGeneratorRequest(parameter=parameter)
    for f in files:
        raw.file_to_generate.append(f.name)
        raw.proto_file.append(f)
    return CodeGeneratorRequest().parse(raw.SerializeToString())


def run_plugin(files, parameter, compiler):
    """generate_code with the given per-file compiler; returns files, stderr, subprocess calls."""
    SUBPROCESS_CALLS.clear()
    original = plugin_parser.outputfile_compiler
    plugin_parser.outputfile_compiler = compiler
    err = io.StringIO()
    try:
        with contextlib.redirect_stderr(err):
            response = plugin_parser.generate_code(plugin_request(files, parameter))
    finally:
        plugin_parser.outputfile_compiler = original
    return {f.name: f.content for f in response.file}, err.getvalue(), list(SUBPROCESS_CALLS)


def check_rendering():
    checked = warned = 0
    for seed in range(24):
        for parameter in ("", "typing.root", "typing.310"):
            files = program(seed)
            got, got_err, calls = run_plugin(files, parameter, plugin_compiler.outputfile_compiler)
            want, want_err, oracle_calls = run_plugin(files, parameter, oracle_compiler)
            assert oracle_calls == []
            assert got == want, (seed, parameter)
            assert got_err == want_err, (seed, parameter, got_err, want_err)
            warned += "[WARNING]" in got_err
            # `class Dict` / `class Optional` only clash with `from typing import ...`
            assert ("[WARNING]" in got_err) == (seed % 3 == 0 and not parameter), (seed, parameter, got_err)

            # two output packages -> two rendered modules -> 2 x 2 commands, in order
            rendered = [c for n, c in got.items() if c]
            assert len(rendered) == 2 and len(calls) == 4
            for k, (args, kwargs) in enumerate(calls):
                assert type(args[0]) is list and args[0] == EXPECTED_COMMANDS[k % 2], args
                assert kwargs["encoding"] == "utf-8"
                if k % 2:
                    # the formatter is fed with the output of the import sorter
                    assert kwargs["input"] == calls[k - 1][1]["input"] + "# pass: " + " ".join(EXPECTED_COMMANDS[0]) + "\n"
            for content in rendered:
                assert content.endswith(
                    "".join(f"# pass: {' '.join(c)}\n" for c in EXPECTED_COMMANDS)
                )
                assert content.startswith("# Generated by the protocol buffer compiler.  DO NOT EDIT!")
            checked += 1

    # repeated use in one process gives the same text every time
    first = run_plugin(program(7), "", plugin_compiler.outputfile_compiler)
    for _ in range(5):
        assert run_plugin(program(7), "", plugin_compiler.outputfile_compiler) == first
    return checked, warned


# ------------------------------------------------------------------------- live services
def materialise(files_by_name, top):
    root = tempfile.mkdtemp(prefix="c11keep2")
    for name, content in files_by_name.items():
        path = os.path.join(root, top, name)
        os.makedirs(os.path.dirname(path), exist_ok=True)
        with open(path, "w") as fh:
            fh.write(content)
    sys.path.insert(0, root)


async def agen(items):
    for item in items:
        yield item


def live_program():
    f = d.FileDescriptorProto(name="live.proto", package="live.v1", syntax="proto3")
    f.message_type.append(simple_message("Question"))
    f.message_type.append(simple_message("Answer"))
    service = f.service.add(name="Oracle")
    for name, (cs, ss) in zip(["AskOnce", "GetHTTPAnswers", "tell_all", "Converse", "Unused"],
                              CARDINALITIES + [(False, True)]):
        service.method.add(name=name, input_type=".live.v1.Question", output_type=".live.v1.Answer",
                           client_streaming=cs, server_streaming=ss)
    other = f.service.add(name="Echo")
    other.method.add(name="AskOnce", input_type=".live.v1.Question", output_type=".live.v1.Answer")
    return [f]


async def check_live():
    files, err, _ = run_plugin(live_program(), "", plugin_compiler.outputfile_compiler)
    assert "[WARNING]" not in err, err
    materialise(files, "c11keep2gen")
    mod = importlib.import_module("c11keep2gen.live.v1")
    Question, Answer = mod.Question, mod.Answer
    calls = []

    class Oracle(mod.OracleBase):
        async def ask_once(self, question):
            calls.append(("ask_once", question))
            if question.text == "fail":
                raise grpclib.GRPCError(grpclib.const.Status.FAILED_PRECONDITION, "nope")
            return Answer(text="once:" + question.text, count=question.count)

        async def get_http_answers(self, question):
            calls.append(("get_http_answers", question))
            for i in range(question.count):
                yield Answer(text="http:" + question.text, count=i)
            if question.text == "fail":
                raise grpclib.GRPCError(grpclib.const.Status.OUT_OF_RANGE, "late")

        async def tell_all(self, question_iterator):
            got = [q async for q in question_iterator]
            calls.append(("tell_all", got))
            return Answer(text="|".join(q.text for q in got), count=len(got))

        async def converse(self, question_iterator):
            async for q in question_iterator:
                calls.append(("converse", q))
                for i in range(q.count):
                    yield Answer(text="conv:" + q.text, count=i)

    class Echo(mod.EchoBase):
        async def ask_once(self, question):
            calls.append(("echo.ask_once", question))
            return Answer(text=question.text, count=-question.count)

    seen = {}

    class Probe(mod.EchoBase):
        # the adapter is the generated one; only look at what the server stream carries
        async def ask_once(self, question):
            return Answer(text=question.text)

    async with ChannelFor([Oracle(), Echo()]) as channel:
        stub, echo = mod.OracleStub(channel), mod.EchoStub(channel)
        for n in range(4):
            q = Question(text=f"t{n}", count=n)
            calls.clear()
            assert await stub.ask_once(q) == Answer(text="once:" + q.text, count=n)
            assert calls == [("ask_once", q)]
            calls.clear()
            assert await echo.ask_once(q) == Answer(text=q.text, count=-n)
            assert calls == [("echo.ask_once", q)]
            calls.clear()
            got = [a async for a in stub.get_http_answers(q)]
            assert got == [Answer(text="http:" + q.text, count=i) for i in range(n)]
            assert calls == [("get_http_answers", q)]
            qs = [Question(text=f"m{i}", count=i) for i in range(n)]
            for source in (list, agen):
                calls.clear()
                assert await stub.tell_all(source(qs)) == Answer(text="|".join(x.text for x in qs), count=n)
                assert calls == [("tell_all", qs)]
                if n:
                    calls.clear()
                    got = [a async for a in stub.converse(source(qs))]
                    assert got == [Answer(text="conv:" + x.text, count=i) for x in qs for i in range(x.count)]
                    assert calls == [("converse", x) for x in qs]

        # handler status reaches the caller
        try:
            await stub.ask_once(Question(text="fail"))
        except grpclib.GRPCError as e:
            assert e.status is grpclib.const.Status.FAILED_PRECONDITION and e.message == "nope"
        else:
            raise AssertionError("no error")
        got = []
        try:
            async for a in stub.get_http_answers(Question(text="fail", count=2)):
                got.append(a)
        except grpclib.GRPCError as e:
            assert e.status is grpclib.const.Status.OUT_OF_RANGE
        else:
            raise AssertionError("no error")
        assert got == [Answer(text="http:fail", count=i) for i in range(2)]

        # not overridden -> UNIMPLEMENTED
        try:
            [a async for a in stub.unused(Question(text="x"))]
        except grpclib.GRPCError as e:
            assert e.status is grpclib.const.Status.UNIMPLEMENTED
        else:
            raise AssertionError("no error")

    # call-level options win over stub-level ones; observed on the server stream
    from grpclib.events import RecvRequest, listen

    async def on_request(event):
        seen["metadata"] = dict(event.metadata)
        seen["deadline"] = event.deadline

    channel_for = ChannelFor([Probe()])
    async with channel_for as channel:
        listen(channel_for._server, RecvRequest, on_request)
        for stub_md in (None, {"who": "stub"}):
            for call_md in (None, {"who": "call"}, {}):
                for stub_to in (None, 50.0):
                    for call_to in (None, 5.0):
                        s = mod.EchoStub(channel, timeout=stub_to, metadata=stub_md)
                        seen.clear()
                        assert await s.ask_once(Question(text="p"), timeout=call_to, metadata=call_md) == Answer(text="p")
                        want_md = stub_md if call_md is None else call_md
                        assert seen["metadata"].get("who") == (want_md or {}).get("who"), (seen, stub_md, call_md)
                        want_to = stub_to if call_to is None else call_to
                        if want_to is None:
                            assert seen["deadline"] is None
                        else:
                            remaining = seen["deadline"].time_remaining()
                            assert want_to - 2.0 < remaining <= want_to, (remaining, want_to)
        s = mod.EchoStub(channel, deadline=Deadline.from_timeout(40.0))
        seen.clear()
        await s.ask_once(Question(), deadline=Deadline.from_timeout(4.0))
        assert 2.0 < seen["deadline"].time_remaining() <= 4.0
        seen.clear()
        await s.ask_once(Question())
        assert 38.0 < seen["deadline"].time_remaining() <= 40.0
    return True


checked, warned = check_rendering()
err = io.StringIO()
with contextlib.redirect_stderr(err):
    asyncio.run(asyncio.wait_for(check_live(), 90))
print(f"C11 keep2 equiv: OK ({checked} programs rendered, {warned} with collision warnings, live calls checked)")
