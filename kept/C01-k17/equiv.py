"""Equivalence check for the emission tail of Message.dump (repeated / packed /
map / singular records).  Compares bytes(m) with an independent reference
encoder written here and with google.protobuf, checks len(m), delimited dumps,
round trips and the partial output left in the stream when an item fails to
encode.  Must exit 0 on the pristine tree and with the refactor applied."""
import io
import random
import struct
import sys
from dataclasses import dataclass
from datetime import datetime, timedelta, timezone
from typing import Dict, List, Optional

import betterproto
from betterproto import Message

assert "/tmp/wt/R12C01/src" in betterproto.__file__, betterproto.__file__


class Color(betterproto.Enum):
    ZERO = 0
    ONE = 1
    NEG = -1
    BIG = 2147483647
    SMALL = -2147483648


@dataclass(eq=False, repr=False)
class Leaf(Message):
    a: int = betterproto.int32_field(1)
    s: str = betterproto.string_field(2)


@dataclass(eq=False, repr=False)
class Empty(Message):
    pass


@dataclass(eq=False, repr=False)
class Rep(Message):
    i32: List[int] = betterproto.int32_field(1)
    i64: List[int] = betterproto.int64_field(2)
    u32: List[int] = betterproto.uint32_field(3)
    u64: List[int] = betterproto.uint64_field(4)
    s32: List[int] = betterproto.sint32_field(5)
    s64: List[int] = betterproto.sint64_field(6)
    bo: List[bool] = betterproto.bool_field(7)
    en: List[Color] = betterproto.enum_field(8)
    f32: List[int] = betterproto.fixed32_field(9)
    f64: List[int] = betterproto.fixed64_field(10)
    sf32: List[int] = betterproto.sfixed32_field(11)
    sf64: List[int] = betterproto.sfixed64_field(12)
    fl: List[float] = betterproto.float_field(13)
    db: List[float] = betterproto.double_field(14)
    st: List[str] = betterproto.string_field(15)
    by: List[bytes] = betterproto.bytes_field(16)
    ms: List[Leaf] = betterproto.message_field(17)
    em: List[Empty] = betterproto.message_field(18)
    ts: List[datetime] = betterproto.message_field(19)
    du: List[timedelta] = betterproto.message_field(20)
    big: List[int] = betterproto.int32_field(3000)


@dataclass(eq=False, repr=False)
class Maps(Message):
    si: Dict[str, int] = betterproto.map_field(
        1, betterproto.TYPE_STRING, betterproto.TYPE_INT32
    )
    im: Dict[int, Leaf] = betterproto.map_field(
        2, betterproto.TYPE_INT64, betterproto.TYPE_MESSAGE
    )
    be: Dict[bool, Color] = betterproto.map_field(
        3, betterproto.TYPE_BOOL, betterproto.TYPE_ENUM
    )
    zs: Dict[int, str] = betterproto.map_field(
        4, betterproto.TYPE_SINT64, betterproto.TYPE_STRING
    )
    fb: Dict[int, bytes] = betterproto.map_field(
        5, betterproto.TYPE_FIXED32, betterproto.TYPE_BYTES
    )
    sd: Dict[str, float] = betterproto.map_field(
        600, betterproto.TYPE_STRING, betterproto.TYPE_DOUBLE
    )
    xf: Dict[int, int] = betterproto.map_field(
        7, betterproto.TYPE_SFIXED64, betterproto.TYPE_UINT64
    )


@dataclass(eq=False, repr=False)
class Single(Message):
    a: int = betterproto.int32_field(1)
    s: str = betterproto.string_field(2)
    leaf: Leaf = betterproto.message_field(3)
    o_s: str = betterproto.string_field(4, group="g")
    o_i: int = betterproto.sint32_field(5, group="g")
    o_m: Leaf = betterproto.message_field(6, group="g")
    opt: Optional[int] = betterproto.uint32_field(7, optional=True)
    wrapped: Optional[int] = betterproto.message_field(
        8, wraps=betterproto.TYPE_INT64
    )
    wstr: Optional[str] = betterproto.message_field(9, wraps=betterproto.TYPE_STRING)
    when: datetime = betterproto.message_field(10)
    span: timedelta = betterproto.message_field(11)
    rep: Rep = betterproto.message_field(12)
    maps: Maps = betterproto.message_field(13)
    d: float = betterproto.double_field(14)


# --------------------------------------------------------------------------
# independent reference encoder
# --------------------------------------------------------------------------
def vi(n):
    if n < 0:
        n += 1 << 64
    out = bytearray()
    while True:
        b = n & 0x7F
        n >>= 7
        if n:
            out.append(b | 0x80)
        else:
            out.append(b)
            return bytes(out)


def zz(n):
    return (n << 1) if n >= 0 else ((-n) << 1) - 1


FIXED = {
    "fixed32": "<I",
    "fixed64": "<Q",
    "sfixed32": "<i",
    "sfixed64": "<q",
    "float": "<f",
    "double": "<d",
}
VARINT = {"int32", "int64", "uint32", "uint64", "bool", "enum"}


def payload(t, v):
    """(wire type, payload) of one value."""
    if t in VARINT:
        return 0, vi(int(v))
    if t in ("sint32", "sint64"):
        return 0, vi(zz(v))
    if t in FIXED:
        return (5 if FIXED[t][1] in "Iif" else 1), struct.pack(FIXED[t], v)
    if t == "string":
        return 2, v.encode()
    if t == "bytes":
        return 2, bytes(v)
    raise AssertionError(t)


def rec(number, wt, body):
    key = vi(number << 3 | wt)
    if wt == 2:
        return key + vi(len(body)) + body
    return key + body


def ref_leaf(m):
    out = b""
    if m.a:
        out += rec(1, 0, vi(m.a))
    if m.s:
        out += rec(2, 2, m.s.encode())
    return out


def ref_ts(dt):
    us = (dt - datetime(1970, 1, 1, tzinfo=timezone.utc)) // timedelta(microseconds=1)
    sec, frac = divmod(us, 10**6)
    out = b""
    if sec:
        out += rec(1, 0, vi(sec))
    if frac:
        out += rec(2, 0, vi(frac * 1000))
    return out


def ref_du(td):
    us = td // timedelta(microseconds=1)
    neg = us < 0
    sec, frac = divmod(abs(us), 10**6)
    if neg:
        sec, frac = -sec, -frac
    out = b""
    if sec:
        out += rec(1, 0, vi(sec))
    if frac:
        out += rec(2, 0, vi(frac * 1000))
    return out


REP_TYPES = [
    ("i32", 1, "int32"),
    ("i64", 2, "int64"),
    ("u32", 3, "uint32"),
    ("u64", 4, "uint64"),
    ("s32", 5, "sint32"),
    ("s64", 6, "sint64"),
    ("bo", 7, "bool"),
    ("en", 8, "enum"),
    ("f32", 9, "fixed32"),
    ("f64", 10, "fixed64"),
    ("sf32", 11, "sfixed32"),
    ("sf64", 12, "sfixed64"),
    ("fl", 13, "float"),
    ("db", 14, "double"),
]


def ref_rep(m):
    out = b""
    for name, number, t in REP_TYPES:
        items = getattr(m, name)
        if items:
            out += rec(number, 2, b"".join(payload(t, v)[1] for v in items))
    for v in m.st:
        out += rec(15, 2, v.encode())
    for v in m.by:
        out += rec(16, 2, v)
    for v in m.ms:
        out += rec(17, 2, ref_leaf(v))
    for v in m.em:
        out += rec(18, 2, b"")
    for v in m.ts:
        out += rec(19, 2, ref_ts(v))
    for v in m.du:
        out += rec(20, 2, ref_du(v))
    if m.big:
        out += rec(3000, 2, b"".join(vi(v) for v in m.big))
    return out


MAP_TYPES = [
    ("si", 1, "string", "int32"),
    ("im", 2, "int64", "message"),
    ("be", 3, "bool", "enum"),
    ("zs", 4, "sint64", "string"),
    ("fb", 5, "fixed32", "bytes"),
    ("sd", 600, "string", "double"),
    ("xf", 7, "sfixed64", "uint64"),
]


def is_default(t, v):
    if t in ("float", "double"):
        return v == 0  # betterproto compares with ==, so -0.0 is skipped too
    if t == "string":
        return v == ""
    if t == "bytes":
        return v == b""
    return int(v) == 0


def ref_entry_part(number, t, v):
    if t == "message":
        body = ref_leaf(v)
        # nested message inside an entry: emitted only when non-empty
        return rec(number, 2, body) if body else b""
    wt, body = payload(t, v)
    if wt == 2:
        return rec(number, 2, body) if body else b""
    return rec(number, wt, body)


def ref_maps(m):
    out = b""
    for name, number, kt, vt in MAP_TYPES:
        for k, v in getattr(m, name).items():
            entry = ref_entry_part(1, kt, k) + ref_entry_part(2, vt, v)
            out += rec(number, 2, entry)
    return out


# --------------------------------------------------------------------------
# value pools
# --------------------------------------------------------------------------
rnd = random.Random(20240)
I32 = [0, 1, -1, 127, 128, 16383, 16384, 2**31 - 1, -(2**31), 300, -300]
I64 = I32 + [2**63 - 1, -(2**63), 2**32, -(2**32), 2**56, -(2**56) - 1]
U32 = [0, 1, 127, 128, 2**32 - 1, 2**31, 70000]
U64 = U32 + [2**64 - 1, 2**63, 2**35]
FLOATS32 = [0.0, -0.0, 1.0, -1.5, float("inf"), float("-inf"), 3.0e38, 1e-45, 0.5]
FLOATS32 = [struct.unpack("<f", struct.pack("<f", v))[0] for v in FLOATS32]
FLOATS64 = FLOATS32 + [1e308, -1e-320, 2.2250738585072014e-308, 0.1]
STRS = ["", "a", "héllo", "\U0001f600\U00010000", "x" * 127, "y" * 128, "z" * 20000, "\x00"]
BYTES = [b"", b"\x00", b"\xff" * 3, bytes(range(256)), b"q" * 128, b"\n\x00"]
ENUMS = [Color.ZERO, Color.ONE, Color.NEG, Color.BIG, Color.SMALL, Color.try_value(77), Color.try_value(-5)]
UTC = timezone.utc
DTS = [
    datetime(1970, 1, 1, tzinfo=UTC),
    datetime(1969, 12, 31, 23, 59, 59, 999999, tzinfo=UTC),
    datetime(2024, 2, 29, 12, 0, 0, 1, tzinfo=UTC),
    datetime(1, 1, 1, tzinfo=UTC),
    datetime(9999, 12, 31, 23, 59, 59, 999999, tzinfo=UTC),
]
TDS = [
    timedelta(0),
    timedelta(microseconds=1),
    timedelta(microseconds=-1),
    timedelta(seconds=-1, microseconds=-500000),
    timedelta(days=3, seconds=7, microseconds=9),
    timedelta.min,
    timedelta.max,
]
LEAVES = [lambda: Leaf(), lambda: Leaf(a=5), lambda: Leaf(s="k"), lambda: Leaf(a=-1, s="\U0001f600")]
POOL = {
    "i32": I32, "i64": I64, "u32": U32, "u64": U64, "s32": I32, "s64": I64,
    "bo": [False, True], "en": ENUMS, "f32": U32, "f64": U64, "sf32": I32,
    "sf64": I64, "fl": FLOATS32, "db": FLOATS64, "st": STRS, "by": BYTES,
    "ts": DTS, "du": TDS, "big": I32,
}


def pick_list(pool, allow_all=True):
    mode = rnd.randrange(5)
    if mode == 0:
        return []
    if mode == 1:
        return [rnd.choice(pool)]
    if mode == 2 and allow_all:
        return list(pool)
    return [rnd.choice(pool) for _ in range(rnd.randrange(2, 9))]


def random_rep():
    kw = {name: pick_list(pool) for name, pool in POOL.items()}
    kw["ms"] = [f() for f in pick_list(LEAVES)]
    kw["em"] = [Empty() for _ in range(rnd.randrange(0, 4))]
    return Rep(**kw)


def random_maps():
    def d(keys, vals, n=None):
        n = rnd.randrange(0, 6) if n is None else n
        return {rnd.choice(keys): (rnd.choice(vals)() if callable(vals[0]) else rnd.choice(vals)) for _ in range(n)}

    return Maps(
        si=d(STRS[:6], I32),
        im=d(I64, LEAVES),
        be=d([False, True], ENUMS),
        zs=d(I64, STRS[:6]),
        fb=d(U32, BYTES),
        sd=d(STRS[:6], [x for x in FLOATS64]),
        xf=d(I64, U64),
    )


def same(a, b):
    """Field-wise equality that also checks nested presence."""
    return a == b and bytes(a) == bytes(b)


def check(m, ref_bytes):
    data = bytes(m)
    assert data == ref_bytes, (m, data, ref_bytes)
    assert len(m) == len(data)
    assert m.SerializeToString() == data
    buf = io.BytesIO()
    m.dump(buf)
    assert buf.getvalue() == data
    buf = io.BytesIO()
    m.dump(buf, betterproto.SIZE_DELIMITED)
    assert buf.getvalue() == vi(len(data)) + data
    back = type(m)().parse(data)
    assert back == m, (m, back)
    assert bytes(back) == data
    buf.seek(0)
    assert type(m)().load(buf, betterproto.SIZE_DELIMITED) == m
    return data


# --------------------------------------------------------------------------
# 1. repeated fields, one field at a time, every boundary value
# --------------------------------------------------------------------------
count = 0
for name, number, t in REP_TYPES:
    pool = POOL[name]
    for items in [[v] for v in pool] + [list(pool), list(reversed(pool)), pool * 40]:
        m = Rep(**{name: list(items)})
        check(m, ref_rep(m))
        count += 1
for name in ("st", "by", "ts", "du", "big"):
    pool = POOL[name]
    for items in [[v] for v in pool] + [list(pool), list(reversed(pool))]:
        m = Rep(**{name: list(items)})
        check(m, ref_rep(m))
        count += 1
for k in range(0, 5):
    m = Rep(em=[Empty() for _ in range(k)], ms=[f() for f in LEAVES[:k]])
    data = check(m, ref_rep(m))
    back = Rep().parse(data)
    assert len(back.em) == k and len(back.ms) == min(k, 4)
assert bytes(Rep()) == b"" and len(Rep()) == 0
# a repeated field of empty messages in field 1 (the literal b"\n\x00" fallback)
@dataclass(eq=False, repr=False)
class RepEmpty1(Message):
    e: List[Empty] = betterproto.message_field(1)
    w: List[Optional[int]] = betterproto.message_field(2, wraps=betterproto.TYPE_INT32)


assert bytes(RepEmpty1(e=[Empty(), Empty()])) == b"\n\x00\n\x00"
assert bytes(RepEmpty1(w=[0, 5, -1])) == b"\x12\x00\x12\x02\x08\x05\x12\x0b\x08" + b"\xff" * 9 + b"\x01"
assert len(RepEmpty1(w=[0, 5, -1])) == 19

# --------------------------------------------------------------------------
# 2. random repeated messages
# --------------------------------------------------------------------------
for _ in range(300):
    m = random_rep()
    check(m, ref_rep(m))
    count += 1

# --------------------------------------------------------------------------
# 3. maps
# --------------------------------------------------------------------------
assert bytes(Maps()) == b""
check(Maps(si={"": 0}), b"\x0a\x02\x10\x00")
check(Maps(im={0: Leaf()}), b"\x12\x02\x08\x00")
check(Maps(sd={"": 0.0}), rec(600, 2, rec(2, 1, b"\x00" * 8)))
check(Maps(be={False: Color.ZERO, True: Color.NEG}), ref_maps(Maps(be={False: Color.ZERO, True: Color.NEG})))
for name, number, kt, vt in MAP_TYPES:
    pass
for _ in range(400):
    m = random_maps()
    check(m, ref_maps(m))
    count += 1
# insertion order of the dict is the emission order
m1 = Maps(si={"a": 1, "b": 2, "c": 3})
m2 = Maps(si={"c": 3, "b": 2, "a": 1})
assert bytes(m1) != bytes(m2) and m1 == m2
assert bytes(m1) == ref_maps(m1) and bytes(m2) == ref_maps(m2)

# --------------------------------------------------------------------------
# 4. singular / oneof / optional / wrapper emission around the list+map branches
# --------------------------------------------------------------------------
def ref_single(m):
    out = b""
    if m.a:
        out += rec(1, 0, vi(m.a))
    if m.s:
        out += rec(2, 2, m.s.encode())
    if betterproto.serialized_on_wire(m.leaf):
        out += rec(3, 2, ref_leaf(m.leaf))
    which, val = betterproto.which_one_of(m, "g")
    if which == "o_s":
        out += rec(4, 2, val.encode())
    elif which == "o_i":
        out += rec(5, 0, vi(zz(val)))
    elif which == "o_m":
        out += rec(6, 2, ref_leaf(val))
    if m.opt is not None:
        out += rec(7, 0, vi(m.opt))
    if m.wrapped is not None:
        out += rec(8, 2, rec(1, 0, vi(m.wrapped)) if m.wrapped else b"")
    if m.wstr is not None:
        out += rec(9, 2, rec(1, 2, m.wstr.encode()) if m.wstr else b"")
    if m.when != datetime(1970, 1, 1, tzinfo=UTC):
        out += rec(10, 2, ref_ts(m.when))
    if m.span != timedelta(0):
        out += rec(11, 2, ref_du(m.span))
    if betterproto.serialized_on_wire(m.rep):
        out += rec(12, 2, ref_rep(m.rep))
    if betterproto.serialized_on_wire(m.maps):
        out += rec(13, 2, ref_maps(m.maps))
    if m.d != 0:
        out += rec(14, 1, struct.pack("<d", m.d))
    return out


singles = [
    Single(),
    Single(o_s=""),
    Single(o_s="x"),
    Single(o_i=0),
    Single(o_i=-7),
    Single(o_m=Leaf()),
    Single(o_m=Leaf(a=1)),
    Single(opt=0),
    Single(opt=9),
    Single(wrapped=0, wstr=""),
    Single(wrapped=-1, wstr="w"),
    Single(leaf=Leaf()),
    Single(leaf=Leaf(s="q")),
    Single(rep=Rep()),
    Single(maps=Maps()),
    Single(a=-1, s="\U0001f600", d=float("-inf")),
]
for w in DTS:
    singles.append(Single(when=w))
for s in TDS:
    singles.append(Single(span=s))
for _ in range(150):
    kw = dict(a=rnd.choice(I32), s=rnd.choice(STRS[:6]), d=rnd.choice(FLOATS64))
    g = rnd.randrange(4)
    if g == 0:
        kw["o_s"] = rnd.choice(STRS[:4])
    elif g == 1:
        kw["o_i"] = rnd.choice(I32)
    elif g == 2:
        kw["o_m"] = rnd.choice(LEAVES)()
    if rnd.random() < 0.5:
        kw["opt"] = rnd.choice(U32)
    if rnd.random() < 0.5:
        kw["wrapped"] = rnd.choice(I64)
    if rnd.random() < 0.5:
        kw["wstr"] = rnd.choice(STRS[:4])
    if rnd.random() < 0.5:
        kw["rep"] = random_rep()
    if rnd.random() < 0.5:
        kw["maps"] = random_maps()
    if rnd.random() < 0.5:
        kw["when"] = rnd.choice(DTS)
    if rnd.random() < 0.5:
        kw["span"] = rnd.choice(TDS)
    singles.append(Single(**kw))
for m in singles:
    data = check(m, ref_single(m))
    back = Single().parse(data)
    assert betterproto.which_one_of(back, "g") == betterproto.which_one_of(m, "g")
    assert (back.opt, back.wrapped, back.wstr) == (m.opt, m.wrapped, m.wstr)
    for f in ("leaf", "rep", "maps"):
        assert betterproto.serialized_on_wire(getattr(back, f)) == betterproto.serialized_on_wire(getattr(m, f))
    count += 1

# unknown fields are appended after all known records
u = Rep().parse(b"\xf8\x07\x05" + b"\x0a\x02\x01\x02")
assert bytes(u) == b"\x0a\x02\x01\x02" + b"\xf8\x07\x05" and len(u) == 7

# --------------------------------------------------------------------------
# 5. failure while encoding: what is already in the stream, and the exception
# --------------------------------------------------------------------------
def partial(m):
    buf = io.BytesIO()
    try:
        m.dump(buf)
    except Exception as e:  # noqa: BLE001
        return type(e), str(e), buf.getvalue()
    return None, None, buf.getvalue()


# packed run: nothing of the run is written when one item is bad
t, msg, got = partial(Rep(i32=[1, 2], u64=[1, -(2**70), 3], st=["after"]))
assert t is ValueError and got == b"\x0a\x02\x01\x02", (t, msg, got)
t, msg, got = partial(Rep(i32=[7], f32=[1, 2**40], st=["after"]))
assert t is struct.error and got == b"\x0a\x01\x07", (t, msg, got)
t, msg, got = partial(Rep(i32=[7], fl=[1.0, "x"]))
assert t is struct.error and got == b"\x0a\x01\x07", (t, msg, got)
# non-packed run: the items before the bad one are already written
t, msg, got = partial(Rep(i32=[7], st=["ok", "fine", 5, "never"]))
assert t is AttributeError and got == b"\x0a\x01\x07" + b"\x7a\x02ok\x7a\x04fine", (t, msg, got)
t, msg, got = partial(Rep(ms=[Leaf(a=1), Leaf(a=-(2**70)), Leaf(a=2)]))
assert t is ValueError and got == b"\x8a\x01\x02\x08\x01", (t, msg, got)
# map: entries before the bad one are written
t, msg, got = partial(Maps(si={"a": 1, "b": -(2**70), "c": 3}))
assert t is ValueError and got == b"\x0a\x05\x0a\x01a\x10\x01", (t, msg, got)
t, msg, got = partial(Maps(si={"a": 1, 5: 2}))
assert t is AttributeError and got == b"\x0a\x05\x0a\x01a\x10\x01", (t, msg, got)
# a stream whose write fails sees the first record only
class Boom(Exception):
    pass


class OneWrite:
    def __init__(self):
        self.chunks = []

    def write(self, b):
        if len(self.chunks) >= 2:
            raise Boom()
        self.chunks.append(bytes(b))


ow = OneWrite()
try:
    Rep(i32=[1, 2, 3], st=["a", "b", "c"], by=[b"z"]).dump(ow)
    raise AssertionError("no Boom")
except Boom:
    pass
assert ow.chunks == [b"\x0a\x03\x01\x02\x03", b"\x7a\x01a"], ow.chunks
# the chunks handed to write() are bytes objects, one per record
ow = OneWrite()
ow.write = lambda b, _c=ow.chunks: _c.append(b)
Maps(si={"a": 1, "b": 2}, zs={-1: "m"}).dump(ow)
assert all(type(c) is bytes for c in ow.chunks)
assert ow.chunks == [b"\x0a\x05\x0a\x01a\x10\x01", b"\x0a\x05\x0a\x01b\x10\x02", b"\x22\x05\x08\x01\x12\x01m", b""], ow.chunks

# --------------------------------------------------------------------------
# 6. cross-check with google.protobuf on a dynamically built twin of Rep/Maps
# --------------------------------------------------------------------------
from google.protobuf import descriptor_pb2, descriptor_pool
from google.protobuf import message_factory

F = descriptor_pb2.FieldDescriptorProto
fd = descriptor_pb2.FileDescriptorProto(name="k1.proto", package="k1", syntax="proto3")
en = fd.enum_type.add(name="Color")
for n, v in (("ZERO", 0), ("ONE", 1), ("NEG", -1), ("BIG", 2147483647), ("SMALL", -2147483648)):
    en.value.add(name=n, number=v)
leaf = fd.message_type.add(name="Leaf")
leaf.field.add(name="a", number=1, type=F.TYPE_INT32, label=F.LABEL_OPTIONAL)
leaf.field.add(name="s", number=2, type=F.TYPE_STRING, label=F.LABEL_OPTIONAL)
rep = fd.message_type.add(name="Rep")
GT = {
    "int32": F.TYPE_INT32, "int64": F.TYPE_INT64, "uint32": F.TYPE_UINT32,
    "uint64": F.TYPE_UINT64, "sint32": F.TYPE_SINT32, "sint64": F.TYPE_SINT64,
    "bool": F.TYPE_BOOL, "enum": F.TYPE_ENUM, "fixed32": F.TYPE_FIXED32,
    "fixed64": F.TYPE_FIXED64, "sfixed32": F.TYPE_SFIXED32, "sfixed64": F.TYPE_SFIXED64,
    "float": F.TYPE_FLOAT, "double": F.TYPE_DOUBLE, "string": F.TYPE_STRING,
    "bytes": F.TYPE_BYTES, "message": F.TYPE_MESSAGE,
}
for name, number, t in REP_TYPES:
    f = rep.field.add(name=name, number=number, type=GT[t], label=F.LABEL_REPEATED)
    if t == "enum":
        f.type_name = ".k1.Color"
rep.field.add(name="st", number=15, type=F.TYPE_STRING, label=F.LABEL_REPEATED)
rep.field.add(name="by", number=16, type=F.TYPE_BYTES, label=F.LABEL_REPEATED)
rep.field.add(name="ms", number=17, type=F.TYPE_MESSAGE, label=F.LABEL_REPEATED, type_name=".k1.Leaf")
rep.field.add(name="big", number=3000, type=F.TYPE_INT32, label=F.LABEL_REPEATED)
maps = fd.message_type.add(name="Maps")
for name, number, kt, vt in MAP_TYPES:
    entry = maps.nested_type.add(name=f"E{number}Entry")
    entry.options.map_entry = True
    entry.field.add(name="key", number=1, type=GT[kt], label=F.LABEL_OPTIONAL)
    vf = entry.field.add(name="value", number=2, type=GT[vt], label=F.LABEL_OPTIONAL)
    if vt == "message":
        vf.type_name = ".k1.Leaf"
    if vt == "enum":
        vf.type_name = ".k1.Color"
    maps.field.add(name=f"e{number}", number=number, type=F.TYPE_MESSAGE, label=F.LABEL_REPEATED, type_name=f".k1.Maps.E{number}Entry")
pool = descriptor_pool.DescriptorPool()
pool.Add(fd)
if hasattr(message_factory, "GetMessageClass"):
    GRep = message_factory.GetMessageClass(pool.FindMessageTypeByName("k1.Rep"))
    GMaps = message_factory.GetMessageClass(pool.FindMessageTypeByName("k1.Maps"))
else:
    fac = message_factory.MessageFactory(pool)
    GRep = fac.GetPrototype(pool.FindMessageTypeByName("k1.Rep"))
    GMaps = fac.GetPrototype(pool.FindMessageTypeByName("k1.Maps"))

import math


def fl_eq(a, b):
    return all((x == y) or (math.isnan(x) and math.isnan(y)) for x, y in zip(a, b)) and len(a) == len(b)


for _ in range(200):
    m = random_rep()
    m.ts, m.du, m.em = [], [], []
    data = bytes(m)
    g = GRep.FromString(data)
    for name, number, t in REP_TYPES:
        got = list(getattr(g, name))
        want = [int(v) if t not in ("float", "double") else v for v in getattr(m, name)]
        if t == "float":
            want = [struct.unpack("<f", struct.pack("<f", v))[0] for v in want]
        assert fl_eq(got, want), (name, got, want)
    assert list(g.st) == m.st and list(g.by) == m.by and list(g.big) == m.big
    assert [(x.a, x.s) for x in g.ms] == [(x.a, x.s) for x in m.ms]
    # google emits packed runs and records in field-number order just as Rep declares them
    assert g.SerializeToString() == data
    assert Rep().parse(g.SerializeToString()) == m
    count += 1

for _ in range(200):
    m = random_maps()
    data = bytes(m)
    g = GMaps.FromString(data)
    for name, number, kt, vt in MAP_TYPES:
        gm = getattr(g, f"e{number}")
        bm = getattr(m, name)
        assert set(gm.keys()) == set(bm.keys()), (name, dict(gm), bm)
        for k, v in bm.items():
            if vt == "message":
                assert (gm[k].a, gm[k].s) == (v.a, v.s)
            else:
                assert gm[k] == (int(v) if vt == "enum" else v), (name, k, gm[k], v)
    assert Maps().parse(g.SerializeToString(deterministic=True)) == m
    count += 1

print(f"equiv keep1 OK ({count} messages checked)")
