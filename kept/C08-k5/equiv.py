"""C08 / keep1: Message.dump and Message.__len__ (known fields first, then the
unknown fields) exercised on many schemas and values.

* random values of a "newer" schema with scalars, nested / repeated messages,
  packed and unpacked lists, maps, a oneof and proto3-optional fields
  (including every "set to the default value" corner: selected oneof members
  holding 0 / "" / b"" / an empty message, optional fields set to 0 / "")
* many "older" schemas obtained by deleting random subsets of fields (also inside
  the nested message, also ALL fields)
* checks: bytes() / dump() / len() agree, delimited dumps carry the right size,
  unknown fields come back byte for byte after the known ones, the newer schema
  and google.protobuf (reference decoder) read the re-emitted bytes as the
  original value, and a digest over everything produced is a fixed constant.
"""
import hashlib
import random
from dataclasses import dataclass
from io import BytesIO
from typing import Dict, List, Optional

import betterproto as bp
from betterproto import encode_varint
from google.protobuf import descriptor_pb2, descriptor_pool, message_factory

F = descriptor_pb2.FieldDescriptorProto

# --------------------------------------------------------------------------
# schema description: number, name, python annotation (S = nested class),
# betterproto field factory, google type, label/extra
# --------------------------------------------------------------------------
SUB_FIELDS = [
    (1, "x", lambda S: int, lambda: bp.int32_field(1)),
    (2, "s", lambda S: str, lambda: bp.string_field(2)),
    (3, "r", lambda S: List[int], lambda: bp.sint64_field(3)),
]

TOP_FIELDS = [
    (1, "a", lambda S: int, lambda: bp.int32_field(1)),
    (2, "b", lambda S: str, lambda: bp.string_field(2)),
    (3, "sub", lambda S: S, lambda: bp.message_field(3)),
    (4, "subs", lambda S: List[S], lambda: bp.message_field(4)),
    (5, "packed", lambda S: List[int], lambda: bp.int32_field(5)),
    (6, "strs", lambda S: List[str], lambda: bp.string_field(6)),
    (7, "m", lambda S: Dict[str, int], lambda: bp.map_field(7, bp.TYPE_STRING, bp.TYPE_INT32)),
    (8, "ms", lambda S: Dict[int, S], lambda: bp.map_field(8, bp.TYPE_INT32, bp.TYPE_MESSAGE)),
    (9, "oi", lambda S: int, lambda: bp.int32_field(9, group="choice")),
    (10, "os", lambda S: str, lambda: bp.string_field(10, group="choice")),
    (11, "osub", lambda S: S, lambda: bp.message_field(11, group="choice")),
    (12, "ob", lambda S: bytes, lambda: bp.bytes_field(12, group="choice")),
    (13, "opt_i", lambda S: Optional[int], lambda: bp.int32_field(13, optional=True)),
    (14, "opt_s", lambda S: Optional[str], lambda: bp.string_field(14, optional=True)),
    (15, "opt_sub", lambda S: Optional[S], lambda: bp.message_field(15, optional=True)),
    (16, "d", lambda S: float, lambda: bp.double_field(16)),
    (17, "f32", lambda S: int, lambda: bp.fixed32_field(17)),
    (18, "sf64", lambda S: int, lambda: bp.sfixed64_field(18)),
    (19, "flag", lambda S: bool, lambda: bp.bool_field(19)),
    (20, "raw", lambda S: bytes, lambda: bp.bytes_field(20)),
    (21, "big", lambda S: int, lambda: bp.uint64_field(21)),
    (22, "zz", lambda S: int, lambda: bp.sint32_field(22)),
    (1000, "far", lambda S: int, lambda: bp.int64_field(1000)),
    (2**29 - 1, "last", lambda S: str, lambda: bp.string_field(2**29 - 1)),
]


def make_class(name, fields, keep, sub_cls=None):
    ns = {"__annotations__": {}}
    for number, fname, ann, factory in fields:
        if number in keep:
            ns["__annotations__"][fname] = ann(sub_cls)
            ns[fname] = factory()
    return dataclass(eq=False, repr=False)(type(name, (bp.Message,), ns))


SUB_ALL = [f[0] for f in SUB_FIELDS]
TOP_ALL = [f[0] for f in TOP_FIELDS]
Sub = make_class("Sub", SUB_FIELDS, SUB_ALL)
Newer = make_class("Newer", TOP_FIELDS, TOP_ALL, Sub)


# ------------------------------------------------------- reference decoder
def build_reference():
    fd = descriptor_pb2.FileDescriptorProto(name="c08_keep1.proto", package="c08k1", syntax="proto3")
    sub = fd.message_type.add(name="Sub")
    sub.field.add(name="x", number=1, type=F.TYPE_INT32, label=F.LABEL_OPTIONAL)
    sub.field.add(name="s", number=2, type=F.TYPE_STRING, label=F.LABEL_OPTIONAL)
    sub.field.add(name="r", number=3, type=F.TYPE_SINT64, label=F.LABEL_REPEATED)
    top = fd.message_type.add(name="Newer")
    S = ".c08k1.Sub"

    def add(name, number, type_, label=F.LABEL_OPTIONAL, **kw):
        return top.field.add(name=name, number=number, type=type_, label=label, **kw)

    add("a", 1, F.TYPE_INT32)
    add("b", 2, F.TYPE_STRING)
    add("sub", 3, F.TYPE_MESSAGE, type_name=S)
    add("subs", 4, F.TYPE_MESSAGE, F.LABEL_REPEATED, type_name=S)
    add("packed", 5, F.TYPE_INT32, F.LABEL_REPEATED)
    add("strs", 6, F.TYPE_STRING, F.LABEL_REPEATED)
    e = top.nested_type.add(name="MEntry")
    e.options.map_entry = True
    e.field.add(name="key", number=1, type=F.TYPE_STRING, label=F.LABEL_OPTIONAL)
    e.field.add(name="value", number=2, type=F.TYPE_INT32, label=F.LABEL_OPTIONAL)
    add("m", 7, F.TYPE_MESSAGE, F.LABEL_REPEATED, type_name=".c08k1.Newer.MEntry")
    e = top.nested_type.add(name="MsEntry")
    e.options.map_entry = True
    e.field.add(name="key", number=1, type=F.TYPE_INT32, label=F.LABEL_OPTIONAL)
    e.field.add(name="value", number=2, type=F.TYPE_MESSAGE, label=F.LABEL_OPTIONAL, type_name=S)
    add("ms", 8, F.TYPE_MESSAGE, F.LABEL_REPEATED, type_name=".c08k1.Newer.MsEntry")
    top.oneof_decl.add(name="choice")
    add("oi", 9, F.TYPE_INT32, oneof_index=0)
    add("os", 10, F.TYPE_STRING, oneof_index=0)
    add("osub", 11, F.TYPE_MESSAGE, type_name=S, oneof_index=0)
    add("ob", 12, F.TYPE_BYTES, oneof_index=0)
    top.oneof_decl.add(name="_opt_i")
    top.oneof_decl.add(name="_opt_s")
    top.oneof_decl.add(name="_opt_sub")
    add("opt_i", 13, F.TYPE_INT32, oneof_index=1, proto3_optional=True)
    add("opt_s", 14, F.TYPE_STRING, oneof_index=2, proto3_optional=True)
    add("opt_sub", 15, F.TYPE_MESSAGE, type_name=S, oneof_index=3, proto3_optional=True)
    add("d", 16, F.TYPE_DOUBLE)
    add("f32", 17, F.TYPE_FIXED32)
    add("sf64", 18, F.TYPE_SFIXED64)
    add("flag", 19, F.TYPE_BOOL)
    add("raw", 20, F.TYPE_BYTES)
    add("big", 21, F.TYPE_UINT64)
    add("zz", 22, F.TYPE_SINT32)
    add("far", 1000, F.TYPE_INT64)
    add("last", 2**29 - 1, F.TYPE_STRING)
    pool = descriptor_pool.DescriptorPool()
    pool.Add(fd)
    return message_factory.GetMessageClass(pool.FindMessageTypeByName("c08k1.Newer"))


RefNewer = build_reference()


def ref_parse(data):
    m = RefNewer()
    m.ParseFromString(data)
    return m


# ----------------------------------------------------------- random values
rng = random.Random(0xC08)
I32 = [0, 1, -1, 127, 128, 300, 2**31 - 1, -(2**31)]
I64 = [0, 1, -1, 2**63 - 1, -(2**63), 1 << 40]
U64 = [0, 1, 2**63, 2**64 - 1, 16384]
STR = ["", "x", "héllo", "a" * 200, "☃"]
BYT = [b"", b"\x00", b"\xff" * 130, b"\x08\x01"]
DBL = [0.0, 1.5, -2.25, 1e300, float("inf")]


def rand_sub():
    k = rng.randrange(5)
    if k == 0:
        return Sub()
    s = Sub()
    if rng.random() < 0.6:
        s.x = rng.choice(I32)
    if rng.random() < 0.6:
        s.s = rng.choice(STR)
    if rng.random() < 0.6:
        s.r = [rng.choice(I64) for _ in range(rng.randrange(4))]
    return s


def rand_newer():
    n = Newer()
    p = rng.choice([0.15, 0.5, 0.9])

    def hit():
        return rng.random() < p

    if hit(): n.a = rng.choice(I32)
    if hit(): n.b = rng.choice(STR)
    if hit(): n.sub = rand_sub()
    if hit(): n.subs = [rand_sub() for _ in range(rng.randrange(4))]
    if hit(): n.packed = [rng.choice(I32) for _ in range(rng.randrange(5))]
    if hit(): n.strs = [rng.choice(STR) for _ in range(rng.randrange(4))]
    if hit(): n.m = {rng.choice(STR): rng.choice(I32) for _ in range(rng.randrange(4))}
    if hit(): n.ms = {rng.choice(I32): rand_sub() for _ in range(rng.randrange(4))}
    which = rng.randrange(6)
    if which == 1: n.oi = rng.choice(I32)
    elif which == 2: n.os = rng.choice(STR)
    elif which == 3: n.osub = rand_sub()
    elif which == 4: n.ob = rng.choice(BYT)
    if hit(): n.opt_i = rng.choice(I32)
    if hit(): n.opt_s = rng.choice(STR)
    if hit(): n.opt_sub = rand_sub()
    if hit(): n.d = rng.choice(DBL)
    if hit(): n.f32 = rng.choice([0, 1, 2**32 - 1, 0xDEADBEEF])
    if hit(): n.sf64 = rng.choice(I64)
    if hit(): n.flag = rng.choice([False, True])
    if hit(): n.raw = rng.choice(BYT)
    if hit(): n.big = rng.choice(U64)
    if hit(): n.zz = rng.choice(I32)
    if hit(): n.far = rng.choice(I64)
    if hit(): n.last = rng.choice(STR)
    return n


# hand-written corner cases on top of the random ones
def corner_cases():
    yield Newer()
    yield Newer(oi=0)
    yield Newer(os="")
    yield Newer(ob=b"")
    yield Newer(osub=Sub())
    yield Newer(opt_i=0, opt_s="", opt_sub=Sub())
    yield Newer(sub=Sub())
    yield Newer(sub=Sub(x=0, s=""), subs=[Sub(), Sub(), Sub(x=1)])
    yield Newer(m={"": 0}, ms={0: Sub()})
    yield Newer(packed=[0], strs=[""])
    yield Newer(a=-1, last="z", far=-1)
    n = Newer()
    n.sub = Sub()
    n.sub.x = 0  # filled in place with a default
    yield n
    n = Newer(oi=5)
    n.os = ""  # switching the selected member
    yield n


# -------------------------------------------------------- older schemas
def older_variants():
    variants = []
    sub_variants = [
        make_class("SubX", SUB_FIELDS, {1}),
        make_class("SubNone", SUB_FIELDS, set()),
        make_class("SubSR", SUB_FIELDS, {2, 3}),
        Sub,
    ]
    keeps = [set(), set(TOP_ALL), {1}, {2**29 - 1}, {3, 4, 8, 11, 15}, {9, 13}, {10, 12, 14}]
    for _ in range(14):
        keeps.append(set(rng.sample(TOP_ALL, rng.randrange(1, len(TOP_ALL)))))
    for i, keep in enumerate(keeps):
        sub_cls = sub_variants[i % len(sub_variants)]
        variants.append((make_class(f"Older{i}", TOP_FIELDS, keep, sub_cls), keep, sub_cls))
    return variants


OLDER = older_variants()
digest = hashlib.sha256()


def delimited(msg):
    buf = BytesIO()
    msg.dump(buf, delimit=bp.SIZE_DELIMITED)
    return buf.getvalue()


def plain_dump(msg):
    buf = BytesIO()
    msg.dump(buf)
    return buf.getvalue()


def check_encoding(msg):
    """bytes / dump / len / delimited dump agree with each other."""
    data = bytes(msg)
    assert plain_dump(msg) == data
    assert msg.SerializeToString() == data
    assert len(msg) == len(data), (len(msg), len(data), msg)
    assert delimited(msg) == encode_varint(len(data)) + data
    digest.update(len(data).to_bytes(4, "little") + data)
    return data


def check_value(newer):
    wire = check_encoding(newer)
    ref = ref_parse(wire)
    # the reference decoder and betterproto agree on what `wire` means
    assert Newer().parse(ref.SerializeToString()) == newer
    assert Newer().parse(wire) == newer
    group, _ = bp.which_one_of(newer, "choice")
    assert (ref.WhichOneof("choice") or "") == group
    for name in ("opt_i", "opt_s", "opt_sub"):
        assert ref.HasField(name) == (getattr(newer, name) is not None)

    for older_cls, keep, sub_cls in OLDER:
        older = older_cls().parse(wire)
        out = check_encoding(older)
        # unknown fields are appended, verbatim, after the known ones
        assert out.endswith(older._unknown_fields)
        # newer schema and reference decoder see the original value again
        assert Newer().parse(out) == newer, (older_cls.__name__, keep)
        assert ref_parse(out) == ref, (older_cls.__name__, keep)
        # a delimited stream written by the older side is readable by the newer one
        stream = BytesIO(delimited(older) + delimited(older))
        assert Newer().load(stream, bp.SIZE_DELIMITED) == newer
        assert Newer().load(stream, bp.SIZE_DELIMITED) == newer
        assert stream.read() == b""
        # a second pass through another older schema
        other_cls = OLDER[(len(out) + len(keep)) % len(OLDER)][0]
        out2 = check_encoding(other_cls().parse(out))
        assert Newer().parse(out2) == newer
        assert ref_parse(out2) == ref
        # the older side changes a known field: the unknown ones stay
        if 1 in keep:
            older.a = 77
            out3 = check_encoding(older)
            back = Newer().parse(out3)
            assert back.a == 77
            back.a = newer.a
            assert back == newer
        if not keep:
            assert out == older._unknown_fields == wire


count = 0
for value in corner_cases():
    check_value(value)
    count += 1
for _ in range(160):
    check_value(rand_newer())
    count += 1

# unknown fields on an otherwise empty / default message, and on a message whose
# known fields are set by hand
Old1 = OLDER[2][0]
assert OLDER[2][1] == {1}
for unknown in (
    b"\x10\x00",
    b"\x10\xff\xff\xff\xff\xff\xff\xff\xff\xff\x01",
    b"\x15\x01\x02\x03\x04",
    b"\x11\x01\x02\x03\x04\x05\x06\x07\x08",
    b"\x12\x00",
    b"\x12\x03abc" + b"\xc2\x3e\x00",
    b"\xfa\xff\xff\xff\x0f\x01z",
):
    m = Old1().parse(unknown)
    assert check_encoding(m) == unknown
    assert len(m) == len(unknown)
    m.a = 3
    assert check_encoding(m) == b"\x08\x03" + unknown
    m.a = 0
    assert check_encoding(m) == unknown
    m2 = Old1(a=-1).parse(unknown + b"\x08\x05" + unknown)
    assert check_encoding(m2) == b"\x08\x05" + unknown + unknown

EXPECTED = "31f8a74c4e59743512d92060d2310c4397410bad371142398eba363f7c3872d9"
print("values:", count, "older schemas:", len(OLDER), "digest:", digest.hexdigest())
assert digest.hexdigest() == EXPECTED, digest.hexdigest()
print("C08 keep1 equiv: OK")
