"""Equivalence check for property C13 (cross-package references resolve to the right class).

Generates code with the plugin modules (ruff stubbed out) for every ordered pair of package
paths of depth 0..3, for all of them at once, for enum-naming / builtin-shadowing corner
cases and for every typing style, imports the generated packages and checks - against
expectations spelled out here, independent of the library - class identity through type
hints, round trips, rpc handler tables, routes, __all__, header imports and enum members.
A digest over the (order-normalised) syntax trees of everything generated pins the output.
Run with PYTHONPATH=<worktree>/src.
"""
import ast, hashlib, importlib, itertools, os, sys, tempfile, typing, datetime

import betterproto
import grpclib.const
from betterproto.lib.google import protobuf as bp_google
from betterproto.lib.google.protobuf import (
    DescriptorProto, EnumDescriptorProto, EnumValueDescriptorProto, FieldDescriptorProto,
    FieldOptions, FileDescriptorProto, MessageOptions, MethodDescriptorProto, MethodOptions,
    OneofDescriptorProto, ServiceDescriptorProto, SourceCodeInfo, SourceCodeInfoLocation,
    FieldDescriptorProtoLabel as L, FieldDescriptorProtoType as T,
)
from betterproto.lib.google.protobuf.compiler import CodeGeneratorRequest
from betterproto.plugin import compiler as plugin_compiler
from betterproto.plugin.models import monkey_patch_oneof_index
from betterproto.plugin.parser import generate_code
from betterproto.compile.naming import pythonize_class_name as py

plugin_compiler.subprocess.check_output = lambda cmd, input, encoding: input
monkey_patch_oneof_index()

TMP = tempfile.mkdtemp(prefix="c13equiv")
sys.path.insert(0, TMP)
COUNTER = itertools.count()
DIGEST = hashlib.sha256()
CHECKS = [0]


def ok(cond, *info):
    CHECKS[0] += 1
    assert cond, info


def fld(name, number, type_, type_name="", label=L.LABEL_OPTIONAL, oneof=None, p3opt=False, deprecated=False):
    kw = dict(name=name, number=number, type=type_, type_name=type_name, label=label)
    if oneof is not None:
        kw["oneof_index"] = oneof
    if p3opt:
        kw["proto3_optional"] = True
    f = FieldDescriptorProto(**kw)
    if deprecated:
        f.options = FieldOptions(deprecated=True)
    return f


def map_entry(field_name, vtype, vtype_name=""):
    name = "".join(p.capitalize() for p in field_name.split("_")) + "Entry"
    return DescriptorProto(
        name=name, options=MessageOptions(map_entry=True),
        field=[fld("key", 1, T.TYPE_STRING), fld("value", 2, vtype, vtype_name)],
    )


def generate(files, parameter=""):
    """Run the plugin on the files, write the result below a fresh root package, return its name."""
    req = CodeGeneratorRequest(file_to_generate=[f.name for f in files], parameter=parameter, proto_file=files)
    req = CodeGeneratorRequest().parse(bytes(req))
    old, sys.stderr = sys.stderr, open(os.devnull, "w")
    try:
        resp = generate_code(req)
    finally:
        sys.stderr.close()
        sys.stderr = old
    root = f"c13gen{next(COUNTER)}"
    texts = {}
    for f in sorted(resp.file, key=lambda f: f.name):
        path = os.path.join(TMP, root, f.name)
        os.makedirs(os.path.dirname(path), exist_ok=True)
        with open(path, "w") as fh:
            fh.write(f.content)
        texts[f.name] = f.content
        tree = ast.parse(f.content)
        DIGEST.update(f.name.encode())
        for dumped in sorted(ast.dump(stmt) for stmt in tree.body):
            DIGEST.update(dumped.encode())
    ok(os.path.exists(os.path.join(TMP, root, "__init__.py")), "root package file")
    return root, texts


def mod(root, package):
    return importlib.import_module(root + ("." + package if package else ""))


def q(package, name):
    return f".{package}.{name}" if package else f".{name}"


# ---------------------------------------------------------------------------------------------
# target / holder files for a pair of packages

def target_file(pkg, tag):
    return FileDescriptorProto(
        name=f"target_{tag}.proto", package=pkg, syntax="proto3",
        message_type=[DescriptorProto(
            name=f"Target{tag}",
            field=[fld("v", 1, T.TYPE_INT32)],
            nested_type=[DescriptorProto(name="Inner", field=[fld("w", 1, T.TYPE_STRING)])],
            enum_type=[EnumDescriptorProto(name="Kind", value=[
                EnumValueDescriptorProto(name="KIND_NONE", number=0),
                EnumValueDescriptorProto(name="KIND_SOME", number=4)])],
        )],
        enum_type=[EnumDescriptorProto(name=f"Mode{tag}", value=[
            EnumValueDescriptorProto(name="OFF", number=0),
            EnumValueDescriptorProto(name="ON", number=1)])],
    )


def holder_file(pkg, tag, refs):
    """refs: list of (target package, target tag). One Holder message + service per reference."""
    messages, services = [], []
    for i, (tpkg, ttag) in enumerate(refs):
        tgt, inner = q(tpkg, f"Target{ttag}"), q(tpkg, f"Target{ttag}.Inner")
        kind, mode = q(tpkg, f"Target{ttag}.Kind"), q(tpkg, f"Mode{ttag}")
        hname = f"Holder{tag}x{i}"
        me = q(pkg, hname)
        messages.append(DescriptorProto(
            name=hname,
            field=[
                fld("t", 1, T.TYPE_MESSAGE, tgt),
                fld("inner", 2, T.TYPE_MESSAGE, inner),
                fld("mode", 3, T.TYPE_ENUM, mode),
                fld("kind", 4, T.TYPE_ENUM, kind),
                fld("ts", 5, T.TYPE_MESSAGE, tgt, label=L.LABEL_REPEATED),
                fld("modes", 6, T.TYPE_ENUM, mode, label=L.LABEL_REPEATED),
                fld("by_name", 7, T.TYPE_MESSAGE, me + ".ByNameEntry", label=L.LABEL_REPEATED),
                fld("kind_by_name", 8, T.TYPE_MESSAGE, me + ".KindByNameEntry", label=L.LABEL_REPEATED),
                fld("pick_t", 9, T.TYPE_MESSAGE, tgt, oneof=0),
                fld("pick_inner", 10, T.TYPE_MESSAGE, inner, oneof=0),
                fld("pick_mode", 11, T.TYPE_ENUM, mode, oneof=0),
                fld("maybe", 12, T.TYPE_MESSAGE, inner, oneof=1, p3opt=True),
                fld("count", 13, T.TYPE_MESSAGE, ".google.protobuf.Int32Value"),
                fld("when", 14, T.TYPE_MESSAGE, ".google.protobuf.Timestamp"),
                fld("blob", 15, T.TYPE_MESSAGE, ".google.protobuf.Struct"),
                fld("int", 16, T.TYPE_INT32),
                fld("other", 17, T.TYPE_INT64, deprecated=(i == 0)),
            ],
            nested_type=[map_entry("by_name", T.TYPE_MESSAGE, tgt), map_entry("kind_by_name", T.TYPE_ENUM, kind)],
            oneof_decl=[OneofDescriptorProto(name="choice"), OneofDescriptorProto(name="_maybe")],
        ))
        services.append(ServiceDescriptorProto(name=f"Svc{tag}x{i}", method=[
            MethodDescriptorProto(name="GetIt", input_type=me, output_type=tgt),
            MethodDescriptorProto(name="ListIt", input_type=tgt, output_type=inner, server_streaming=True),
            MethodDescriptorProto(name="PutIt", input_type=inner, output_type=me, client_streaming=True,
                                  options=MethodOptions(deprecated=(i == 1))),
            MethodDescriptorProto(name="Chat", input_type=tgt, output_type=tgt, client_streaming=True, server_streaming=True),
        ]))
    return FileDescriptorProto(name=f"holder_{tag}.proto", package=pkg, syntax="proto3",
                               message_type=messages, service=services)


CARD = grpclib.const.Cardinality


def norm(hint):
    """List[X] / list[X], Optional[X] / X | None ... compare equal; classes compare by identity."""
    origin = typing.get_origin(hint)
    if origin is None:
        return ("cls", id(hint))
    args = [norm(a) for a in typing.get_args(hint)]
    if origin is typing.Union or origin is getattr(__import__("types"), "UnionType", None):
        return ("union", frozenset(args))
    return (origin, tuple(args))


def check_holder(root, pkg, tag, refs, texts, pydantic=False):
    hm = mod(root, pkg)
    text = texts[os.path.join(*pkg.split("."), "__init__.py") if pkg else "__init__.py"]
    for line in ("import grpclib.server", "from betterproto.grpc.grpclib_client import MetadataLike",
                 "from grpclib.metadata import Deadline"):
        ok(text.count("    " + line + "\n") == 1, "type checking import", line)
    ok(("import warnings" in text), "warnings import (deprecated field / rpc)")
    ok("import builtins" in text, "builtins import for the field named int")
    for i, (tpkg, ttag) in enumerate(refs):
        tm = mod(root, tpkg)
        Target, Inner = getattr(tm, f"Target{ttag}"), getattr(tm, f"Target{ttag}Inner")
        Kind, Mode = getattr(tm, f"Target{ttag}Kind"), getattr(tm, f"Mode{ttag}")
        ok(issubclass(Target, betterproto.Message) and issubclass(Kind, betterproto.Enum))
        ok([(m.name, m.value) for m in Kind] == [("KIND_NONE", 0), ("KIND_SOME", 4)], list(Kind))
        ok([(m.name, m.value) for m in Mode] == [("OFF", 0), ("ON", 1)], list(Mode))
        Holder = getattr(hm, py(f"Holder{tag}x{i}"))
        ok(py(f"Holder{tag}x{i}") in hm.__all__ and py(f"Svc{tag}x{i}") + "Stub" in hm.__all__ and py(f"Svc{tag}x{i}") + "Base" in hm.__all__)
        hints = typing.get_type_hints(Holder, vars(hm), {})
        ok(hints == Holder._type_hints())
        expect = {
            "t": Target, "inner": Inner, "mode": Mode, "kind": Kind,
            "ts": typing.List[Target], "modes": typing.List[Mode],
            "by_name": typing.Dict[str, Target], "kind_by_name": typing.Dict[str, Kind],
            "pick_t": Target, "pick_inner": Inner, "pick_mode": Mode,
            "maybe": typing.Optional[Inner], "count": typing.Optional[int],
            "when": datetime.datetime, "blob": bp_google.Struct,
            "int": int, "other": int,
        }
        if pydantic:
            expect["blob"] = importlib.import_module("betterproto.lib.pydantic.google.protobuf").Struct
            for name in ("pick_t", "pick_inner", "pick_mode"):
                expect[name] = typing.Optional[expect[name]]
        ok(list(hints) == list(expect), list(hints))
        for name, want in expect.items():
            got = hints[name]
            ok(norm(got) == norm(want), pkg, tpkg, name, got, want)
            if isinstance(want, type):
                ok(got is want, pkg, tpkg, name)
        ok(hints["ts"].__args__[0] is Target and hints["by_name"].__args__[1] is Target)
        ok(hints["kind_by_name"].__args__[1] is Kind and hints["maybe"].__args__[0] is Inner)
        if pydantic:
            continue
        # round trip through every referencing field
        msg = Holder(
            t=Target(v=3), inner=Inner(w="x"), mode=Mode.ON, kind=Kind.KIND_SOME,
            ts=[Target(v=1), Target(v=2)], modes=[Mode.ON, Mode.OFF],
            by_name={"k": Target(v=9)}, kind_by_name={"z": Kind.KIND_SOME},
            pick_inner=Inner(w="p"), maybe=Inner(w="m"), count=7, int=5, other=6,
            blob=bp_google.Struct(fields={"a": bp_google.Value(number_value=1.5)}),
        )
        back = Holder().parse(bytes(msg))
        ok(back == msg and bytes(back) == bytes(msg))
        ok(type(back.t) is Target and type(back.inner) is Inner and type(back.ts[1]) is Target)
        ok(type(back.by_name["k"]) is Target and back.by_name["k"].v == 9)
        ok(back.kind is Kind.KIND_SOME and back.mode is Mode.ON and back.kind_by_name == {"z": Kind.KIND_SOME})
        ok(betterproto.which_one_of(back, "choice") == ("pick_inner", Inner(w="p")))
        ok(type(Holder().t) is Target and type(Holder(pick_t=Target()).pick_t) is Target and Holder().kind is Kind.KIND_NONE)
        small = Holder(t=Target(v=3), kind=Kind.KIND_SOME, ts=[Target(v=1)], by_name={"k": Target(v=9)}, pick_mode=Mode.ON)
        again = Holder().from_dict(small.to_dict())
        ok(again == small and type(again.by_name["k"]) is Target and again.pick_mode is Mode.ON)
        # rpc tables
        Base, Stub = getattr(hm, py(f"Svc{tag}x{i}") + "Base"), getattr(hm, py(f"Svc{tag}x{i}") + "Stub")
        prefix = f"/{pkg}.Svc{tag}x{i}/" if pkg else f"/Svc{tag}x{i}/"
        mapping = Base().__mapping__()
        want = {
            prefix + "GetIt": (CARD.UNARY_UNARY, Holder, Target),
            prefix + "ListIt": (CARD.UNARY_STREAM, Target, Inner),
            prefix + "PutIt": (CARD.STREAM_UNARY, Inner, Holder),
            prefix + "Chat": (CARD.STREAM_STREAM, Target, Target),
        }
        ok(list(mapping) == list(want), list(mapping))
        for route, (card, req, rep) in want.items():
            h = mapping[route]
            ok(h.cardinality is card and h.request_type is req and h.reply_type is rep, route, h)
        ok(mapping[prefix + "GetIt"].func.__func__ is getattr(Base, f"_{Base.__name__}__rpc_get_it"))
        for meth, req, rep in (("get_it", Holder, Target), ("list_it", Target, Inner),
                               ("put_it", Inner, Holder), ("chat", Target, Target)):
            for cls in (Base, Stub):
                ann = getattr(cls, meth).__annotations__
                names = [n for n in ann if n not in ("timeout", "deadline", "metadata", "return")]
                ok(len(names) == 1, ann)
                ns = dict(vars(hm), Deadline=object, MetadataLike=object)
                got_in = eval(ann[names[0]], ns) if isinstance(ann[names[0]], str) else ann[names[0]]
                got_out = eval(ann["return"], ns) if isinstance(ann["return"], str) else ann["return"]
                flat_in = [got_in] if isinstance(got_in, type) else [a2 for a in typing.get_args(got_in) for a2 in (typing.get_args(a) or [a])]
                flat_out = [got_out] if isinstance(got_out, type) else list(typing.get_args(got_out))
                ok(all(x is req for x in flat_in) and flat_in, cls, meth, got_in)
                ok(flat_out == [rep] and flat_out[0] is rep, cls, meth, got_out)


PATHS = ["", "a", "b", "a.b", "a.c", "b.a", "a.b.c", "a.b.d", "a.c.c", "b.a.b"]

# 1. every ordered pair in isolation
for n, (src, dst) in enumerate(itertools.product(PATHS, PATHS)):
    if src == dst:
        files = [target_file(dst, "T"), holder_file(src, "H", [(dst, "T")])]
    else:
        # the target package refers back to the holder package: circular packages
        files = [target_file(dst, "T"), holder_file(src, "H", [(dst, "T")]),
                 FileDescriptorProto(name="back.proto", package=dst, syntax="proto3", message_type=[
                     DescriptorProto(name="Back", field=[fld("h", 1, T.TYPE_MESSAGE, q(src, "HolderHx0"))])])]
    param = ("", "typing.root", "typing.310", "typing.direct")[n % 4]
    root, texts = generate(files, param)
    check_holder(root, src, "H", [(dst, "T")], texts)
    if src != dst:
        Back = mod(root, dst).Back
        ok(Back._type_hints()["h"] is mod(root, src).HolderHx0)
        ok(type(Back().parse(bytes(Back(h=mod(root, src).HolderHx0(int=2)))).h) is mod(root, src).HolderHx0)

# 2. all packages at once, every package refers to every package, for each typing style
tags = {p: f"P{i}" for i, p in enumerate(PATHS)}
for param in ("typing.root", "typing.310"):
    files = []
    for p in PATHS:
        files.append(target_file(p, tags[p]))
        files.append(holder_file(p, tags[p], [(d, tags[d]) for d in PATHS]))
    root, texts = generate(files, param)
    for p in PATHS:
        check_holder(root, p, tags[p], [(d, tags[d]) for d in PATHS], texts)

# 3. pydantic flavour (annotations only; pydantic itself may be absent)
try:
    import pydantic  # noqa: F401
    have_pydantic = True
except ImportError:
    have_pydantic = False
if have_pydantic:
    for src, dst in (("a.b", "a.c"), ("", "a.b.c"), ("a.b.c", "a")):
        root, texts = generate([target_file(dst, "T"), holder_file(src, "H", [(dst, "T")])], "pydantic_dataclasses")
        check_holder(root, src, "H", [(dst, "T")], texts, pydantic=True)

# 4. enum member naming, nested registration order, builtin shadowing, comments on members
def enum(name, *members):
    return EnumDescriptorProto(name=name, value=[EnumValueDescriptorProto(name=m, number=i) for i, m in enumerate(members)])

corner = FileDescriptorProto(
    name="corner.proto", package="x.y", syntax="proto3",
    enum_type=[
        enum("Color", "COLOR_RED", "COLOR_GREEN", "BLUE"),
        enum("Foo", "FOO_A", "A", "FOO_B"),            # stripping would collide: proto names are kept
        enum("E", "ZERO", "E_ONE", "E_", "E__"),        # bare prefix is not stripped
        enum("HTTPCode", "HTTP_CODE_OK", "HTTPCODE_X", "None", "True"),
        enum("Dup", "DUP_X", "DUP_X"),                  # duplicates even without stripping
    ],
    message_type=[
        DescriptorProto(
            name="Outer",
            field=[fld("str", 1, T.TYPE_STRING), fld("bytes", 2, T.TYPE_BYTES), fld("name", 3, T.TYPE_STRING),
                   fld("float", 4, T.TYPE_DOUBLE), fld("xs", 5, T.TYPE_FLOAT, label=L.LABEL_REPEATED),
                   fld("bool", 6, T.TYPE_MESSAGE, ".google.protobuf.BoolValue"),
                   fld("flag", 7, T.TYPE_MESSAGE, ".google.protobuf.BoolValue"),
                   fld("list", 8, T.TYPE_ENUM, ".x.y.Outer.Mid.Deep")],
            nested_type=[DescriptorProto(name="Mid", field=[fld("c", 1, T.TYPE_ENUM, ".x.y.Color")],
                                         enum_type=[enum("Deep", "DEEP_A", "DEEP_B")],
                                         nested_type=[DescriptorProto(name="Leaf")])],
            enum_type=[enum("State", "OUTER_STATE_UNKNOWN", "STATE_OK")],
        ),
        DescriptorProto(name="Plain", field=[fld("str_value", 1, T.TYPE_STRING), fld("id", 2, T.TYPE_INT32),
                                             fld("span", 3, T.TYPE_MESSAGE, ".google.protobuf.Duration"),
                                             fld("at", 4, T.TYPE_MESSAGE, ".google.protobuf.Timestamp"),
                                             fld("either", 5, T.TYPE_MESSAGE, ".x.y.Outer.Mid", oneof=0),
                                             fld("orelse", 6, T.TYPE_ENUM, ".x.y.Color", oneof=0)],
                        oneof_decl=[OneofDescriptorProto(name="alt")]),
    ],
    source_code_info=SourceCodeInfo(location=[
        SourceCodeInfoLocation(path=[5, 0, 2, 1], leading_comments=" the green one\n"),
        SourceCodeInfoLocation(path=[5, 0], leading_comments=" colours\n"),
        SourceCodeInfoLocation(path=[4, 0, 3, 0, 4, 0, 2, 0], trailing_comments=" deep a"),
    ]),
)
corner_bytes = bytes(corner)
root, texts = generate([corner])
m = mod(root, "x.y")
text = texts["x/y/__init__.py"]
members = lambda e: [(x.name, x.value) for x in e]
ok(members(m.Color) == [("RED", 0), ("GREEN", 1), ("BLUE", 2)], members(m.Color))
ok(members(m.Foo) == [("FOO_A", 0), ("A", 1), ("FOO_B", 2)], members(m.Foo))
ok(members(m.E) == [("ZERO", 0), ("ONE", 1), ("E_", 2), ("E__", 3)], members(m.E))
ok(members(m.HttpCode) == [("OK", 0), ("HTTPCODE_X", 1), ("None_", 2), ("True_", 3)], members(m.HttpCode))
ok(members(m.OuterState) == [("UNKNOWN", 0), ("STATE_OK", 1)], members(m.OuterState))
ok(members(m.OuterMidDeep) == [("DEEP_A", 0), ("DEEP_B", 1)], members(m.OuterMidDeep))
ok(text.count("    DUP_X = ") == 2 and "    X = " not in text, text)
ok(m.__all__ == ("Color", "Foo", "E", "HttpCode", "Dup", "OuterState", "OuterMidDeep",
                 "Outer", "OuterMid", "OuterMidLeaf", "Plain"), m.__all__)
ok('GREEN = 1\n    """the green one"""' in text and '"""colours"""' in text and '"""deep a"""' in text, text)
ok(m.Color.__doc__ == "colours" and m.OuterMidDeep.DEEP_A.__class__ is m.OuterMidDeep)
hints = m.Outer._type_hints()
ok(hints == {"str": str, "bytes": bytes, "name": str, "float": float, "xs": typing.List[float],
             "bool": typing.Optional[bool], "flag": typing.Optional[bool], "list": m.OuterMidDeep}, hints)
for line in ("str: builtins.str = betterproto.string_field(1)", "bytes: builtins.bytes = betterproto.bytes_field(2)",
             "name: builtins.str = betterproto.string_field(3)", "float: builtins.float = betterproto.double_field(4)",
             "xs: List[builtins.float] = betterproto.float_field(5)",
             "bool: Optional[builtins.bool] = betterproto.message_field(6, wraps=betterproto.TYPE_BOOL)",
             "flag: Optional[builtins.bool] = betterproto.message_field(7, wraps=betterproto.TYPE_BOOL)",
             'list: "OuterMidDeep" = betterproto.enum_field(8)',
             "str_value: str = betterproto.string_field(1)", "id: int = betterproto.int32_field(2)"):
    ok(text.count("    " + line + "\n") == 1, line, text)
ok(m.OuterMid._type_hints() == {"c": m.Color} and "import builtins" in text and "TYPE_CHECKING" not in text)
o = m.Outer(str="s", bytes=b"b", float=1.5, xs=[0.5], bool=True, list=m.OuterMidDeep.DEEP_B)
ok(m.Outer().parse(bytes(o)) == o)

ok(text.count("from datetime import datetime, timedelta\n") == 1 and text.count("import datetime") == 1, text)
ok(text.count("from dataclasses import dataclass\n") == 1 and "pydantic" not in text)
ok(text.count("@dataclass(eq=False, repr=False)\n") == 4)
ph = m.Plain._type_hints()
ok(ph == {"str_value": str, "id": int, "span": datetime.timedelta, "at": datetime.datetime,
          "either": m.OuterMid, "orelse": m.Color}, ph)
pl = m.Plain(span=datetime.timedelta(seconds=3), at=datetime.datetime(2020, 1, 2, tzinfo=datetime.timezone.utc), orelse=m.Color.GREEN)
ok(m.Plain().parse(bytes(pl)) == pl and betterproto.which_one_of(pl, "alt") == ("orelse", m.Color.GREEN))
if have_pydantic:
    root, texts = generate([FileDescriptorProto().parse(bytes(corner_bytes))], "pydantic_dataclasses")
    text = texts["x/y/__init__.py"]
    ok(text.count("from pydantic.dataclasses import dataclass\n") == 1 and "from dataclasses import" not in text, text)
    ok(text.count("from pydantic import model_validator\n") == 1)
    ok(text.count('@dataclass(eq=False, repr=False, config={"extra": "forbid"})\n') == 4, text)
    ok(text.count("from datetime import datetime, timedelta\n") == 1)
    pm = mod(root, "x.y")
    ok(norm(pm.Plain._type_hints()["either"]) == norm(typing.Optional[pm.OuterMid]))
    ok(norm(pm.Plain._type_hints()["orelse"]) == norm(typing.Optional[pm.Color]))
    ok(pm.Plain(orelse=pm.Color.GREEN).orelse == pm.Color.GREEN == 1)

# 5. the generated syntax trees (top-level statements order-normalised) are pinned
EXPECTED = "a2423231da94e9399a3d720ae1f9654176e01233c93db9d82844f1c73261e704"
got = DIGEST.hexdigest()
if os.environ.get("C13_PRINT_DIGEST"):
    print("digest", got)
else:
    ok(got == EXPECTED, "generated code changed", got)
print(f"equiv OK: {CHECKS[0]} checks, {next(COUNTER)} generated trees, pydantic={'yes' if have_pydantic else 'no'}")
