"""C04 / keep1: the keys that to_dict / to_json / to_pydict emit and that from_dict /
from_json accept, for many field names, both casings (and a few custom casing
callables), in every call order, for nested / repeated / map-valued messages.

The oracle is independent of Message.to_dict: the expected key of a field is
``casing(field_name).rstrip("_")`` computed here by calling the casing function
directly, and the expected values are the plain ints / strings put in.
"""

import dataclasses
import functools
import itertools
import json
import random
from dataclasses import dataclass
from typing import Dict, List, Optional

import betterproto
from betterproto import Casing
from betterproto.casing import camel_case, pascal_case, snake_case

assert Casing.CAMEL is camel_case and Casing.SNAKE is snake_case

FIELD_NAMES = """
foo foo_bar foo_bar_baz a b_ c__ from_ class_ import_ lambda_ type_ id id_ none_
address_line_1 address_line_2 line1 line_1_a x1y2 x_1_y_2 value2_ t_1_2 n0 n_0
fooBar FooBar fooBAR HTTPServer http_server_2 XMLHttpRequest UPPER UPPER_CASE
mixed_Case_Name camelCaseName PascalCaseName snake_case_name a_b_c a_b_c_d_e
foo__bar foo___bar trailing__ _private _private_field __dunder _x _1 x_ y__ z___
oneof_index json_name proto3_optional is_set to_dict_ from_dict_ parse_ keys
values_ items_ get_ very_long_field_name_with_many_words_in_it_1234567890
a1 a1b a1_b a_1b aB aBc abC ABc ABC ab_C ab_c9 ab9_c ab_9c v2 v_2 v2beta1 v2_beta_1
""".split()


def keys_of(name):
    return {camel_case(name).rstrip("_"), snake_case(name).rstrip("_"), name}


def group_names(names, size):
    """Split the names into classes such that no two fields of a class share a key."""
    groups = []
    for name in names:
        for group, used in groups:
            if len(group) < size and not (keys_of(name) & used):
                group.append(name)
                used |= keys_of(name)
                break
        else:
            groups.append(([name], set(keys_of(name))))
    return [g for g, _ in groups]


_counter = itertools.count()


def make_class(names, kinds=None):
    fields = []
    for number, name in enumerate(names, start=1):
        kind = (kinds or {}).get(name, "int32")
        if kind == "int32":
            fields.append((name, int, betterproto.int32_field(number)))
        elif kind == "string":
            fields.append((name, str, betterproto.string_field(number)))
        elif kind == "int64":
            fields.append((name, int, betterproto.int64_field(number)))
        else:
            raise AssertionError(kind)
    return dataclasses.make_dataclass(
        f"Dyn{next(_counter)}", fields, bases=(betterproto.Message,), eq=False, repr=False
    )


class UnhashableCasing:
    """A casing callable that cannot be used as a dict key."""

    __hash__ = None

    def __eq__(self, other):
        return self is other

    def __call__(self, name):
        return "k_" + name


CUSTOM_CASINGS = [
    lambda s: s.upper(),
    str.title,
    pascal_case,
    functools.partial(snake_case, strict=False),
    functools.partial(camel_case, strict=False),
    lambda s: s + "__",
    UnhashableCasing(),
]

checked = 0


def check_flat(cls, names, order):
    """One flat message, keys checked for the casings in ``order`` (call order
    matters for anything that remembers results between calls)."""
    global checked
    values = {name: 1000 + i for i, name in enumerate(names)}
    m = cls(**values)
    wire = bytes(m)
    for casing in order:
        expected = {casing(name).rstrip("_"): values[name] for name in names}
        assert len(expected) == len(names)
        for include_default_values in (False, True):
            d = m.to_dict(casing=casing, include_default_values=include_default_values)
            assert d == expected, (names, casing, d, expected)
            assert list(d) == list(expected), (list(d), list(expected))
            assert m.to_pydict(casing=casing) == expected
            # the result is a fresh dict every time
            d.clear()
            d["junk"] = 1
            assert m.to_dict(casing=casing) == expected
        if casing not in (camel_case, snake_case):
            checked += 1
            continue
        d = m.to_dict(casing=casing)
        text = m.to_json(casing=casing)
        assert json.loads(text) == json.loads(json.dumps(d)) == expected
        for m2 in (
            cls.from_dict(d),
            cls().from_dict(d),
            cls().from_json(text),
            cls.from_dict(json.loads(text)),
            cls.from_dict(values),  # the field names themselves are keys too
        ):
            assert m2 == m, (names, casing, m2, m)
            assert bytes(m2) == wire
        checked += 1


def test_flat():
    rng = random.Random(4)
    for size in (1, 3, 8):
        for names in group_names(FIELD_NAMES, size):
            for order in (
                (camel_case, snake_case, camel_case),
                (snake_case, camel_case, snake_case, snake_case),
            ):
                check_flat(make_class(names), names, order)
    # random groupings / orders, custom casings interleaved with the standard ones
    for _ in range(120):
        pool = FIELD_NAMES[:]
        rng.shuffle(pool)
        names = group_names(pool[: rng.randint(2, 12)], 12)[0]
        order = [rng.choice([camel_case, snake_case] + CUSTOM_CASINGS) for _ in range(6)]
        order = [c for c in order if len({c(n).rstrip("_") for n in names}) == len(names)]
        check_flat(make_class(names), names, order)


def test_same_casing_many_classes():
    """The same field names in different classes, different numbers / types."""
    names = ["foo_bar", "from_", "address_line_1", "fooBaz"]
    a = make_class(names)
    b = make_class(list(reversed(names)), {"from_": "string", "foo_bar": "int64"})
    ma = a(foo_bar=1, from_=2, address_line_1=3, fooBaz=4)
    mb = b(foo_bar=2**60, from_="x", address_line_1=7, fooBaz=8)
    for _ in range(2):
        assert ma.to_dict() == {"fooBar": 1, "from": 2, "addressLine1": 3, "fooBaz": 4}
        assert mb.to_dict() == {
            "fooBaz": 8,
            "addressLine1": 7,
            "from": "x",
            "fooBar": str(2**60),
        }
        assert ma.to_dict(Casing.SNAKE) == {
            "foo_bar": 1,
            "from": 2,
            "address_line_1": 3,
            "foo_baz": 4,
        }
        assert mb.to_dict(Casing.SNAKE) == {
            "foo_baz": 8,
            "address_line_1": 7,
            "from": "x",
            "foo_bar": str(2**60),
        }
    for m, cls in ((ma, a), (mb, b)):
        for casing in (Casing.CAMEL, Casing.SNAKE):
            assert cls.from_dict(m.to_dict(casing)) == m
            assert cls().from_json(m.to_json(casing=casing)) == m
            assert bytes(cls().from_dict(m.to_dict(casing))) == bytes(m)


@dataclass(eq=False, repr=False)
class Leaf(betterproto.Message):
    leaf_value_1: int = betterproto.int32_field(1)
    from_: str = betterproto.string_field(2)
    inner_leaf: "Leaf" = betterproto.message_field(3)


@dataclass(eq=False, repr=False)
class Tree(betterproto.Message):
    one_leaf: Leaf = betterproto.message_field(1)
    many_leaves: List[Leaf] = betterproto.message_field(2)
    leaf_by_name: Dict[str, Leaf] = betterproto.map_field(
        3, betterproto.TYPE_STRING, betterproto.TYPE_MESSAGE
    )
    count_by_id_: Dict[int, int] = betterproto.map_field(
        4, betterproto.TYPE_INT64, betterproto.TYPE_INT64
    )
    opt_leaf: Optional[Leaf] = betterproto.message_field(
        5, optional=True, group="_opt_leaf"
    )
    pick_leaf: Leaf = betterproto.message_field(6, group="pick_one")
    pick_number_2: int = betterproto.int32_field(7, group="pick_one")


def leaf_dict(casing, value, text, inner=None):
    d = {}
    if value:
        d[casing("leaf_value_1")] = value
    if text:
        d["from"] = text
    if inner is not None:
        d[casing("inner_leaf")] = inner
    return d


def test_nested():
    def build():
        return Tree(
            one_leaf=Leaf(5, "a", Leaf(6, "", Leaf(inner_leaf=Leaf(from_="deep")))),
            many_leaves=[Leaf(1), Leaf(), Leaf(0, "z")],
            leaf_by_name={"k": Leaf(9), "": Leaf()},
            count_by_id_={-1: 2**40, 0: 0},
            opt_leaf=Leaf(),
            pick_number_2=0,
        )

    for order in ((camel_case, snake_case), (snake_case, camel_case, snake_case)):
        for casing in order:
            m = build()
            expected = {
                casing("one_leaf"): leaf_dict(
                    casing,
                    5,
                    "a",
                    leaf_dict(casing, 6, "", leaf_dict(casing, 0, "", {"from": "deep"})),
                ),
                casing("many_leaves"): [
                    leaf_dict(casing, 1, ""),
                    {},
                    leaf_dict(casing, 0, "z"),
                ],
                casing("leaf_by_name"): {"k": leaf_dict(casing, 9, ""), "": {}},
                casing("count_by_id_").rstrip("_"): {-1: str(2**40), 0: "0"},
                casing("opt_leaf"): {},
                casing("pick_number_2"): 0,
            }
            d = m.to_dict(casing=casing)
            assert d == expected, (d, expected)
            assert list(d) == list(expected)
            for m2 in (
                Tree.from_dict(d),
                Tree().from_dict(d),
                Tree().from_json(m.to_json(casing=casing)),
            ):
                assert m2 == m
                assert bytes(m2) == bytes(m)
                assert betterproto.which_one_of(m2, "pick_one") == ("pick_number_2", 0)
    # a oneof member that is a message, the other casing of the keys inside it
    m = Tree(pick_leaf=Leaf(from_="q"))
    assert m.to_dict() == {"pickLeaf": {"from": "q"}}
    assert m.to_dict(Casing.SNAKE) == {"pick_leaf": {"from": "q"}}
    assert Tree.from_dict({"pick_leaf": {"leafValue1": 3, "inner_leaf": {}}}) == Tree(
        pick_leaf=Leaf(3, "", Leaf())
    )


def test_accepted_keys():
    """from_dict maps emitted keys, field names and re-snake-cased keys to fields and
    ignores everything else."""
    cls = make_class(["address_line_1", "from_", "fooBar", "plain", "x_"])
    full = cls(address_line_1=1, from_=2, fooBar=3, plain=4, x_=5)
    for d in (
        {"addressLine1": 1, "from": 2, "fooBar": 3, "plain": 4, "x": 5},
        {"address_line_1": 1, "from": 2, "foo_bar": 3, "plain": 4, "x": 5},
        {"address_line_1": 1, "from_": 2, "fooBar": 3, "plain": 4, "x_": 5},
    ):
        assert cls.from_dict(d) == full, d
        assert cls().from_dict(d) == full, d
        assert bytes(cls.from_dict(d)) == bytes(full)
    # keys that are not in the table are re-snake-cased (and must then be a field name)
    assert cls.from_dict(
        {"AddressLine_1": 1, "From": 2, "FooBar": 3, "Plain": 4, "X": 5, "junk": 9}
    ) == cls(address_line_1=1, from_=2, plain=4)
    assert cls.from_dict({"addressLine_1": 1}) == cls(address_line_1=1)
    assert cls.from_dict({"address_line1": 1, "AddressLine1": 2, "unknown": 3}) == cls()
    assert cls.from_dict({"plain": None, "from": None}) == cls()
    # later spellings of the same field win
    assert cls.from_dict({"fooBar": 1, "foo_bar": 2}).fooBar == 2
    assert cls.from_dict({"foo_bar": 2, "fooBar": 1}).fooBar == 1


def main():
    test_flat()
    test_same_casing_many_classes()
    test_nested()
    test_accepted_keys()
    print(f"ok: {checked} flat message/casing checks + nested, multi-class and key-table checks")


if __name__ == "__main__":
    main()
