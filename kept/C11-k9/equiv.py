"""C11 keep1: betterproto.casing (snake_case / pascal_case / sanitize_name and what is built
on them) is what turns RPC and service names into the names of the generated Stub / Base
methods and classes.  This script
  1. compares the library functions with frozen copies of the original implementations on a
     large corpus (exhaustive over a small alphabet, plus realistic and random names), and
  2. generates services whose method / service / message names need re-casing, and checks
     that calls through the generated stub reach the right generated handler intact for all
     four cardinalities.
Exits 0 on the pristine tree and with the refactor applied.
"""
import asyncio, importlib, os, sys, tempfile, itertools

import betterproto
from betterproto.lib.google.protobuf import (
    DescriptorProto, FieldDescriptorProto, FieldDescriptorProtoLabel,
    FieldDescriptorProtoType, FileDescriptorProto, MethodDescriptorProto,
    MethodOptions, ServiceDescriptorProto,
)
from betterproto.lib.google.protobuf.compiler import CodeGeneratorRequest
import betterproto.plugin.compiler as plugin_compiler
from betterproto.plugin.parser import generate_code

# ruff is not installed: formatting / import sorting is a no-op
plugin_compiler.subprocess.check_output = lambda cmd, input, encoding: input

T = FieldDescriptorProtoType
OPT = FieldDescriptorProtoLabel.LABEL_OPTIONAL


def msg(name, *fields):
    """fields: (name, number, type[, type_name])"""
    out = []
    for f in fields:
        fd = FieldDescriptorProto(name=f[0], number=f[1], type=f[2], label=OPT,
                                  json_name=f[0])
        if len(f) > 3:
            fd.type_name = f[3]
        out.append(fd)
    return DescriptorProto(name=name, field=out)


def rpc(name, inp, out, cs=False, ss=False, deprecated=False):
    m = MethodDescriptorProto(name=name, input_type=inp, output_type=out,
                              client_streaming=cs, server_streaming=ss)
    if deprecated:
        m.options = MethodOptions(deprecated=True)
    return m


def proto_file(name, package, messages=(), services=(), deps=()):
    return FileDescriptorProto(
        name=name, package=package, syntax="proto3", dependency=list(deps),
        message_type=list(messages),
        service=[ServiceDescriptorProto(name=n, method=list(ms)) for n, ms in services],
    )


_counter = itertools.count()


def generate(files, parameter=""):
    """Run the plugin in-process, write the package tree under a fresh root package and
    return {proto package name: imported python module}."""
    req = CodeGeneratorRequest(file_to_generate=[f.name for f in files],
                               proto_file=list(files), parameter=parameter)
    resp = generate_code(req)
    root_name = f"c11gen{next(_counter)}"
    tmp = tempfile.mkdtemp(prefix="c11_")
    root = os.path.join(tmp, root_name)
    os.makedirs(root)
    wrote_root_init = False
    for f in resp.file:
        path = os.path.join(root, f.name)
        os.makedirs(os.path.dirname(path), exist_ok=True)
        with open(path, "w") as fh:
            fh.write(f.content)
        if f.name == "__init__.py":
            wrote_root_init = True
    if not wrote_root_init:
        open(os.path.join(root, "__init__.py"), "a").close()
    sys.path.insert(0, tmp)
    importlib.invalidate_caches()
    mods = {}
    for f in files:
        if f.package == "google.protobuf":
            continue
        modname = root_name + ("." + f.package if f.package else "")
        mods[f.package] = importlib.import_module(modname)
    return mods

# ---------------------------------------------------------------------------------------
import keyword
import random
import re
import time

import grpclib
from grpclib.testing import ChannelFor

from betterproto import casing
from betterproto.compile import naming

t0 = time.time()

# ---- frozen reference implementations (verbatim from the pristine tree) -----------------
R_SYMBOLS = "[^a-zA-Z0-9]*"
R_WORD = "[A-Z]*[a-z]*[0-9]*"
R_WORD_UPPER = "[A-Z]+(?![a-z])[0-9]*"


def ref_sanitize_name(value):
    if keyword.iskeyword(value):
        return f"{value}_"
    if not value.isidentifier():
        return f"_{value}"
    return value


def ref_snake_case(value, strict=True):
    def substitute_word(symbols, word, is_start):
        if not word:
            return ""
        if strict:
            delimiter_count = 0 if is_start else 1
        elif is_start:
            delimiter_count = len(symbols)
        elif word.isupper() or word.islower():
            delimiter_count = max(1, len(symbols))
        else:
            delimiter_count = len(symbols) + 1
        return ("_" * delimiter_count) + word.lower()

    return re.sub(
        f"(^)?({R_SYMBOLS})({R_WORD_UPPER}|{R_WORD})",
        lambda groups: substitute_word(groups[2], groups[3], groups[1] is not None),
        value,
    )


def ref_safe_snake_case(value):
    return ref_sanitize_name(ref_snake_case(value))


def ref_pascal_case(value, strict=True):
    def substitute_word(symbols, word):
        if strict:
            return word.capitalize()
        if word.islower():
            delimiter_length = len(symbols[:-1])
        else:
            delimiter_length = len(symbols)
        return ("_" * delimiter_length) + word.capitalize()

    return re.sub(
        f"({R_SYMBOLS})({R_WORD_UPPER}|{R_WORD})",
        lambda groups: substitute_word(groups[1], groups[2]),
        value,
    )


def ref_camel_case(value, strict=True):
    p = ref_pascal_case(value, strict=strict)
    return p[0:1].lower() + p[1:]


def check_name(name):
    for strict in (True, False):
        assert casing.snake_case(name, strict) == ref_snake_case(name, strict), (name, strict)
        assert casing.snake_case(name, strict=strict) == ref_snake_case(name, strict)
        assert casing.pascal_case(name, strict) == ref_pascal_case(name, strict), (name, strict)
        assert casing.pascal_case(name, strict=strict) == ref_pascal_case(name, strict)
        assert casing.camel_case(name, strict) == ref_camel_case(name, strict), (name, strict)
    assert casing.snake_case(name) == ref_snake_case(name), name
    assert casing.pascal_case(name) == ref_pascal_case(name), name
    assert casing.safe_snake_case(name) == ref_safe_snake_case(name), name
    assert casing.sanitize_name(name) == ref_sanitize_name(name), name
    assert naming.pythonize_method_name(name) == ref_safe_snake_case(name), name
    assert naming.pythonize_field_name(name) == ref_safe_snake_case(name), name
    assert naming.pythonize_class_name(name) == ref_sanitize_name(ref_pascal_case(name)), name


count = 0
# 1a. exhaustive over a small alphabet (lower, upper, digit, underscore, dot, dash, space)
ALPHABET = "aZb7_.- Q"
for n in range(0, 6):
    for tup in itertools.product(ALPHABET, repeat=n):
        check_name("".join(tup))
        count += 1

# 1b. every Python keyword / soft keyword in several casings, builtins, realistic RPC names
words = list(keyword.kwlist) + list(getattr(keyword, "softkwlist", [])) + [
    "list", "dict", "type", "self", "timeout", "deadline", "metadata", "channel", "print",
]
realistic = [
    "GetThing", "getThing", "get_thing", "GET_THING", "Get_Thing", "GetHTTPResponse",
    "HTTPGet", "DoThing2", "Do2Things", "doIT_now", "ListV2Items", "X", "x", "XY", "xY",
    "Xy", "__init__", "_private", "trailing_", "a__b", "A__B", "aB__cD", "UInt32Value",
    "IPv6Address", "getURLForID", "Ünïcode", "naïveName", "日本語", "Δelta", "ǅ", "ß", "ﬁx",
    "with space", "kebab-case-name", "dotted.name.Here", "1abc", "123", "a1B2c3", "",
    "mixed_Case-With.All Sorts__OF__delims", "ALLCAPS123lower", "lowerUPPER", "\n", "a\tb",
    "Import", "Class", "None", "True", "Async", "Await", "Lambda", "import", "ClassDef",
]
for w in words:
    realistic += [w, w.capitalize(), w.upper(), w + "_", "_" + w, w + "Request", "get" + w.capitalize()]
for name in realistic:
    check_name(name)
    count += 1

# 1c. random longer names over a richer alphabet
rng = random.Random(20240511)
RICH = "abcxyzABCXYZ0189___..-  éÉßΩ$#"
for _ in range(60000):
    name = "".join(rng.choice(RICH) for _ in range(rng.randint(1, 24)))
    check_name(name)
    count += 1
print(f"casing: {count} names agree with the reference implementation")

# 1d. the module still exposes the regex building blocks
assert casing.SYMBOLS == R_SYMBOLS and casing.WORD == R_WORD and casing.WORD_UPPER == R_WORD_UPPER

# ---- 2. end to end: services whose names need re-casing ---------------------------------
PKG = "recase.v1"
P = "." + PKG + "."
METHODS = [
    # (proto method name, client streaming, server streaming)
    ("GetHTTPResponse", False, False),
    ("listV2Items", False, True),
    ("upload_Many_THINGS", True, False),
    ("ChatIT2Me", True, True),
    ("Import", False, False),
    ("Class", False, True),
    ("Yield", True, False),
    ("Async", True, True),
    ("X", False, False),
    ("do_it", False, True),
]
SERVICES = ["HTTPGateway", "my_service", "Svc2Go"]
files = [proto_file(
    "recase.proto", PKG,
    messages=[msg("HTTPRequest_v2", ("n", 1, T.TYPE_INT32), ("tag", 2, T.TYPE_STRING)),
              msg("replyMessage", ("n", 1, T.TYPE_INT32), ("tag", 2, T.TYPE_STRING))],
    services=[(s, [rpc(n, P + "HTTPRequest_v2", P + "replyMessage", cs, ss)
                   for n, cs, ss in METHODS]) for s in SERVICES],
)]
m = generate(files)[PKG]
Req = getattr(m, ref_sanitize_name(ref_pascal_case("HTTPRequest_v2")))
Rep = getattr(m, ref_sanitize_name(ref_pascal_case("replyMessage")))
assert Req.__name__ == "HttpRequestV2" and Rep.__name__ == "ReplyMessage"


def make_impl(base, service_name, log):
    ns = {}
    for proto_name, cs, ss in METHODS:
        py = ref_safe_snake_case(proto_name)
        tag = f"{service_name}/{proto_name}"

        def build(py=py, tag=tag, cs=cs, ss=ss):
            if not cs and not ss:
                async def h(self, request):
                    log.append((tag, [request]))
                    return Rep(n=request.n + 1, tag=tag)
            elif not cs and ss:
                async def h(self, request):
                    log.append((tag, [request]))
                    for i in range(request.n):
                        yield Rep(n=i, tag=tag)
            elif cs and not ss:
                async def h(self, request_iterator):
                    got = [r async for r in request_iterator]
                    log.append((tag, got))
                    return Rep(n=sum(r.n for r in got), tag=tag)
            else:
                async def h(self, request_iterator):
                    got = []
                    async for r in request_iterator:
                        got.append(r)
                        yield Rep(n=r.n * 2, tag=tag)
                    log.append((tag, got))
            h.__name__ = py
            return h

        ns[py] = build()
    return type("Impl" + base.__name__, (base,), ns)()


async def drive():
    log = []
    impls, stubs_cls = [], {}
    for s in SERVICES:
        cls_name = ref_sanitize_name(ref_pascal_case(s))
        base = getattr(m, cls_name + "Base")
        stubs_cls[s] = getattr(m, cls_name + "Stub")
        impls.append(make_impl(base, s, log))
        # an un-overridden base answers UNIMPLEMENTED (checked below)
    expected_routes = {f"/{PKG}.{s}/{n}" for s in SERVICES for n, _, _ in METHODS}
    routes = set()
    for impl in impls:
        routes |= set(impl.__mapping__())
    assert routes == expected_routes, routes ^ expected_routes

    async with ChannelFor(impls) as channel:
        for s in SERVICES:
            stub = stubs_cls[s](channel)
            for k in (0, 1, 3):
                for proto_name, cs, ss in METHODS:
                    py = ref_safe_snake_case(proto_name)
                    assert py == naming.pythonize_method_name(proto_name)
                    tag = f"{s}/{proto_name}"
                    del log[:]
                    reqs = [Req(n=i + 5, tag=f"r{i}") for i in range(k)]
                    if not cs:
                        req = Req(n=k, tag="single")
                        sent = [req]
                        if not ss:
                            got = await getattr(stub, py)(req)
                            assert got == Rep(n=k + 1, tag=tag), (tag, got)
                        else:
                            got = [r async for r in getattr(stub, py)(req)]
                            assert got == [Rep(n=i, tag=tag) for i in range(k)], (tag, got)
                    else:
                        sent = reqs
                        if not ss:
                            got = await getattr(stub, py)(iter(reqs))
                            assert got == Rep(n=sum(r.n for r in reqs), tag=tag), (tag, got)
                        else:
                            got = [r async for r in getattr(stub, py)(reqs)]
                            assert got == [Rep(n=r.n * 2, tag=tag) for r in reqs], (tag, got)
                    assert log == [(tag, sent)], (tag, log)

    # un-overridden methods answer UNIMPLEMENTED under their re-cased names too
    bare = [getattr(m, ref_sanitize_name(ref_pascal_case(s)) + "Base")() for s in SERVICES]
    async with ChannelFor(bare) as channel:
        for s in SERVICES:
            stub = stubs_cls[s](channel)
            for proto_name, cs, ss in METHODS:
                call = getattr(stub, ref_safe_snake_case(proto_name))
                arg = [Req(n=1)] if cs else Req(n=1)
                try:
                    if ss:
                        [r async for r in call(arg)]
                    else:
                        await call(arg)
                except grpclib.GRPCError as e:
                    assert e.status == grpclib.Status.UNIMPLEMENTED, (s, proto_name, e)
                else:
                    raise AssertionError(f"{s}/{proto_name} should be UNIMPLEMENTED")


asyncio.run(drive())
expected_py = {
    "GetHTTPResponse": "get_http_response", "listV2Items": "list_v2_items",
    "upload_Many_THINGS": "upload_many_things", "ChatIT2Me": "chat_it2_me",
    "Import": "import_", "Class": "class_", "Yield": "yield_", "Async": "async_",
    "X": "x", "do_it": "do_it",
}
for k_, v_ in expected_py.items():
    assert naming.pythonize_method_name(k_) == v_, (k_, naming.pythonize_method_name(k_))
assert [naming.pythonize_class_name(s) for s in SERVICES] == ["HttpGateway", "MyService", "Svc2Go"]
print("C11 keep1 equiv OK (%.1fs)" % (time.time() - t0))
