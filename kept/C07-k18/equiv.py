"""Equivalence check for the refactor of the scalar tail of Message.to_dict (property C07).

ref_entry() is a verbatim transcription of the original if/elif chain that turned one
scalar / enum field into its JSON entry.  For messages made of scalar and enum fields only
(plain, oneof members, optional, repeated; every scalar proto type) the whole to_dict
output - keys, key order, values, value types, list identity, exceptions - must equal what
the reference chain produces, after single assignments of boundary values and after random
operation histories; the C07 statement about the JSON output is asserted as well.
"""
import copy
import json
import math
import pickle
import random
import sys
import typing
from base64 import b64encode
from dataclasses import dataclass
from typing import List, Optional

import betterproto
from betterproto import (
    INT_64_TYPES,
    TYPE_BYTES,
    TYPE_DOUBLE,
    TYPE_ENUM,
    TYPE_FLOAT,
    Casing,
    which_one_of,
)
from betterproto import _dump_float, _enum_to_json  # the helpers the old chain called


class Color(betterproto.Enum):
    ZERO = 0
    RED = 1
    BLUE = 2


SCALARS = [
    "bool", "int32", "int64", "uint32", "uint64", "sint32", "sint64", "float", "double",
    "fixed32", "fixed64", "sfixed32", "sfixed64", "string", "bytes",
]
PY = {"bool": "bool", "float": "float", "double": "float", "string": "str", "bytes": "bytes"}

# One class with, for every scalar type and for enums: a plain field, members of the oneof
# groups g0..g3, an optional field and a repeated field.
lines = ["@dataclass(eq=False, repr=False)", "class S(betterproto.Message):"]
num = 0
GROUPS = {}
for i, t in enumerate(SCALARS + ["enum"]):
    py = "Color" if t == "enum" else PY.get(t, "int")
    g = f"g{i % 4}"
    for kind in ("p", "o", "x", "r"):
        num += 1
        name = f"{kind}_{t}"
        if kind == "p":
            lines.append(f"    {name}: {py} = betterproto.{t}_field({num})")
        elif kind == "o":
            lines.append(f"    {name}: {py} = betterproto.{t}_field({num}, group='{g}')")
            GROUPS.setdefault(g, []).append(name)
        elif kind == "x":
            lines.append(
                f"    {name}: Optional[{py}] = betterproto.{t}_field({num}, optional=True, group='_{name}')"
            )
        else:
            lines.append(f"    {name}: List[{py}] = betterproto.{t}_field({num})")
exec("\n".join(lines))  # noqa: S102 - S is defined here
S = globals()["S"]
META = S._betterproto.meta_by_field_name
FIELDS = list(META)
FIELD_TYPES = S._type_hints()

MISSING = object()


def ref_entry(m, field_name, value, include_default_values):
    """The original scalar tail of to_dict for one field; MISSING when no key is emitted."""
    meta = META[field_name]
    field_is_repeated = m._betterproto.default_gen[field_name] is list
    field_types = FIELD_TYPES  # what self._type_hints() returns (deterministic)
    selected = meta.group is not None and m._group_current.get(meta.group) == field_name
    out = MISSING
    if (
        value != m._get_field_default(field_name)
        or include_default_values
        or selected
    ):
        if meta.proto_type in INT_64_TYPES:
            if field_is_repeated:
                out = [str(n) for n in value]
            elif value is None:
                if include_default_values:
                    out = value
            else:
                out = str(value)
        elif meta.proto_type == TYPE_BYTES:
            if field_is_repeated:
                out = [b64encode(b).decode("utf8") for b in value]
            elif value is None and include_default_values:
                out = value
            else:
                out = b64encode(value).decode("utf8")
        elif meta.proto_type == TYPE_ENUM:
            if field_is_repeated:
                enum_class = field_types[field_name].__args__[0]
                if isinstance(value, typing.Iterable) and not isinstance(value, str):
                    out = [_enum_to_json(enum_class, el) for el in value]
                else:
                    # transparently upgrade single value to repeated
                    out = [_enum_to_json(enum_class, value)]
            elif value is None:
                if include_default_values:
                    out = value
            elif meta.optional:
                enum_class = field_types[field_name].__args__[0]
                out = _enum_to_json(enum_class, value)
            else:
                enum_class = field_types[field_name]
                out = _enum_to_json(enum_class, value)
        elif meta.proto_type in (TYPE_FLOAT, TYPE_DOUBLE):
            if field_is_repeated:
                out = [_dump_float(n) for n in value]
            else:
                out = _dump_float(value)
        else:
            out = value
    return out


def ref_to_dict(m, casing, include_default_values):
    output = {}
    for field_name in FIELDS:
        try:
            value = getattr(m, field_name)
        except AttributeError:
            value = m._get_field_default(field_name)
        entry = ref_entry(m, field_name, value, include_default_values)
        if entry is not MISSING:
            output[casing(field_name).rstrip("_")] = entry
    return output


def typed(x):
    """Value with its exact types (True != 1, '1' != 1, nan == nan)."""
    if isinstance(x, dict):
        return ("dict", [(k, typed(v)) for k, v in x.items()])
    if isinstance(x, list):
        return ("list", [typed(v) for v in x])
    if isinstance(x, float) and math.isnan(x):
        return ("float", "nan")
    return (type(x).__name__, x)


def outcome(fn):
    try:
        return ("ok", typed(fn()))
    except Exception as e:  # noqa: BLE001 - the exception is the observable
        return ("err", type(e).__name__, str(e))


def compare(m, context):
    n = 0
    for casing in (Casing.CAMEL, Casing.SNAKE):
        for inc in (False, True):
            got = outcome(lambda: m.to_dict(casing, inc))
            want = outcome(lambda: ref_to_dict(m, casing, inc))
            assert got == want, (context, casing, inc, got, want)
            n += 1
            if got[0] == "ok" and not inc:
                # to_json is to_dict + json.dumps
                assert json.loads(m.to_json(casing=casing)) == json.loads(
                    json.dumps(m.to_dict(casing, inc))
                )
    return n


def check_statement(m):
    """C07 on the JSON output: the selected member of a group and no other member."""
    try:
        js = m.to_dict(Casing.SNAKE)
    except Exception:  # noqa: BLE001 - an ill-typed value was stored on purpose
        return
    for g, members in GROUPS.items():
        name, value = which_one_of(m, g)
        for n in members:
            if n == name:
                if value is not None:  # None: a member without a value, not in the domain
                    assert n in js, (n, js)
            else:
                assert n not in js, (n, js)
                try:
                    getattr(m, n)
                except AttributeError:
                    pass
                else:
                    raise AssertionError(n)


INTS = [0, 1, -1, 127, 128, 2**31 - 1, -(2**31), 2**32 - 1, 2**63 - 1, -(2**63), 2**64 - 1]
VALUES = {
    "bool": [False, True],
    "float": [0.0, -0.0, 1.5, -2.25, float("inf"), -float("inf"), float("nan"), 1e30, 3],
    "double": [0.0, -0.0, 1.5, 1e300, float("inf"), -float("inf"), float("nan"), 7],
    "string": ["", "a", "héllo", "Infinity", "0"],
    "bytes": [b"", b"\x00", b"abc", b"\xff\xfe\xfd", bytes(range(256))],
    "enum": [Color.ZERO, Color.RED, Color.BLUE, 0, 1, 2, 5, -1],
}


def values_for(t):
    return VALUES.get(t, INTS)


def single_assignments():
    n = 0
    for t in SCALARS + ["enum"]:
        vals = values_for(t)
        for v in vals + [None]:
            for kind in ("p", "o", "x"):
                name = f"{kind}_{t}"
                m = S()
                setattr(m, name, v)
                n += compare(m, ("set", name, v))
                check_statement(m)
                m2 = S(**{name: v})
                n += compare(m2, ("kw", name, v))
                check_statement(m2)
                # a sibling selected afterwards removes it from the JSON again
                if kind == "o":
                    g = META[name].group
                    other = [x for x in GROUPS[g] if x != name][0]
                    setattr(m, other, m._get_field_default(other))
                    n += compare(m, ("sibling", name, other))
                    check_statement(m)
                    assert other in m.to_dict(Casing.SNAKE)
        for lst in ([], vals[:1], vals, vals[::-1] + vals, None):
            name = f"r_{t}"
            m = S()
            setattr(m, name, lst)
            n += compare(m, ("rep", name, lst))
            m2 = S(**{name: lst}) if lst is not None else S()
            n += compare(m2, ("rep-kw", name, lst))
        # types that are JSON values as they are: the very list object is emitted
        if t in ("bool", "int32", "uint32", "sint32", "fixed32", "sfixed32", "string"):
            m = S()
            lst = list(vals)
            setattr(m, f"r_{t}", lst)
            assert m.to_dict(Casing.SNAKE)[f"r_{t}"] is lst
    return n


def expectations():
    # (groups: g0 = bool/uint64/double/sfixed64, g1 = int32/sint32/fixed32/string,
    #  g2 = int64/sint64/fixed64/bytes, g3 = uint32/float/sfixed32/enum)
    m = S(o_int64=0, o_string="", o_double=0.0, o_enum=Color.ZERO)
    assert m.to_dict(Casing.SNAKE) == {
        "o_int64": "0", "o_double": 0.0, "o_string": "", "o_enum": "ZERO"
    }, m.to_dict(Casing.SNAKE)
    m = S(o_sfixed64=-(2**63), o_float=float("nan"), o_bytes=b"")
    assert m.to_dict() == {
        "oFloat": "NaN", "oSfixed64": "-9223372036854775808", "oBytes": ""
    }, m.to_dict()
    m.o_int64 = 0  # replaces o_bytes
    assert m.to_dict() == {
        "oFloat": "NaN", "oSfixed64": "-9223372036854775808", "oInt64": "0"
    }, m.to_dict()
    m = S(p_uint64=2**64 - 1, p_bytes=b"abc", p_double=-float("inf"), p_enum=7, r_fixed64=[1, 2])
    assert m.to_dict(Casing.SNAKE) == {
        "p_uint64": "18446744073709551615", "r_fixed64": ["1", "2"],
        "p_double": "-Infinity", "p_bytes": "YWJj", "p_enum": 7,
    }, m.to_dict(Casing.SNAKE)
    m = S()
    m.x_int64 = None
    assert "x_int64" not in m.to_dict(Casing.SNAKE)
    assert m.to_dict(Casing.SNAKE, include_default_values=True)["x_int64"] is None
    m = S()
    m.x_bytes = None  # selected but without a value: historic TypeError
    try:
        m.to_dict()
    except TypeError:
        pass
    else:
        raise AssertionError("expected TypeError")
    assert m.to_dict(include_default_values=True)["xBytes"] is None
    m = S()
    m.x_double = None
    assert m.to_dict(Casing.SNAKE) == {"x_double": None}


def gen_value(rng, name):
    kind, t = name.split("_", 1)
    vals = values_for(t)
    if kind == "r":
        return [rng.choice(vals) for _ in range(rng.randint(0, 3))]
    if rng.random() < 0.3:
        return vals[0]
    if kind == "x" and rng.random() < 0.2:
        return None
    return rng.choice(vals)


def valid_value(rng, name):
    """Values that can be encoded (for the parse / pickle operations)."""
    kind, t = name.split("_", 1)
    ranges = {
        "int32": (-(2**31), 2**31 - 1), "sint32": (-(2**31), 2**31 - 1),
        "sfixed32": (-(2**31), 2**31 - 1), "uint32": (0, 2**32 - 1),
        "fixed32": (0, 2**32 - 1), "int64": (-(2**63), 2**63 - 1),
        "sint64": (-(2**63), 2**63 - 1), "sfixed64": (-(2**63), 2**63 - 1),
        "uint64": (0, 2**64 - 1), "fixed64": (0, 2**64 - 1),
    }
    if t in ranges:
        lo, hi = ranges[t]
        pick = lambda: rng.choice([0, 1, lo, hi, hi // 3])  # noqa: E731
    elif t == "float":
        pick = lambda: rng.choice([0.0, 1.5, -2.25, float("inf"), float("nan")])  # noqa: E731
    else:
        vals = [v for v in values_for(t) if v != -1 or t != "enum"]
        pick = lambda: rng.choice(vals)  # noqa: E731
    if kind == "r":
        return [pick() for _ in range(rng.randint(0, 3))]
    return pick()


def build(rng):
    kw = {}
    for g, members in GROUPS.items():
        if rng.random() < 0.7:
            n = rng.choice(members)
            kw[n] = valid_value(rng, n)
    for n in rng.sample(FIELDS, rng.randint(0, 5)):
        if n.startswith(("p_", "r_", "x_")):
            kw[n] = valid_value(rng, n)
    return S(**kw)


def histories(n_histories, length, seed):
    rng = random.Random(seed)
    n = 0
    for _ in range(n_histories):
        m = S()
        for _ in range(length):
            op = rng.choice(
                ["construct", "set", "set", "set", "set_default", "parse", "from_dict",
                 "from_dict", "copy", "deepcopy", "pickle"]
            )
            try:
                if op == "construct":
                    m = build(rng)
                elif op == "set":
                    name = rng.choice(FIELDS)
                    setattr(m, name, gen_value(rng, name))
                elif op == "set_default":
                    name = rng.choice(GROUPS[rng.choice(list(GROUPS))])
                    setattr(m, name, m._get_field_default(name))
                elif op == "parse":
                    m.parse(b"".join(bytes(build(rng)) for _ in range(rng.randint(0, 3))))
                elif op == "from_dict":
                    src = build(rng).to_dict(rng.choice([Casing.CAMEL, Casing.SNAKE]))
                    m = m.from_dict(src) if rng.random() < 0.5 else S.from_dict(src)
                elif op == "copy":
                    m = copy.copy(m)
                elif op == "deepcopy":
                    m = copy.deepcopy(m)
                elif op == "pickle":
                    m = pickle.loads(pickle.dumps(m))
            except Exception:  # noqa: BLE001 - e.g. a stored value that cannot be encoded
                pass
            n += compare(m, op)
            check_statement(m)
    return n


if __name__ == "__main__":
    expectations()
    a = single_assignments()
    b = histories(25, 20, 7) + histories(100, 4, 8)
    assert a > 3000 and b > 2000, (a, b)
    print(f"equiv OK: {a} to_dict comparisons after single assignments, {b} along histories")
    sys.exit(0)
