"""Equivalence check for the table-driven wire-type dispatch (C07, keep2).

_serialize_single, _len_single and _wire_type_matches now look the wire type of a
proto type up in one table instead of walking an if/elif chain over four lists.
Exits 0 on the pristine tree and with the refactor applied.

Parts:
 1. the three helpers against an independent reference written from the wire
    format (all proto types x boundary field numbers x empty / non-empty values
    x serialize_empty x wraps, unknown proto types, every wire type 0..7);
 2. bytes(msg) / len(msg) of messages whose oneof members cover every scalar
    kind, for default and non-default values, against google.protobuf;
 3. model-based random histories over a message with four oneof groups, checking
    which_one_of, attribute access, the encoding and to_dict after every step;
 4. a digest over the outputs of parts 1 and 2, recorded on the pristine tree.
"""
import copy
import hashlib
import io
import json
import pickle
import random
import struct
from dataclasses import dataclass
from typing import Dict, List

import betterproto
from betterproto import parse_fields, which_one_of


class Color(betterproto.Enum):
    ZERO = 0
    RED = 1
    BLUE = 2
    NEG = -1


@dataclass(eq=False, repr=False)
class Sub(betterproto.Message):
    x: int = betterproto.int32_field(1)
    s: str = betterproto.string_field(2)


@dataclass(eq=False, repr=False)
class Empty(betterproto.Message):
    pass


@dataclass(eq=False, repr=False)
class Msg(betterproto.Message):
    plain: int = betterproto.int32_field(1)
    d_first: int = betterproto.uint32_field(30, group="g4")
    a_int: int = betterproto.int32_field(2, group="g1")
    a_str: str = betterproto.string_field(3, group="g1")
    a_enum: Color = betterproto.enum_field(4, group="g1")
    a_sub: Sub = betterproto.message_field(5, group="g1")
    name: str = betterproto.string_field(6)
    b_bool: bool = betterproto.bool_field(7, group="g2")
    b_bytes: bytes = betterproto.bytes_field(8, group="g2")
    b_double: float = betterproto.double_field(9, group="g2")
    b_sint: int = betterproto.sint64_field(10, group="g2")
    b_sub: Sub = betterproto.message_field(20, group="g2")
    b_empty: Empty = betterproto.message_field(21, group="g2")
    c_only: int = betterproto.uint32_field(11, group="g3")
    items: List[int] = betterproto.int32_field(12)
    d_last: str = betterproto.string_field(31, group="g4")
    child: Sub = betterproto.message_field(13)
    subs: List[Sub] = betterproto.message_field(14)
    names: List[str] = betterproto.string_field(15)
    counts: Dict[str, int] = betterproto.map_field(
        16, betterproto.TYPE_STRING, betterproto.TYPE_INT32
    )
    by_id: Dict[int, Sub] = betterproto.map_field(
        17, betterproto.TYPE_INT32, betterproto.TYPE_MESSAGE
    )
    ratios: List[float] = betterproto.float_field(18)
    colors: List[Color] = betterproto.enum_field(19)


GROUPS = {
    "g1": ["a_int", "a_str", "a_enum", "a_sub"],
    "g2": ["b_bool", "b_bytes", "b_double", "b_sint", "b_sub", "b_empty"],
    "g3": ["c_only"],
    "g4": ["d_first", "d_last"],
}
GROUP_OF = {m: g for g, ms in GROUPS.items() for m in ms}
NUMBER = {
    name: meta.number for name, meta in Msg._betterproto.meta_by_field_name.items()
}
JSON_KEY = {m: betterproto.Casing.CAMEL(m) for m in NUMBER}

VALUES = {
    "a_int": [0, 1, -1, 2**31 - 1, -(2**31)],
    "a_str": ["", "x", "héllo"],
    "a_enum": [Color.ZERO, Color.RED, Color.BLUE, Color.NEG],
    "a_sub": [lambda: Sub(), lambda: Sub(x=0), lambda: Sub(x=3), lambda: Sub(s="q", x=-1)],
    "b_bool": [False, True],
    "b_bytes": [b"", b"\x00", b"ab"],
    "b_double": [0.0, 1.5, -2.0],
    "b_sint": [0, -1, 2**40, -(2**63)],
    "b_sub": [lambda: Sub(), lambda: Sub(s=""), lambda: Sub(x=9)],
    "b_empty": [lambda: Empty()],
    "c_only": [0, 1, 2**32 - 1],
    "d_first": [0, 5],
    "d_last": ["", "z"],
}


def pick(rng, member):
    v = rng.choice(VALUES[member])
    return v() if callable(v) else v


def plain_value(v):
    if isinstance(v, betterproto.Message):
        return (type(v).__name__, bytes(v))
    return v


def wire_of(member, value):
    return bytes(Msg(**{member: value}))


def json_of(member, value):
    return Msg(**{member: value}).to_dict()[JSON_KEY[member]]


def check(m, model, where):
    raw = bytes(m)
    present = {}
    for f in parse_fields(raw):
        present.setdefault(f.number, []).append(f)
    d = m.to_dict()
    assert json.loads(m.to_json()) == json.loads(json.dumps(d)), where
    for group, members in GROUPS.items():
        sel = model[group]
        name, value = which_one_of(m, group)
        if sel is None:
            assert (name, value) == ("", None), (where, group, name, value)
        else:
            assert name == sel[0], (where, group, name, sel)
            assert plain_value(value) == sel[1], (where, group, value, sel)
        for member in members:
            if sel is not None and member == sel[0]:
                assert plain_value(getattr(m, member)) == sel[1], (where, member)
                assert len(present.get(NUMBER[member], ())) == 1, (where, member, raw)
                assert JSON_KEY[member] in d, (where, member, d)
            else:
                try:
                    getattr(m, member)
                except AttributeError:
                    pass
                else:
                    raise AssertionError((where, "readable unselected", member))
                assert NUMBER[member] not in present, (where, member, raw)
                assert JSON_KEY[member] not in d, (where, member, d)
    assert len(m) == len(raw), where
    again = Msg().parse(raw)
    back = Msg().from_dict(d)
    for other in (again, back):
        for group in GROUPS:
            n2, v2 = which_one_of(other, group)
            sel = model[group]
            if sel is None:
                assert (n2, v2) == ("", None), (where, group)
            else:
                assert n2 == sel[0] and plain_value(v2) == sel[1], (where, group, n2)


def empty_model():
    return {g: None for g in GROUPS}


def random_members(rng):
    out = []
    for group, members in GROUPS.items():
        if rng.random() < 0.5:
            member = rng.choice(members)
            out.append((member, pick(rng, member)))
    rng.shuffle(out)
    return out


def run_history(seed, steps=12):
    rng = random.Random(seed)
    log = []
    kw = {}
    model = empty_model()
    for member, value in random_members(rng):
        kw[member] = value
        model[GROUP_OF[member]] = (member, plain_value(value))
    if rng.random() < 0.3:
        kw["plain"] = rng.choice([0, 7])
    m = Msg(**kw)
    log.append(("construct", sorted(kw)))
    check(m, model, (seed, list(log)))
    for _ in range(steps):
        op = rng.choice(
            ["set", "set", "set_plain", "parse", "parse", "parse_fresh", "from_dict",
             "from_dict_cls", "copy", "deepcopy", "pickle", "read", "from_json"]
        )
        if op == "set":
            member = rng.choice(list(GROUP_OF))
            value = pick(rng, member)
            setattr(m, member, value)
            model[GROUP_OF[member]] = (member, plain_value(value))
            log.append((op, member, plain_value(value)))
        elif op == "set_plain":
            which = rng.choice(["plain", "name", "items", "child", "counts"])
            if which == "plain":
                m.plain = rng.choice([0, 3])
            elif which == "name":
                m.name = rng.choice(["", "k"])
            elif which == "items":
                m.items = rng.choice([[], [1, 2]])
            elif which == "counts":
                m.counts = rng.choice([{}, {"a": 1}])
            else:
                m.child = rng.choice([Sub(), Sub(x=1)])
            log.append((op, which))
        elif op in ("parse", "parse_fresh"):
            n = rng.randint(0, 5)
            chunks = []
            new = {}
            for _i in range(n):
                member = rng.choice(list(GROUP_OF))
                value = pick(rng, member)
                chunks.append(wire_of(member, value))
                new[GROUP_OF[member]] = (member, plain_value(value))
            for _i in range(rng.randint(0, 2)):
                extra = rng.choice(
                    [Msg(plain=5), Msg(items=[1, 2]), Msg(counts={"k": 2}),
                     Msg(subs=[Sub(), Sub(x=1)]), Msg(names=["", "n"]),
                     Msg(child=Sub(s="c")), Msg(by_id={0: Sub()})]
                )
                chunks.insert(rng.randint(0, len(chunks)), bytes(extra))
            data = b"".join(chunks)
            if op == "parse":
                m.parse(data)
                model.update(new)
            else:
                m = Msg.FromString(data) if rng.random() < 0.5 else Msg().parse(data)
                model = empty_model()
                model.update(new)
            log.append((op, data))
        elif op in ("from_dict", "from_json"):
            new = {}
            dct = {}
            for member, value in random_members(rng):
                key = JSON_KEY[member] if rng.random() < 0.5 else member
                dct[key] = json_of(member, value)
                new[GROUP_OF[member]] = (member, plain_value(value))
            if op == "from_dict":
                m.from_dict(dct)
            else:
                m.from_json(json.dumps(dct))
            model.update(new)
            log.append((op, dct))
        elif op == "from_dict_cls":
            new = {}
            dct = {}
            for member, value in random_members(rng):
                dct[JSON_KEY[member]] = json_of(member, value)
                new[GROUP_OF[member]] = (member, plain_value(value))
            m = Msg.from_dict(dct)
            model = empty_model()
            model.update(new)
            log.append((op, dct))
        elif op == "copy":
            m = copy.copy(m)
            log.append((op,))
        elif op == "deepcopy":
            m = copy.deepcopy(m)
            log.append((op,))
        elif op == "pickle":
            m = pickle.loads(pickle.dumps(m))
            log.append((op,))
        elif op == "read":
            for member in GROUP_OF:
                try:
                    getattr(m, member)
                except AttributeError:
                    pass
            m.plain, m.name, m.items, m.child, m.counts
            m.to_dict(), bytes(m), m.to_pydict()
            log.append((op,))
        check(m, model, (seed, list(log)))



# ---------------------------------------------------------------------------
# Part 1: the helpers against a reference
# ---------------------------------------------------------------------------
import itertools  # noqa: E402

from betterproto import (  # noqa: E402
    _len_single,
    _serialize_single,
    _wire_type_matches,
)

VARINT_T = ["enum", "bool", "int32", "int64", "uint32", "uint64", "sint32", "sint64"]
FIXED32_T = ["float", "fixed32", "sfixed32"]
FIXED64_T = ["double", "fixed64", "sfixed64"]
LEN_T = ["string", "bytes", "message", "map"]
ALL_T = VARINT_T + FIXED32_T + FIXED64_T + LEN_T
PACKABLE = VARINT_T + FIXED32_T + FIXED64_T
FIELD_NUMBERS = [1, 2, 15, 16, 127, 128, 2047, 2048, 2**21 - 1, 2**21, 2**29 - 1]


def ref_varint(n):
    if n < 0:
        n += 1 << 64
    out = bytearray()
    while True:
        b = n & 0x7F
        n >>= 7
        if n:
            out.append(b | 0x80)
        else:
            out.append(b)
            return bytes(out)


def ref_payload(proto_type, value, wraps):
    if proto_type in ("enum", "bool", "int32", "int64", "uint32", "uint64"):
        return ref_varint(int(value))
    if proto_type in ("sint32", "sint64"):
        return ref_varint((value << 1) ^ (value >> 63))
    fmt = {"float": "<f", "fixed32": "<I", "sfixed32": "<i", "double": "<d",
           "fixed64": "<Q", "sfixed64": "<q"}.get(proto_type)
    if fmt:
        return struct.pack(fmt, value)
    if proto_type == "string":
        return value.encode("utf-8")
    if proto_type == "message":
        if wraps:
            if value is None:
                return b""
            inner = ref_serialize(1, wraps, value, False, "")
            # the wrapper message holds the value in field 1 unless it is the default
            return inner if value not in (0, 0.0, "", b"", False) else b""
        return bytes(value)
    return bytes(value)


def ref_serialize(number, proto_type, value, serialize_empty, wraps):
    payload = ref_payload(proto_type, value, wraps)
    if proto_type in VARINT_T:
        return ref_varint(number << 3 | 0) + payload
    if proto_type in FIXED64_T:
        return ref_varint(number << 3 | 1) + payload
    if proto_type in FIXED32_T:
        return ref_varint(number << 3 | 5) + payload
    if not (payload or serialize_empty or wraps):
        return b""
    return ref_varint(number << 3 | 2) + ref_varint(len(payload)) + payload


SAMPLE_VALUES = {
    "enum": [0, 1, 2, -1, Color.ZERO, Color.NEG],
    "bool": [False, True],
    "int32": [0, 1, -1, 127, 128, 2**31 - 1, -(2**31)],
    "int64": [0, 1, -1, 2**63 - 1, -(2**63)],
    "uint32": [0, 1, 2**32 - 1],
    "uint64": [0, 1, 2**64 - 1],
    "sint32": [0, -1, 1, 2**31 - 1, -(2**31)],
    "sint64": [0, -1, 1, 2**63 - 1, -(2**63)],
    "float": [0.0, -0.0, 1.5, float("inf")],
    "fixed32": [0, 1, 2**32 - 1],
    "sfixed32": [0, -1, 2**31 - 1],
    "double": [0.0, -0.0, 1e300, float("-inf")],
    "fixed64": [0, 2**64 - 1],
    "sfixed64": [0, -(2**63)],
    "string": ["", "a", "héllo", "x" * 127, "x" * 128, "y" * 20000],
    "bytes": [b"", b"\x00", b"ab", bytearray(b""), bytearray(b"pq"), b"z" * 16384],
    "message": [Sub(), Sub(x=0), Sub(x=5), Sub(s="q" * 200), Empty(), Msg(a_int=0),
                Msg(a_str="", b_empty=Empty(), c_only=0, d_last="")],
    "map": [b"", b"\x0a\x01k\x10\x01"],
}


def helper_checks(digest):
    n = 0
    for proto_type in ALL_T:
        for number, value, serialize_empty in itertools.product(
            FIELD_NUMBERS, SAMPLE_VALUES[proto_type], (False, True)
        ):
            got = _serialize_single(number, proto_type, value, serialize_empty=serialize_empty)
            assert type(got) is bytes, (proto_type, type(got))
            want = ref_serialize(number, proto_type, value, serialize_empty, "")
            assert got == want, (number, proto_type, value, serialize_empty, got, want)
            size = _len_single(number, proto_type, value, serialize_empty=serialize_empty)
            assert type(size) is int and size == len(want), (number, proto_type, value, size)
            digest.update(got[:64] + len(got).to_bytes(4, "little"))
            n += 1
    # default keyword arguments
    assert _serialize_single(3, "string", "") == b""
    assert _len_single(3, "string", "") == 0
    assert _serialize_single(3, "string", "", serialize_empty=True) == b"\x1a\x00"
    assert _len_single(3, "string", "", serialize_empty=True) == 2
    assert _serialize_single(3, "message", Sub()) == b""
    assert _serialize_single(3, "message", Sub(), serialize_empty=True) == b"\x1a\x00"
    # wrapper types: always written, None is an empty wrapper
    wrappers = {
        "bool": [None, False, True], "int32": [None, 0, -1], "int64": [None, 0, 2**40],
        "uint32": [None, 0, 7], "uint64": [None, 0, 2**64 - 1], "float": [None, 0.0, 1.5],
        "double": [None, 0.0, -2.5], "string": [None, "", "s"], "bytes": [None, b"", b"b"],
    }
    for wraps, values in wrappers.items():
        for number, value, serialize_empty in itertools.product(
            (1, 16, 2048), values, (False, True)
        ):
            got = _serialize_single(
                number, "message", value, serialize_empty=serialize_empty, wraps=wraps
            )
            want = ref_serialize(number, "message", value, serialize_empty, wraps)
            assert type(got) is bytes and got == want, (wraps, number, value, got, want)
            assert _len_single(
                number, "message", value, serialize_empty=serialize_empty, wraps=wraps
            ) == len(want)
            digest.update(got)
            n += 1
    # proto types nobody knows: the value is preprocessed first, then rejected
    for bad in ("group", "", "Int32", "MESSAGE", "any"):
        for fn in (_serialize_single, _len_single):
            try:
                fn(1, bad, b"ab")
            except NotImplementedError as exc:
                assert exc.args == (bad,), exc.args
            else:
                raise AssertionError((fn, bad))
        # a value without a length fails before the type is looked at in _len_single
        try:
            _len_single(1, bad, 5)
        except TypeError:
            pass
        else:
            raise AssertionError(bad)
        try:
            _serialize_single(1, bad, 5)
        except NotImplementedError:
            pass
        else:
            raise AssertionError(bad)
    # errors of the value itself are unchanged
    for proto_type, value, exc_type in (
        ("int64", -(2**63) - 1, ValueError),
        ("fixed32", -1, struct.error),
        ("string", b"raw", AttributeError),
    ):
        for fn in (_serialize_single, _len_single):
            try:
                fn(1, proto_type, value)
            except exc_type:
                pass
            else:
                raise AssertionError((fn, proto_type, value))

    # _wire_type_matches: the full truth table
    want_wire = {**dict.fromkeys(VARINT_T, 0), **dict.fromkeys(FIXED64_T, 1),
                 **dict.fromkeys(LEN_T, 2), **dict.fromkeys(FIXED32_T, 5)}
    for proto_type in ALL_T + ["group", "", "nonsense"]:
        for wire_type in range(-1, 9):
            for repeated in (False, True):
                want = want_wire.get(proto_type, None) == wire_type or (
                    wire_type == 2 and repeated and proto_type in PACKABLE
                )
                got = _wire_type_matches(wire_type, proto_type, repeated)
                assert got is want, (wire_type, proto_type, repeated, got)
                digest.update(b"\x01" if got else b"\x00")
                n += 1
    return n


# ---------------------------------------------------------------------------
# Part 2: whole messages against google.protobuf
# ---------------------------------------------------------------------------


@dataclass(eq=False, repr=False)
class Kinds(betterproto.Message):
    """Every scalar kind as a member of one big oneof, at boundary field numbers."""

    k_int32: int = betterproto.int32_field(1, group="k")
    k_int64: int = betterproto.int64_field(2, group="k")
    k_uint32: int = betterproto.uint32_field(3, group="k")
    k_uint64: int = betterproto.uint64_field(15, group="k")
    k_sint32: int = betterproto.sint32_field(16, group="k")
    k_sint64: int = betterproto.sint64_field(17, group="k")
    k_bool: bool = betterproto.bool_field(127, group="k")
    k_enum: Color = betterproto.enum_field(128, group="k")
    k_fixed32: int = betterproto.fixed32_field(2047, group="k")
    k_sfixed32: int = betterproto.sfixed32_field(2048, group="k")
    k_float: float = betterproto.float_field(2049, group="k")
    k_fixed64: int = betterproto.fixed64_field(70000, group="k")
    k_sfixed64: int = betterproto.sfixed64_field(70001, group="k")
    k_double: float = betterproto.double_field(2097151, group="k")
    k_string: str = betterproto.string_field(2097152, group="k")
    k_bytes: bytes = betterproto.bytes_field(536870911, group="k")
    k_sub: Sub = betterproto.message_field(536870910, group="k")
    k_empty: Empty = betterproto.message_field(4, group="k")
    plain: int = betterproto.int32_field(5)
    other_a: str = betterproto.string_field(6, group="o")
    other_b: int = betterproto.sfixed32_field(7, group="o")
    rep: List[int] = betterproto.sint32_field(8)
    strs: List[str] = betterproto.string_field(9)
    emp: List[Empty] = betterproto.message_field(10)
    mp: Dict[int, str] = betterproto.map_field(
        11, betterproto.TYPE_INT32, betterproto.TYPE_STRING
    )


def build_kinds_gpb():
    from google.protobuf import descriptor_pb2, descriptor_pool, message_factory

    F = descriptor_pb2.FieldDescriptorProto
    fdp = descriptor_pb2.FileDescriptorProto(
        name="c07_keep2.proto", package="c07k2", syntax="proto3"
    )
    en = fdp.enum_type.add(name="Color")
    for n, v in (("ZERO", 0), ("RED", 1), ("BLUE", 2), ("NEG", -1)):
        en.value.add(name=n, number=v)
    sub = fdp.message_type.add(name="Sub")
    sub.field.add(name="x", number=1, type=F.TYPE_INT32, label=F.LABEL_OPTIONAL)
    sub.field.add(name="s", number=2, type=F.TYPE_STRING, label=F.LABEL_OPTIONAL)
    fdp.message_type.add(name="Empty")
    msg = fdp.message_type.add(name="Kinds")
    msg.oneof_decl.add(name="k")
    msg.oneof_decl.add(name="o")
    types = {
        "int32": F.TYPE_INT32, "int64": F.TYPE_INT64, "uint32": F.TYPE_UINT32,
        "uint64": F.TYPE_UINT64, "sint32": F.TYPE_SINT32, "sint64": F.TYPE_SINT64,
        "bool": F.TYPE_BOOL, "enum": F.TYPE_ENUM, "fixed32": F.TYPE_FIXED32,
        "sfixed32": F.TYPE_SFIXED32, "float": F.TYPE_FLOAT, "fixed64": F.TYPE_FIXED64,
        "sfixed64": F.TYPE_SFIXED64, "double": F.TYPE_DOUBLE, "string": F.TYPE_STRING,
        "bytes": F.TYPE_BYTES, "message": F.TYPE_MESSAGE,
    }
    bmeta = Kinds._betterproto.meta_by_field_name
    for name, meta in bmeta.items():
        if name in ("rep", "strs", "emp", "mp"):
            continue
        fld = msg.field.add(
            name=name, number=meta.number, type=types[meta.proto_type],
            label=F.LABEL_OPTIONAL,
        )
        if meta.group:
            fld.oneof_index = 0 if meta.group == "k" else 1
        if name == "k_enum":
            fld.type_name = ".c07k2.Color"
        elif name == "k_sub":
            fld.type_name = ".c07k2.Sub"
        elif name == "k_empty":
            fld.type_name = ".c07k2.Empty"
    msg.field.add(name="rep", number=8, type=F.TYPE_SINT32, label=F.LABEL_REPEATED)
    msg.field.add(name="strs", number=9, type=F.TYPE_STRING, label=F.LABEL_REPEATED)
    msg.field.add(name="emp", number=10, type=F.TYPE_MESSAGE, label=F.LABEL_REPEATED,
                  type_name=".c07k2.Empty")
    entry = msg.nested_type.add(name="MpEntry")
    entry.options.map_entry = True
    entry.field.add(name="key", number=1, type=F.TYPE_INT32, label=F.LABEL_OPTIONAL)
    entry.field.add(name="value", number=2, type=F.TYPE_STRING, label=F.LABEL_OPTIONAL)
    msg.field.add(name="mp", number=11, type=F.TYPE_MESSAGE, label=F.LABEL_REPEATED,
                  type_name=".c07k2.Kinds.MpEntry")
    pool = descriptor_pool.DescriptorPool()
    pool.Add(fdp)
    return message_factory.GetMessageClass(pool.FindMessageTypeByName("c07k2.Kinds"))


KIND_VALUES = {
    "k_int32": SAMPLE_VALUES["int32"], "k_int64": SAMPLE_VALUES["int64"],
    "k_uint32": SAMPLE_VALUES["uint32"], "k_uint64": SAMPLE_VALUES["uint64"],
    "k_sint32": SAMPLE_VALUES["sint32"], "k_sint64": SAMPLE_VALUES["sint64"],
    "k_bool": [False, True], "k_enum": [Color.ZERO, Color.RED, Color.NEG],
    "k_fixed32": SAMPLE_VALUES["fixed32"], "k_sfixed32": SAMPLE_VALUES["sfixed32"],
    "k_float": [0.0, 1.5, -2.25], "k_fixed64": SAMPLE_VALUES["fixed64"],
    "k_sfixed64": SAMPLE_VALUES["sfixed64"], "k_double": [0.0, 1e300, -0.5],
    "k_string": ["", "a", "héllo", "x" * 300], "k_bytes": [b"", b"\x00", b"z" * 200],
    "k_sub": [Sub(), Sub(x=0), Sub(x=5, s="q")], "k_empty": [Empty()],
}


def to_gpb(G, member, value):
    g = G()
    if member == "k_sub":
        g.k_sub.SetInParent()
        g.k_sub.x = value.x
        g.k_sub.s = value.s
    elif member == "k_empty":
        g.k_empty.SetInParent()
    else:
        setattr(g, member, int(value) if member == "k_enum" else value)
    return g


def message_checks(digest):
    G = build_kinds_gpb()
    n = 0
    for member, values in KIND_VALUES.items():
        for value in values:
            for how in ("ctor", "set", "displace"):
                if how == "ctor":
                    m = Kinds(**{member: value})
                elif how == "set":
                    m = Kinds()
                    setattr(m, member, value)
                else:
                    m = Kinds(k_string="gone", other_b=0)
                    setattr(m, member, value)
                g = to_gpb(G, member, value)
                if how == "displace":
                    g.other_b = 0
                raw = bytes(m)
                # betterproto writes in declaration order, google.protobuf by number
                by_number = b"".join(
                    f.raw for f in sorted(parse_fields(raw), key=lambda f: f.number)
                )
                assert by_number == g.SerializeToString(deterministic=True), (member, value, how, raw)
                assert len(m) == len(raw) == g.ByteSize(), (member, value, how)
                assert which_one_of(m, "k")[0] == member == g.WhichOneof("k")
                numbers = [f.number for f in parse_fields(raw)]
                want_numbers = [Kinds._betterproto.meta_by_field_name[member].number]
                if how == "displace":
                    want_numbers.append(7)
                assert numbers == want_numbers, (member, how, numbers)
                back = Kinds().parse(raw)
                assert which_one_of(back, "k")[0] == member
                g2 = G()
                g2.ParseFromString(raw)
                assert g2.WhichOneof("k") == member
                digest.update(raw[:80])
                n += 1
    # repeated / map / delimited output next to a selected default member
    m = Kinds(k_bytes=b"", other_a="", rep=[0, -1, 5], strs=["", "s"], emp=[Empty(), Empty()],
              mp={1: "w", 3: "v"})
    g = G(k_bytes=b"", other_a="", rep=[0, -1, 5], strs=["", "s"])
    g.emp.add()
    g.emp.add()
    g.mp[1] = "w"
    g.mp[3] = "v"
    raw = bytes(m)
    assert len(raw) == len(m) == g.ByteSize()
    g2 = G()
    g2.ParseFromString(raw)
    assert g2 == g
    assert g2.WhichOneof("k") == "k_bytes" and g2.WhichOneof("o") == "other_a"
    stream = io.BytesIO()
    m.dump(stream, betterproto.SIZE_DELIMITED)
    assert stream.getvalue() == varint(len(raw)) + raw
    digest.update(raw)
    return n + 1


def varint(n):
    return ref_varint(n)


EXPECTED_DIGEST = "29dce28c37b3a5cd8eda78d2b5bd44e3c2e719ba7328c1c5d79eb710c1268dc9"

if __name__ == "__main__":
    digest = hashlib.sha256()
    n1 = helper_checks(digest)
    n2 = message_checks(digest)
    assert n1 > 2000 and n2 > 150, (n1, n2)
    for seed in range(400):
        run_history(seed)
    got = digest.hexdigest()
    assert got == EXPECTED_DIGEST, got
    print("equiv ok")
