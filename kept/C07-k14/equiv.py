"""Equivalence check for the field declaration helpers (betterproto.*_field), the
metadata / sentinel defaults they attach, the per-field default generators
(Message._get_field_default_gen) and the oneof behaviour of classes declared
through them.  Plain asserts; exits 0 on the reference tree and on the refactored tree."""
import copy
import dataclasses
import inspect
import pickle
import random
import sys
from dataclasses import dataclass
from datetime import datetime, timedelta, timezone
from typing import Dict, List, Optional, Union

import betterproto
from betterproto import PLACEHOLDER, FieldMetadata, which_one_of

from google.protobuf import (
    descriptor_pb2,
    descriptor_pool,
    duration_pb2,
    message_factory,
    timestamp_pb2,
    wrappers_pb2,
)

rnd = random.Random(77001)

# ------------------------------------------------------------ declaration helpers

HELPERS = {
    "enum_field": betterproto.TYPE_ENUM,
    "bool_field": betterproto.TYPE_BOOL,
    "int32_field": betterproto.TYPE_INT32,
    "int64_field": betterproto.TYPE_INT64,
    "uint32_field": betterproto.TYPE_UINT32,
    "uint64_field": betterproto.TYPE_UINT64,
    "sint32_field": betterproto.TYPE_SINT32,
    "sint64_field": betterproto.TYPE_SINT64,
    "float_field": betterproto.TYPE_FLOAT,
    "double_field": betterproto.TYPE_DOUBLE,
    "fixed32_field": betterproto.TYPE_FIXED32,
    "fixed64_field": betterproto.TYPE_FIXED64,
    "sfixed32_field": betterproto.TYPE_SFIXED32,
    "sfixed64_field": betterproto.TYPE_SFIXED64,
    "string_field": betterproto.TYPE_STRING,
    "bytes_field": betterproto.TYPE_BYTES,
}
assert len(set(HELPERS.values())) == 16


def expect(field, number, proto_type, group=None, optional=False, wraps=None, map_types=None):
    assert isinstance(field, dataclasses.Field)
    assert field.default is (None if optional else PLACEHOLDER), field.default
    assert field.default_factory is dataclasses.MISSING
    assert set(field.metadata) == {"betterproto"}
    meta = field.metadata["betterproto"]
    assert type(meta) is FieldMetadata
    assert meta == FieldMetadata(number, proto_type, map_types, group, wraps, optional), meta
    assert FieldMetadata.get(field) is meta
    assert meta.number == number and meta.proto_type == proto_type
    assert meta.group == group and meta.optional == optional
    assert meta.wraps == wraps and meta.map_types == map_types
    assert field.init and field.repr and field.compare


for name, proto_type in HELPERS.items():
    fn = getattr(betterproto, name)
    assert callable(fn) and inspect.isfunction(fn)
    assert fn.__name__ == name and fn.__qualname__ == name and fn.__module__ == "betterproto"
    assert pickle.loads(pickle.dumps(fn)) is fn
    sig = inspect.signature(fn)
    assert list(sig.parameters) == ["number", "group", "optional"], sig
    assert sig.parameters["number"].default is inspect.Parameter.empty
    assert sig.parameters["group"].default is None
    assert sig.parameters["optional"].default is False
    assert all(p.kind is inspect.Parameter.POSITIONAL_OR_KEYWORD for p in sig.parameters.values())
    for number in (1, 2, 15, 16, 2047, 2048, 536870911):
        expect(fn(number), number, proto_type)
        expect(fn(number=number), number, proto_type)
        expect(fn(number, "grp"), number, proto_type, group="grp")
        expect(fn(number, group="grp"), number, proto_type, group="grp")
        expect(fn(number, None, True), number, proto_type, optional=True)
        expect(fn(number, optional=True), number, proto_type, optional=True)
        expect(fn(number, "_x", True), number, proto_type, group="_x", optional=True)
        expect(fn(number, optional=True, group="g"), number, proto_type, group="g", optional=True)
        expect(fn(optional=False, group="", number=number), number, proto_type, group="")
    # two calls give independent Field objects
    assert fn(1) is not fn(1)
    for bad in (
        lambda: fn(),
        lambda: fn(1, "g", False, None),
        lambda: fn(1, wraps=betterproto.TYPE_STRING),
        lambda: fn(1, proto_type="x"),
        lambda: fn(1, group="g", grp="h"),
    ):
        try:
            bad()
        except TypeError:
            pass
        else:
            raise AssertionError(name)

expect(betterproto.message_field(3), 3, betterproto.TYPE_MESSAGE)
expect(betterproto.message_field(3, "g"), 3, betterproto.TYPE_MESSAGE, group="g")
expect(
    betterproto.message_field(3, "g", betterproto.TYPE_STRING, True),
    3,
    betterproto.TYPE_MESSAGE,
    group="g",
    wraps=betterproto.TYPE_STRING,
    optional=True,
)
expect(
    betterproto.map_field(4, betterproto.TYPE_STRING, betterproto.TYPE_INT32),
    4,
    betterproto.TYPE_MAP,
    map_types=(betterproto.TYPE_STRING, betterproto.TYPE_INT32),
)
expect(betterproto.dataclass_field(9, betterproto.TYPE_SINT32, group="q"), 9, betterproto.TYPE_SINT32, group="q")

# ---------------------------------------------------------------- default generators


class Shade(betterproto.Enum):
    UNSET = 0
    DARK = 1


@dataclass(eq=False, repr=False)
class Leaf(betterproto.Message):
    n: int = betterproto.int32_field(1)


@dataclass(eq=False, repr=False)
class Kinds(betterproto.Message):
    i: int = betterproto.int32_field(1)
    f: float = betterproto.double_field(2)
    s: str = betterproto.string_field(3)
    b: bytes = betterproto.bytes_field(4)
    o: bool = betterproto.bool_field(5)
    e: Shade = betterproto.enum_field(6)
    m: Leaf = betterproto.message_field(7)
    fwd: "Leaf" = betterproto.message_field(8)
    ts: datetime = betterproto.message_field(9)
    du: timedelta = betterproto.message_field(10)
    oi: Optional[int] = betterproto.int32_field(11, optional=True, group="_oi")
    om: Optional[Leaf] = betterproto.message_field(12, optional=True, group="_om")
    oe: Optional[Shade] = betterproto.enum_field(13, optional=True, group="_oe")
    wv: Optional[str] = betterproto.message_field(14, wraps=betterproto.TYPE_STRING)
    un: Union[int, None] = betterproto.int64_field(15, optional=True, group="_un")
    li: List[int] = betterproto.int32_field(16)
    lm: List[Leaf] = betterproto.message_field(17)
    le: List[Shade] = betterproto.enum_field(18)
    ls: List[str] = betterproto.string_field(19)
    mp: Dict[str, int] = betterproto.map_field(20, betterproto.TYPE_STRING, betterproto.TYPE_INT32)
    mm: Dict[int, Leaf] = betterproto.map_field(21, betterproto.TYPE_INT64, betterproto.TYPE_MESSAGE)
    ga: int = betterproto.sint32_field(22, group="g")
    gb: Shade = betterproto.enum_field(23, group="g")
    gc: Leaf = betterproto.message_field(24, group="g")
    gd: datetime = betterproto.message_field(25, group="g")
    ge: List[int] = betterproto.int32_field(26)


if sys.version_info >= (3, 10):
    ns = {}
    exec(
        "from dataclasses import dataclass\n"
        "import betterproto\n"
        "@dataclass(eq=False, repr=False)\n"
        "class Pipe(betterproto.Message):\n"
        "    a: int | None = betterproto.int32_field(1, optional=True, group='_a')\n"
        "    b: list[int] = betterproto.int32_field(2)\n"
        "    c: dict[str, int] = betterproto.map_field(3, betterproto.TYPE_STRING, betterproto.TYPE_INT32)\n"
        "    d: 'str | None' = betterproto.string_field(4, optional=True, group='_d')\n",
        ns,
    )
    Pipe = ns["Pipe"]
    Pipe.__module__ = __name__
    globals()["Pipe"] = Pipe
    gens = Pipe._betterproto.default_gen
    assert gens["a"] is type(None) and gens["d"] is type(None)
    assert gens["b"] is list and gens["c"] is dict
    p = Pipe()
    assert p.b == [] and p.c == {} and which_one_of(p, '_a') == ('', None)
    assert bytes(Pipe(a=0, b=[1], c={"k": 2}, d="")) == b"\x08\x00\x12\x01\x01\x1a\x05\x0a\x01k\x10\x02\x22\x00"

DT0 = datetime(1970, 1, 1, tzinfo=timezone.utc)
gens = Kinds._betterproto.default_gen
assert list(gens) == [f.name for f in dataclasses.fields(Kinds)]
EXPECTED_GEN = {
    "i": int, "f": float, "s": str, "b": bytes, "o": bool,
    "m": Leaf, "fwd": Leaf, "du": timedelta, "gc": Leaf, "ga": int,
    "oi": type(None), "om": type(None), "oe": type(None), "wv": type(None), "un": type(None),
    "li": list, "lm": list, "le": list, "ls": list, "ge": list,
    "mp": dict, "mm": dict,
    "ts": betterproto.datetime_default_gen, "gd": betterproto.datetime_default_gen,
}
for name, gen in EXPECTED_GEN.items():
    assert gens[name] is gen, (name, gens[name])
    assert Kinds._get_field_default_gen(Kinds.__dataclass_fields__[name]) is gen
for name in ("e", "gb"):
    assert gens[name] == Shade.try_value and gens[name].__self__ is Shade
    assert gens[name]() is Shade.UNSET
EXPECTED_DEFAULT = {
    "i": 0, "f": 0.0, "s": "", "b": b"", "o": False, "e": Shade.UNSET, "m": Leaf(), "fwd": Leaf(),
    "ts": DT0, "du": timedelta(0), "oi": None, "om": None, "oe": None, "wv": None, "un": None,
    "li": [], "lm": [], "le": [], "ls": [], "mp": {}, "mm": {}, "ga": 0, "gb": Shade.UNSET,
    "gc": Leaf(), "gd": DT0, "ge": [],
}
k = Kinds()
for name, default in EXPECTED_DEFAULT.items():
    got = k._get_field_default(name)
    assert got == default and type(got) is type(default), (name, got)
    if isinstance(default, (list, dict, betterproto.Message)):
        assert k._get_field_default(name) is not got  # a fresh object every time
    if Kinds._betterproto.meta_by_field_name[name].group is None:
        assert getattr(k, name) == default
assert Kinds._betterproto.oneof_group_by_field == {
    "oi": "_oi", "om": "_om", "oe": "_oe", "un": "_un", "ga": "g", "gb": "g", "gc": "g", "gd": "g",
}
assert {g: {f.name for f in fs} for g, fs in Kinds._betterproto.oneof_field_by_group.items()} == {
    "_oi": {"oi"}, "_om": {"om"}, "_oe": {"oe"}, "_un": {"un"}, "g": {"ga", "gb", "gc", "gd"},
}
assert bytes(k) == b"" and k.to_dict() == {}
# decoding seeds an unselected member with its default before assigning it
for data, sel in ((b"\xb0\x01\x00", ("ga", 0)), (b"\xb8\x01\x00", ("gb", Shade.UNSET)),
                  (b"\xc2\x01\x00", ("gc", Leaf())), (b"\xca\x01\x00", ("gd", DT0))):
    d = Kinds().parse(b"\xb0\x01\x03" + data)
    assert which_one_of(d, "g") == sel, (data, which_one_of(d, "g"))
    assert bytes(d) == data
    assert list(d.to_dict()) == [sel[0]]


class Colour(betterproto.Enum):
    NONE = 0
    RED = 1
    NEG = -1
    BIG = 2147483647


@dataclass(eq=False, repr=False)
class Sub(betterproto.Message):
    val: int = betterproto.int32_field(1)
    name: str = betterproto.string_field(2)


# positional group argument, as some callers write it
@dataclass(eq=False, repr=False)
class Positional(betterproto.Message):
    string: str = betterproto.string_field(1, "group")
    integer: int = betterproto.int32_field(2, "group")
    flag: bool = betterproto.bool_field(3, "group", False)


pm = Positional().from_dict({"string": ""})
assert which_one_of(pm, "group") == ("string", "") and bytes(pm) == b"\x0a\x00" and len(pm) == 2
pm.flag = False
assert which_one_of(pm, "group") == ("flag", False) and bytes(pm) == b"\x18\x00"
assert pm.to_dict() == {"flag": False}
try:
    pm.string
except AttributeError:
    pass
else:
    raise AssertionError

# ------------------------------------------- oneof members on the wire vs. protobuf

fdp = descriptor_pb2.FileDescriptorProto()
fdp.name = "c07_keep2_equiv.proto"
fdp.package = "c07k2"
fdp.syntax = "proto3"
fdp.dependency.extend(
    [
        "google/protobuf/timestamp.proto",
        "google/protobuf/duration.proto",
        "google/protobuf/wrappers.proto",
    ]
)
en = fdp.enum_type.add()
en.name = "Colour"
for n, v in (("NONE", 0), ("RED", 1), ("NEG", -1), ("BIG", 2147483647)):
    ev = en.value.add()
    ev.name, ev.number = n, v
sm = fdp.message_type.add()
sm.name = "Sub"
f = sm.field.add()
f.name, f.number, f.type, f.label = "val", 1, f.TYPE_INT32, f.LABEL_OPTIONAL
f = sm.field.add()
f.name, f.number, f.type, f.label = "name", 2, f.TYPE_STRING, f.LABEL_OPTIONAL
mm = fdp.message_type.add()
mm.name = "Msg"
mm.oneof_decl.add().name = "g"
mm.oneof_decl.add().name = "h"
T = descriptor_pb2.FieldDescriptorProto
SPEC = [
    # name, number, pb type, type_name, oneof index
    ("i32", 1, T.TYPE_INT32, None, 0),
    ("i64", 2, T.TYPE_INT64, None, 0),
    ("u32", 3, T.TYPE_UINT32, None, 0),
    ("u64", 4, T.TYPE_UINT64, None, 0),
    ("s32", 5, T.TYPE_SINT32, None, 0),
    ("s64", 6, T.TYPE_SINT64, None, 0),
    ("bo", 7, T.TYPE_BOOL, None, 0),
    ("en", 8, T.TYPE_ENUM, ".c07k2.Colour", 0),
    ("f32", 9, T.TYPE_FIXED32, None, 0),
    ("f64", 10, T.TYPE_FIXED64, None, 0),
    ("sf32", 11, T.TYPE_SFIXED32, None, 0),
    ("sf64", 12, T.TYPE_SFIXED64, None, 0),
    ("fl", 13, T.TYPE_FLOAT, None, 0),
    ("db", 14, T.TYPE_DOUBLE, None, 0),
    ("st", 15, T.TYPE_STRING, None, 0),
    ("by", 16, T.TYPE_BYTES, None, 0),
    ("sub", 17, T.TYPE_MESSAGE, ".c07k2.Sub", 0),
    ("ts", 18, T.TYPE_MESSAGE, ".google.protobuf.Timestamp", 0),
    ("du", 19, T.TYPE_MESSAGE, ".google.protobuf.Duration", 0),
    ("wv", 20, T.TYPE_MESSAGE, ".google.protobuf.StringValue", 0),
    ("x", 30, T.TYPE_INT32, None, None),
    ("hs", 31, T.TYPE_STRING, None, 1),
    ("hsub", 32, T.TYPE_MESSAGE, ".c07k2.Sub", 1),
    ("hz", 33, T.TYPE_SINT64, None, 1),
]
for name, number, typ, type_name, oneof in SPEC:
    f = mm.field.add()
    f.name, f.number, f.type, f.label = name, number, typ, T.LABEL_OPTIONAL
    if type_name:
        f.type_name = type_name
    if oneof is not None:
        f.oneof_index = oneof
pool = descriptor_pool.Default()
pool.Add(fdp) if hasattr(pool, "Add") else pool.AddSerializedFile(fdp.SerializeToString())
PbMsg = message_factory.GetMessageClass(pool.FindMessageTypeByName("c07k2.Msg"))
PbSub = message_factory.GetMessageClass(pool.FindMessageTypeByName("c07k2.Sub"))


@dataclass(eq=False, repr=False)
class Msg(betterproto.Message):
    i32: int = betterproto.int32_field(1, group="g")
    i64: int = betterproto.int64_field(2, group="g")
    u32: int = betterproto.uint32_field(3, group="g")
    u64: int = betterproto.uint64_field(4, group="g")
    s32: int = betterproto.sint32_field(5, group="g")
    s64: int = betterproto.sint64_field(6, group="g")
    bo: bool = betterproto.bool_field(7, group="g")
    en: Colour = betterproto.enum_field(8, group="g")
    f32: int = betterproto.fixed32_field(9, group="g")
    f64: int = betterproto.fixed64_field(10, group="g")
    sf32: int = betterproto.sfixed32_field(11, group="g")
    sf64: int = betterproto.sfixed64_field(12, group="g")
    fl: float = betterproto.float_field(13, group="g")
    db: float = betterproto.double_field(14, group="g")
    st: str = betterproto.string_field(15, group="g")
    by: bytes = betterproto.bytes_field(16, group="g")
    sub: Sub = betterproto.message_field(17, group="g")
    ts: datetime = betterproto.message_field(18, group="g")
    du: timedelta = betterproto.message_field(19, group="g")
    wv: Optional[str] = betterproto.message_field(20, wraps=betterproto.TYPE_STRING, group="g")
    x: int = betterproto.int32_field(30)
    hs: str = betterproto.string_field(31, group="h")
    hsub: Sub = betterproto.message_field(32, group="h")
    hz: int = betterproto.sint64_field(33, group="h")


GROUP = {name: ("g", "h")[oneof] for name, _, _, _, oneof in SPEC if oneof is not None}
NUMBER = {name: number for name, number, *_ in SPEC}
DT0 = datetime(1970, 1, 1, tzinfo=timezone.utc)
CANDIDATES = {
    "i32": [0, 1, -1, 2**31 - 1, -(2**31), 300],
    "i64": [0, 1, -1, 2**63 - 1, -(2**63)],
    "u32": [0, 1, 2**32 - 1, 128],
    "u64": [0, 1, 2**64 - 1, 2**63],
    "s32": [0, 1, -1, 2**31 - 1, -(2**31), -64, 64],
    "s64": [0, 1, -1, 2**63 - 1, -(2**63)],
    "bo": [False, True],
    "en": [Colour.NONE, Colour.RED, Colour.NEG, Colour.BIG, Colour.try_value(77)],
    "f32": [0, 1, 2**32 - 1],
    "f64": [0, 1, 2**64 - 1],
    "sf32": [0, 1, -1, -(2**31), 2**31 - 1],
    "sf64": [0, 1, -1, -(2**63), 2**63 - 1],
    "fl": [0.0, 1.5, -2.25, float("inf")],
    "db": [0.0, 1.5, -1e300, float("-inf"), 5e-324],
    "st": ["", "a", "é€", "x" * 200],
    "by": [b"", b"\x00", bytes(range(256))],
    "sub": [lambda: Sub(), lambda: Sub(val=0), lambda: Sub(val=-7, name="n")],
    "ts": [DT0, datetime(2021, 3, 4, 5, 6, 7, 890000, tzinfo=timezone.utc), datetime(1960, 1, 1, tzinfo=timezone.utc)],
    "du": [timedelta(0), timedelta(seconds=5, microseconds=7), timedelta(days=-2, microseconds=1)],
    "wv": ["", "wrapped"],
    "hs": ["", "h"],
    "hsub": [lambda: Sub(), lambda: Sub(name="q")],
    "hz": [0, -1, 2**40],
}


def fresh(v):
    return v() if callable(v) else v


def to_pb(state, x):
    """state: group -> (member, value) / None"""
    pb = PbMsg()
    for sel in state.values():
        if sel is None:
            continue
        name, value = sel
        if isinstance(value, Sub):
            getattr(pb, name).CopyFrom(PbSub(val=value.val, name=value.name))
            getattr(pb, name).SetInParent()
        elif isinstance(value, datetime):
            getattr(pb, name).FromDatetime(value)
            getattr(pb, name).SetInParent()
        elif isinstance(value, timedelta):
            getattr(pb, name).FromTimedelta(value)
            getattr(pb, name).SetInParent()
        elif name == "wv":
            getattr(pb, name).value = value
            getattr(pb, name).SetInParent()
        else:
            setattr(pb, name, int(value) if name == "en" else value)
    if x:
        pb.x = x
    return pb


def verify(m, state, x, where):
    pb = to_pb(state, x)
    wire = pb.SerializeToString(deterministic=True)
    assert bytes(m) == wire, (where, bytes(m), wire)
    assert len(m) == len(wire), (where, len(m), len(wire))
    for group, sel in state.items():
        name, value = which_one_of(m, group)
        if sel is None:
            assert (name, value) == ("", None), (where, group, name)
            assert pb.WhichOneof(group) is None
        else:
            assert name == sel[0] == pb.WhichOneof(group), (where, group, name, sel[0])
            assert value == sel[1], (where, group, value, sel[1])
    on_wire = [f.number for f in betterproto.parse_fields(bytes(m))]
    expected = sorted([NUMBER[s[0]] for s in state.values() if s] + ([30] if x else []))
    assert on_wire == expected, (where, on_wire, expected)
    for name, group in GROUP.items():
        sel = state[group]
        if sel is not None and sel[0] != name:
            try:
                getattr(m, name)
            except AttributeError:
                pass
            else:
                raise AssertionError((where, name))
    # and back through the decoder
    again = Msg().parse(wire)
    assert bytes(again) == wire, where
    for group, sel in state.items():
        assert which_one_of(again, group)[0] == (sel[0] if sel else ""), (where, group)


# every member, every candidate value, alone and over a previously selected sibling
for name, cands in CANDIDATES.items():
    group = GROUP[name]
    for cand in cands:
        value = fresh(cand)
        state = {"g": None, "h": None}
        state[group] = (name, value)
        verify(Msg(**{name: value}), state, 0, f"ctor {name}")
        m = Msg()
        setattr(m, name, value)
        verify(m, state, 0, f"setattr {name}")
        m = Msg(i32=5, hz=-3)
        other = {"g": ("i32", 5), "h": ("hz", -3)}
        setattr(m, name, value)
        other[group] = (name, value)
        verify(m, other, 0, f"setattr {name} over sibling")

# random histories
members = list(CANDIDATES)
for run in range(150):
    m = Msg()
    state = {"g": None, "h": None}
    x = 0
    for step in range(25):
        op = rnd.choice(["set", "set", "set", "setx", "copy", "deepcopy", "pickle", "parse", "from_dict", "ctor"])
        if op == "set":
            name = rnd.choice(members)
            value = fresh(rnd.choice(CANDIDATES[name]))
            setattr(m, name, value)
            state[GROUP[name]] = (name, value)
        elif op == "setx":
            x = rnd.choice([0, 1, -1, 2**31 - 1])
            m.x = x
        elif op == "copy":
            m = copy.copy(m)
        elif op == "deepcopy":
            m = copy.deepcopy(m)
        elif op == "pickle":
            m = pickle.loads(pickle.dumps(m))
        elif op == "parse":
            # decode another message's encoding into this one: its members arrive last
            name = rnd.choice(members)
            value = fresh(rnd.choice(CANDIDATES[name]))
            m.parse(bytes(Msg(**{name: value})))
            state[GROUP[name]] = (name, value)
        elif op == "from_dict":
            name = rnd.choice(["i32", "s64", "bo", "st", "sub", "hs", "hz", "en", "db", "by"])
            value = fresh(rnd.choice(CANDIDATES[name]))
            if name == "en" and value.name is None:
                value = Colour.RED
            if name == "db" and value != value:
                value = 1.5
            m.from_dict(Msg(**{name: value}).to_dict())
            state[GROUP[name]] = (name, value)
        elif op == "ctor":
            kwargs = {}
            state = {"g": None, "h": None}
            for group in ("g", "h"):
                if rnd.random() < 0.7:
                    name = rnd.choice([n for n in members if GROUP[n] == group])
                    value = fresh(rnd.choice(CANDIDATES[name]))
                    kwargs[name] = value
                    state[group] = (name, value)
            x = rnd.choice([0, 9])
            if x:
                kwargs["x"] = x
            m = Msg(**kwargs)
        verify(m, state, x, f"run {run} step {step} {op}")

print("ok")
