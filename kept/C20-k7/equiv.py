"""Equivalence check for Message.to_dict, map branch (enum / message / scalar /
datetime / timedelta map values).  Expectations are computed by an independent
oracle in this file and, for enum maps, compared with google.protobuf as well.
"""
import base64
import json
import random
from dataclasses import dataclass
from datetime import datetime, timedelta, timezone
from typing import Dict

import betterproto
from betterproto import Casing

INT32_MIN, INT32_MAX = -(2**31), 2**31 - 1


class Colour(betterproto.Enum):
    NONE = 0
    RED = 1
    CRIMSON = 1  # alias
    GREEN = 2
    DEEP = -7
    LOW = INT32_MIN
    HIGH = INT32_MAX


class NoZero(betterproto.Enum):
    A = 5
    B = -5
    A_TOO = 5


COLOUR_NAMES = {0: "NONE", 1: "RED", 2: "GREEN", -7: "DEEP", INT32_MIN: "LOW", INT32_MAX: "HIGH"}
NOZERO_NAMES = {5: "A", -5: "B"}


def oracle(names, number):
    return names.get(number, number)


@dataclass(eq=False, repr=False)
class Inner(betterproto.Message):
    inner_colour: Colour = betterproto.enum_field(1)
    inner_number: int = betterproto.int32_field(2)
    inner_map: Dict[str, Colour] = betterproto.map_field(
        3, betterproto.TYPE_STRING, betterproto.TYPE_ENUM
    )


@dataclass(eq=False, repr=False)
class M(betterproto.Message):
    str_enum: Dict[str, Colour] = betterproto.map_field(
        1, betterproto.TYPE_STRING, betterproto.TYPE_ENUM
    )
    int_enum: Dict[int, Colour] = betterproto.map_field(
        2, betterproto.TYPE_INT32, betterproto.TYPE_ENUM
    )
    bool_enum: Dict[bool, NoZero] = betterproto.map_field(
        3, betterproto.TYPE_BOOL, betterproto.TYPE_ENUM
    )
    str_msg: Dict[str, Inner] = betterproto.map_field(
        4, betterproto.TYPE_STRING, betterproto.TYPE_MESSAGE
    )
    str_i64: Dict[str, int] = betterproto.map_field(
        5, betterproto.TYPE_STRING, betterproto.TYPE_INT64
    )
    str_bytes: Dict[str, bytes] = betterproto.map_field(
        6, betterproto.TYPE_STRING, betterproto.TYPE_BYTES
    )
    str_double: Dict[str, float] = betterproto.map_field(
        7, betterproto.TYPE_STRING, betterproto.TYPE_DOUBLE
    )
    str_str: Dict[str, str] = betterproto.map_field(
        8, betterproto.TYPE_STRING, betterproto.TYPE_STRING
    )
    str_ts: Dict[str, datetime] = betterproto.map_field(
        9, betterproto.TYPE_STRING, betterproto.TYPE_MESSAGE
    )
    str_dur: Dict[str, timedelta] = betterproto.map_field(
        10, betterproto.TYPE_STRING, betterproto.TYPE_MESSAGE
    )
    int_int: Dict[int, int] = betterproto.map_field(
        11, betterproto.TYPE_INT32, betterproto.TYPE_INT32
    )
    str_bool: Dict[str, bool] = betterproto.map_field(
        12, betterproto.TYPE_STRING, betterproto.TYPE_BOOL
    )
    u64_sf64: Dict[int, int] = betterproto.map_field(
        13, betterproto.TYPE_UINT64, betterproto.TYPE_SFIXED64
    )
    plain: Colour = betterproto.enum_field(14)


def same(a, b):
    """Deep equality that also compares the exact types (name str vs number int)."""
    if type(a) is not type(b):
        return False
    if isinstance(a, dict):
        return list(a) == list(b) and all(same(a[k], b[k]) for k in a)
    if isinstance(a, list):
        return len(a) == len(b) and all(same(x, y) for x, y in zip(a, b))
    if isinstance(a, float) and a != a:
        return b != b
    return a == b


rng = random.Random(20)
NUMBERS = sorted(
    {0, 1, 2, 3, -1, -2, -7, -8, 5, -5, 99, -99, 127, 128, 255, 256, 16383, 16384,
     INT32_MIN, INT32_MIN + 1, INT32_MAX, INT32_MAX - 1, 2**30, -(2**30)}
    | {rng.randint(INT32_MIN, INT32_MAX) for _ in range(1500)}
    | {rng.randint(-300, 300) for _ in range(200)}
)

# ---------------------------------------------------------------- 1. enum map values
checked = 0
for number in NUMBERS:
    for enum_cls, names, field, key, json_key in (
        (Colour, COLOUR_NAMES, "str_enum", "k", "strEnum"),
        (Colour, COLOUR_NAMES, "int_enum", -3, "intEnum"),
        (NoZero, NOZERO_NAMES, "bool_enum", True, "boolEnum"),
    ):
        want = oracle(names, number)
        forms = [number, enum_cls.try_value(number)]
        if number in names:
            forms.append(enum_cls(number))
        for form in forms:
            m = M(**{field: {key: form}})
            d = m.to_dict()
            assert same(d, {json_key: {key: want}}), (field, number, d)
            # snake casing and defaults included
            d2 = m.to_dict(casing=Casing.SNAKE, include_default_values=True)
            assert same(d2[field], {key: want}), (field, number, d2)
            # JSON text round trip keeps the number, defined names give the member
            back = M().from_json(m.to_json())
            got = getattr(back, field)[key]
            assert got == number and int(got) == number, (field, number, got)
            if number in names:
                assert got is enum_cls(number), (field, number)
            assert same(back.to_dict(), d), (field, number)
            # binary round trip too, and its to_dict is the same again
            again = M().parse(bytes(m))
            got = getattr(again, field)[key]
            assert got == number and isinstance(got, enum_cls), (field, number, got)
            assert (got is enum_cls(number)) if number in names else got.name is None
            assert same(again.to_dict(), d), (field, number)
            checked += 1
assert checked > 10000, checked

# several entries, order kept, aliases map to the first declared name
entries = {"a": Colour.CRIMSON, "b": 7, "c": Colour.NONE, "d": -7, "e": INT32_MIN, "f": INT32_MAX, "g": -123456}
d = M(str_enum=entries).to_dict()
assert same(
    d, {"strEnum": {"a": "RED", "b": 7, "c": "NONE", "d": "DEEP", "e": "LOW", "f": "HIGH", "g": -123456}}
), d
assert json.loads(M(str_enum=entries).to_json()) == d
assert same(M(bool_enum={True: 5, False: 0}).to_dict(), {"boolEnum": {True: "A", False: 0}})
assert json.loads(M(bool_enum={True: 5, False: 0}).to_json()) == {"boolEnum": {"true": "A", "false": 0}}
assert json.loads(M(int_enum={-1: -1, 2: 2}).to_json()) == {"intEnum": {"-1": -1, "2": "GREEN"}}

# ---------------------------------------------------------------- 2. empty maps / defaults
assert M().to_dict() == {}
full = M().to_dict(include_default_values=True)
for k in ("strEnum", "intEnum", "boolEnum", "strMsg", "strI64", "strBytes", "strDouble",
          "strStr", "strTs", "strDur", "intInt", "strBool", "u64Sf64"):
    assert same(full[k], {}), (k, full[k])
assert full["plain"] == "NONE"
snake = M().to_dict(casing=Casing.SNAKE, include_default_values=True)
assert same(snake["str_enum"], {}) and same(snake["u64_sf64"], {})

# ---------------------------------------------------------------- 3. message map values
inner = Inner(inner_colour=Colour.GREEN, inner_number=3, inner_map={"x": 42, "y": Colour.DEEP})
m = M(str_msg={"one": inner, "empty": Inner()})
assert same(
    m.to_dict(),
    {"strMsg": {"one": {"innerColour": "GREEN", "innerNumber": 3, "innerMap": {"x": 42, "y": "DEEP"}}, "empty": {}}},
), m.to_dict()
assert same(
    m.to_dict(casing=Casing.SNAKE)["str_msg"],
    {"one": {"inner_colour": "GREEN", "inner_number": 3, "inner_map": {"x": 42, "y": "DEEP"}}, "empty": {}},
)
assert same(
    m.to_dict(include_default_values=True)["strMsg"]["empty"],
    {"innerColour": "NONE", "innerNumber": 0, "innerMap": {}},
)
assert same(
    m.to_dict(Casing.SNAKE, True)["str_msg"]["empty"],
    {"inner_colour": "NONE", "inner_number": 0, "inner_map": {}},
)
back = M().from_dict(m.to_dict())
assert back.str_msg["one"].inner_colour is Colour.GREEN
assert back.str_msg["one"].inner_map["x"] == 42 and back.str_msg["one"].inner_map["y"] is Colour.DEEP

# ---------------------------------------------------------------- 4. scalar map values
m = M(
    str_i64={"a": 0, "b": -(2**63), "c": 2**63 - 1},
    str_bytes={"a": b"", "b": b"\x00\xff\x10hello"},
    str_double={"a": 1.5, "b": float("inf"), "c": float("-inf"), "d": float("nan"), "e": 0.0},
    str_str={"a": "", "b": "text"},
    int_int={0: 0, -5: 7, INT32_MAX: INT32_MIN},
    str_bool={"t": True, "f": False},
    u64_sf64={0: -1, 2**64 - 1: 2**63 - 1},
)
d = m.to_dict()
assert same(d["strI64"], {"a": "0", "b": str(-(2**63)), "c": str(2**63 - 1)})
assert same(d["strBytes"], {"a": "", "b": base64.b64encode(b"\x00\xff\x10hello").decode()})
assert same(d["strDouble"], {"a": 1.5, "b": "Infinity", "c": "-Infinity", "d": "NaN", "e": 0.0})
assert same(d["strStr"], {"a": "", "b": "text"})
assert same(d["intInt"], {0: 0, -5: 7, INT32_MAX: INT32_MIN})
assert same(d["strBool"], {"t": True, "f": False})
assert same(d["u64Sf64"], {0: "-1", 2**64 - 1: str(2**63 - 1)})
back = M().from_json(m.to_json())
assert back.str_i64 == m.str_i64 and back.str_bytes == m.str_bytes
assert back.int_int == m.int_int and back.u64_sf64 == m.u64_sf64 and back.str_bool == m.str_bool
assert back.str_double["b"] == float("inf") and back.str_double["d"] != back.str_double["d"]

# ---------------------------------------------------------------- 5. datetime / timedelta values
t0 = datetime(1970, 1, 1, tzinfo=timezone.utc)
t1 = datetime(2024, 2, 29, 12, 30, 15, 250000, tzinfo=timezone.utc)
m = M(
    str_ts={"zero": t0, "t1": t1},
    str_dur={"zero": timedelta(0), "d": timedelta(seconds=1, milliseconds=500), "neg": timedelta(seconds=-3)},
)
d = m.to_dict()
assert same(d["strTs"], {"zero": "1970-01-01T00:00:00Z", "t1": "2024-02-29T12:30:15.250Z"}), d
assert same(d["strDur"], {"zero": "0.000s", "d": "1.500s", "neg": "-3.000s"}), d
back = M().from_dict(d)
assert back.str_ts == m.str_ts and back.str_dur == m.str_dur
# datetime / timedelta objects win over the declared value type, wherever they sit
assert same(M(str_str={"k": t1}).to_dict(), {"strStr": {"k": "2024-02-29T12:30:15.250Z"}})
assert same(M(str_i64={"k": timedelta(seconds=2)}).to_dict(), {"strI64": {"k": "2.000s"}})
assert same(M(str_enum={"k": timedelta(seconds=2), "l": 1}).to_dict(), {"strEnum": {"k": "2.000s", "l": "RED"}})

# errors surface the same way
for bad in ({"k": None}, {"k": object()}):
    try:
        M(str_msg=bad).to_dict()
    except AttributeError:
        pass
    else:
        raise AssertionError("message map with a non-message value must fail")
try:
    M(str_enum={"k": []}).to_dict()
except TypeError:
    pass
else:
    raise AssertionError("unhashable / non-int enum value must fail")

# ---------------------------------------------------------------- 6. against google.protobuf
from google.protobuf import descriptor_pb2, descriptor_pool, json_format, message_factory

fdp = descriptor_pb2.FileDescriptorProto(name="c20_keep1.proto", package="c20k1", syntax="proto3")
en = fdp.enum_type.add(name="Colour")
en.options.allow_alias = True
for name, number in (("NONE", 0), ("RED", 1), ("CRIMSON", 1), ("GREEN", 2), ("DEEP", -7),
                     ("LOW", INT32_MIN), ("HIGH", INT32_MAX)):
    en.value.add(name=name, number=number)
msg = fdp.message_type.add(name="M")
F = descriptor_pb2.FieldDescriptorProto
for idx, (fname, key_type) in enumerate((("str_enum", F.TYPE_STRING), ("int_enum", F.TYPE_INT32)), start=1):
    entry_name = "".join(p.capitalize() for p in fname.split("_")) + "Entry"
    entry = msg.nested_type.add(name=entry_name)
    entry.options.map_entry = True
    entry.field.add(name="key", number=1, type=key_type, label=F.LABEL_OPTIONAL)
    entry.field.add(name="value", number=2, type=F.TYPE_ENUM, type_name=".c20k1.Colour", label=F.LABEL_OPTIONAL)
    msg.field.add(name=fname, number=idx, type=F.TYPE_MESSAGE, type_name=f".c20k1.M.{entry_name}",
                  label=F.LABEL_REPEATED)
pool = descriptor_pool.DescriptorPool()
pool.Add(fdp)
PbM = message_factory.GetMessageClass(pool.FindMessageTypeByName("c20k1.M"))

sample = rng.sample(NUMBERS, 400) + [0, 1, 2, -7, INT32_MIN, INT32_MAX, -1, 3]
for chunk_start in range(0, len(sample), 8):
    chunk = sample[chunk_start : chunk_start + 8]
    ours = M(
        str_enum={f"k{i}": n for i, n in enumerate(chunk)},
        int_enum={i - 4: n for i, n in enumerate(chunk)},
    )
    theirs = PbM()
    theirs.ParseFromString(bytes(ours))
    assert {k: int(v) for k, v in ours.str_enum.items()} == dict(theirs.str_enum)
    assert {k: int(v) for k, v in ours.int_enum.items()} == dict(theirs.int_enum)
    want = json_format.MessageToDict(theirs)
    assert json.loads(ours.to_json()) == want, (chunk, ours.to_dict(), want)
    # and what protobuf prints is read back to the same numbers
    back = M().from_dict(want)
    assert {k: int(v) for k, v in back.str_enum.items()} == dict(theirs.str_enum)
    assert {int(k): int(v) for k, v in back.int_enum.items()} == dict(theirs.int_enum)

print("ok")
