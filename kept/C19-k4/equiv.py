"""Behaviour of betterproto.casing (sanitize_name, safe_snake_case, pascal_case, camel_case)
and betterproto.compile.naming (pythonize_*), checked against independent reference
implementations written out below, over exhaustive identifier spaces, all Python
keywords / soft keywords / builtins, a corpus of real-world names and the pairs pinned by
tests/test_casing.py; plus a cross-check of camel_case against protobuf's json_name.
"""
import builtins
import itertools
import keyword
import re

from betterproto import casing
from betterproto.casing import (
    camel_case,
    lowercase_first,
    pascal_case,
    safe_snake_case,
    sanitize_name,
    snake_case,
)
from betterproto.compile.naming import (
    pythonize_class_name,
    pythonize_enum_member_name,
    pythonize_field_name,
    pythonize_method_name,
)

# ---------------------------------------------------------------------------------------
# reference implementations (specification of the behaviour)
# ---------------------------------------------------------------------------------------
_TOKEN = re.compile(r"([^a-zA-Z0-9]*)([A-Z]+(?![a-z])[0-9]*|[A-Z]*[a-z]*[0-9]*)")


def ref_sanitize(value):
    if value in keyword.kwlist:
        return value + "_"
    if not value.isidentifier():
        return "_" + value
    return value


def ref_pascal(value, strict=True):
    out = []
    pos = 0
    for m in _TOKEN.finditer(value):
        out.append(value[pos : m.start()])
        pos = m.end()
        symbols, word = m.group(1), m.group(2)
        if strict:
            out.append(word.capitalize())
        elif word.islower():
            out.append("_" * len(symbols[:-1]) + word.capitalize())
        else:
            out.append("_" * len(symbols) + word.capitalize())
    out.append(value[pos:])
    return "".join(out)


def ref_camel(value, strict=True):
    p = ref_pascal(value, strict)
    return p[:1].lower() + p[1:]


def ref_enum_member(name, enum_name):
    prefix = snake_case(enum_name).upper() + "_"
    if name.startswith(prefix) and name[len(prefix) :].strip("_") != "":
        name = name[len(prefix) :].strip("_")
    return ref_sanitize(name)


# ---------------------------------------------------------------------------------------
# inputs
# ---------------------------------------------------------------------------------------
def words(alphabet, max_len):
    for n in range(0, max_len + 1):
        for tup in itertools.product(alphabet, repeat=n):
            yield "".join(tup)


EXHAUSTIVE = set(words("aB1_", 6)) | set(words("abAB12_", 4)) | set(words("xY0_.-~ ", 4))
SPECIAL = set(keyword.kwlist) | set(keyword.softkwlist) | set(dir(builtins))
SPECIAL |= {k.upper() for k in keyword.kwlist} | {k.capitalize() for k in keyword.kwlist}
SPECIAL |= {k + "_" for k in keyword.kwlist} | {"_" + k for k in keyword.kwlist}
SPECIAL |= {k + "_1" for k in keyword.kwlist} | {"1" + k for k in keyword.kwlist}
CORPUS = {
    "address_line_1", "ipv4_address", "x_y_z", "HTTPStatus", "HTTP2xx", "sha_256", "UInt32",
    "GetUInt64", "FOO_BAR", "FOO1BAR2", "foo__bar", "foo__Bar", "__foo", "__init__", "foobaR",
    "foo.bar", "foo~bar", "foo:bar", "kabob-case", "1foobar", "", "_", "__", "_1", "v2beta1",
    "oauth2_token", "OAuth2Token", "utf_8_text", "é", "naïve_name", "日本", "a b", "\n",
    "None", "True", "False", "none", "true", "false", "NONE", "Self", "self", "cls",
}
ALL = sorted(EXHAUSTIVE | SPECIAL | CORPUS)
assert len(ALL) > 10000

# every keyword is an identifier (what makes the two tests in sanitize_name exclusive)
assert all(k.isidentifier() for k in keyword.kwlist)
assert all(keyword.iskeyword(k) for k in keyword.kwlist)

# ---------------------------------------------------------------------------------------
# checks
# ---------------------------------------------------------------------------------------
def is_legal_proto_ident(s):
    return re.fullmatch(r"[A-Za-z_][A-Za-z0-9_]*", s) is not None


n_ident = 0
for v in ALL:
    # sanitize_name
    s = sanitize_name(v)
    assert s == ref_sanitize(v), (v, s)
    assert keyword.iskeyword(v) == (s == v + "_" and v.isidentifier()), v
    # safe_snake_case is sanitize_name after snake_case
    ssc = safe_snake_case(v)
    assert ssc == ref_sanitize(snake_case(v)), (v, ssc)
    # pascal / camel, both modes
    for strict in (True, False):
        p = pascal_case(v, strict=strict)
        assert p == ref_pascal(v, strict), (v, strict, p, ref_pascal(v, strict))
        c = camel_case(v, strict=strict)
        assert c == ref_camel(v, strict) == lowercase_first(p), (v, strict, c)
    assert pascal_case(v) == pascal_case(v, True) and camel_case(v) == camel_case(v, True)
    # naming
    assert pythonize_field_name(v) == ssc
    assert pythonize_method_name(v) == ssc
    assert pythonize_class_name(v) == ref_sanitize(ref_pascal(v)), v

    if is_legal_proto_ident(v):
        n_ident += 1
        for f in (pythonize_field_name, pythonize_method_name, pythonize_class_name):
            name = f(v)
            assert name.isidentifier() and not keyword.iskeyword(name), (f.__name__, v, name)
            if f is not pythonize_class_name:
                assert f(name) == name, (f.__name__, v, name, f(name))
        assert pascal_case(v).isalnum() or pascal_case(v) == ""
        assert "_" not in camel_case(v)
assert n_ident > 5000, n_ident

# enum member names
ENUMS = ["E", "Color", "HTTPStatus", "FooBar", "foo_bar", "A1", "None", "_", "class", "X_Y"]
MEMBERS = set(words("E_O1", 4)) | {
    "ZERO", "E_ZERO", "E__", "E_", "COLOR_RED", "COLOR_", "COLOR__RED__", "COLOR_1", "RED",
    "HTTP_STATUS_OK", "HTTP_STATUS_200", "HTTPSTATUS_OK", "FOO_BAR_BAZ", "FOO_BAR", "FOO_BAR_",
    "A1_X", "A1_", "NONE_None", "NONE_1", "None", "CLASS_class", "CLASS_if", "class", "X_Y_Z",
    "X_Y__", "__X", "_",
}
for e in ENUMS:
    for m in MEMBERS:
        got = pythonize_enum_member_name(m, e)
        assert got == ref_enum_member(m, e), (m, e, got)
        if m and is_legal_proto_ident(m):
            assert got.isidentifier() and not keyword.iskeyword(got), (m, e, got)
assert pythonize_enum_member_name("ZERO", "E") == "ZERO"
assert pythonize_enum_member_name("E_ZERO", "E") == "ZERO"
assert pythonize_enum_member_name("E__", "E") == "E__"
assert pythonize_enum_member_name("COLOR_1", "Color") == "_1"
assert pythonize_enum_member_name("CLASS_if", "class") == "if_"
assert pythonize_enum_member_name("HTTP_STATUS__OK_", "HTTPStatus") == "OK"

# pinned pairs (tests/test_casing.py and a few more)
assert sanitize_name("") == "_" and sanitize_name("class") == "class_"
assert sanitize_name("None") == "None_" and sanitize_name("1a") == "_1a"
assert sanitize_name("match") == "match" and sanitize_name("a-b") == "_a-b"
assert safe_snake_case("class") == "class_" and safe_snake_case("Class_") == "class_"
assert safe_snake_case("_1") == "_1" and safe_snake_case("_") == "_"
assert safe_snake_case("kabob-case") == "kabob_case"
for value, expected in [
    ("", ""), ("a", "A"), ("foobar", "Foobar"), ("fooBar", "FooBar"), ("FooBar", "FooBar"),
    ("foo.bar", "FooBar"), ("foo_bar", "FooBar"), ("FOOBAR", "Foobar"), ("FOOBar", "FooBar"),
    ("UInt32", "UInt32"), ("FOO_BAR", "FooBar"), ("FOOBAR1", "Foobar1"), ("FOOBAR_1", "Foobar1"),
    ("FOO1BAR2", "Foo1Bar2"), ("foo__bar", "FooBar"), ("_foobar", "Foobar"),
    ("foobaR", "FoobaR"), ("foo~bar", "FooBar"), ("foo:bar", "FooBar"), ("1foobar", "1Foobar"),
]:
    assert pascal_case(value, strict=True) == expected
    assert camel_case(value, strict=True) == expected[:1].lower() + expected[1:]
for value, expected in [
    ("foo_bar", "fooBar"), ("FooBar", "fooBar"), ("foo__bar", "foo_Bar"),
    ("foo__Bar", "foo__Bar"), ("foo___bar", "foo__Bar"), ("_foo", "foo"), ("__foo", "_Foo"),
    ("foo_1", "foo_1"), ("foo__1", "foo__1"), ("foo1", "foo1"), ("FOO_BAR", "foo_Bar"),
]:
    assert camel_case(value, strict=False) == expected, (value, camel_case(value, strict=False))
assert pythonize_class_name("none") == "None_" and pythonize_class_name("_") == "_"
assert pythonize_class_name("_1") == "_1" and pythonize_class_name("http_status") == "HttpStatus"

# camel_case agrees with protobuf's own JSON name for plain lower_snake names
from google.protobuf import descriptor_pb2, descriptor_pool

plain = sorted(
    {"_".join(t) for n in (1, 2, 3) for t in itertools.product(["ab", "cde", "f", "gh"], repeat=n)}
    - {"f_f", "f_f_f"}
)
plain = [p for p in plain if not re.search(r"(^|_)[a-z]_[a-z](_|$)", p)]
fdp = descriptor_pb2.FileDescriptorProto(name="c19_keep2.proto", package="c19k2", syntax="proto2")
mt = fdp.message_type.add(name="M")
for i, n in enumerate(plain, start=1):
    mt.field.add(name=n, number=i, type=5, label=1)
pool = descriptor_pool.DescriptorPool()
pool.Add(fdp)
desc = pool.FindMessageTypeByName("c19k2.M")
assert len(desc.fields) == len(plain) > 40
for fd in desc.fields:
    assert camel_case(pythonize_field_name(fd.name)) == fd.json_name, (fd.name, fd.json_name)

print(f"ok ({len(ALL)} strings, {n_ident} legal identifiers)")
