"""C04 keep2: which field a from_dict / from_json / from_pydict key denotes.

Message classes with awkward field names (keywords with a trailing underscore, digits,
names whose camelCase form does not snake_case back, names that collide after casing)
are built in many field orders.  For a large set of key spellings the field that receives
the value is compared with an independent statement of the rule:

    1. a key that is a field name denotes that field;
    2. otherwise the first field (declaration order; camelCase before snake_case) that
       to_dict would emit under this key;
    3. otherwise the field called safe_snake_case(key), if there is one;
    4. otherwise the key is ignored.

Then the round trip of the property is run for both casings, the classmethod and the
instance form and the JSON text path, also through nested / repeated / map-valued
messages.
"""
import dataclasses
import itertools
import json
import random
from dataclasses import dataclass
from typing import Dict, List, Optional

import betterproto
from betterproto import Casing
from betterproto.casing import camel_case, pascal_case, safe_snake_case, snake_case

rnd = random.Random(4)

NAMES = [
    "value", "from_", "in_", "is_", "class_", "lambda_", "address_line_1",
    "address_line1", "foo_bar", "fooBar", "foo__bar", "_leading", "trailing_", "x",
    "X", "Foo", "foo", "foo_", "http_request", "HTTPRequest", "httpRequest", "a1b2",
    "a_1_b_2", "snake_case_name", "camelCaseName", "int32_value", "UPPER",
    "UPPER_CASE", "mixed_Case_Name", "name2_name3", "name_2_name_3", "v1_beta",
    "v1beta", "v_1_beta", "id", "ID", "i_d", "user_id", "userId", "user_i_d",
    "__dunder", "end__", "a", "a_", "_a", "a_b", "aB", "ab", "A_B",
]
assert len(set(NAMES)) == len(NAMES)


def make_class(names, kind="int32"):
    maker = {"int32": betterproto.int32_field, "string": betterproto.string_field}[kind]
    typ = {"int32": int, "string": str}[kind]
    return dataclasses.make_dataclass(
        "Dyn",
        [(n, typ, maker(i + 1)) for i, n in enumerate(names)],
        bases=(betterproto.Message,),
        eq=False,
        repr=False,
    )


def emitted_keys(name):
    return [camel_case(name).rstrip("_"), snake_case(name).rstrip("_")]


def reference_field(names, key) -> Optional[str]:
    if key in names:
        return key
    for n in names:
        if key in emitted_keys(n):
            return n
    guess = safe_snake_case(key)
    return guess if guess in names else None


def spellings(name):
    out = {
        name, camel_case(name), snake_case(name), pascal_case(name),
        camel_case(name).rstrip("_"), snake_case(name).rstrip("_"),
        camel_case(name, strict=False), snake_case(name, strict=False),
        name.upper(), name.lower(), name.replace("_", "-"), name.replace("_", ""),
        name + "_", "_" + name, name.rstrip("_"), name.strip("_"), name.title(),
        name.replace("_", " "), name + "1", name[:-1],
    }
    return {s for s in out if s}


ALL_KEYS = sorted(set().union(*(spellings(n) for n in NAMES)) | {"", "?", "9", "None"})
ALL_KEYS = [k for k in ALL_KEYS if k]  # the empty key is handled below separately


def check_resolution(names):
    cls = make_class(names)
    table = cls._betterproto.field_name_by_key
    for key in ALL_KEYS:
        want = reference_field(names, key)
        # the table itself agrees with the rule for every key it contains
        if key in table:
            assert table[key] == want, (names, key, table[key], want)
        expected = cls(**{want: 7}) if want else cls()
        for got in (
            cls.from_dict({key: 7}),
            cls().from_dict({key: 7}),
            cls().from_json(json.dumps({key: 7})),
            cls().from_pydict({key: 7}),
        ):
            assert got == expected, (names, key, want, got)
            assert bytes(got) == bytes(expected), (names, key, want)
    # every key of the table is a key some field is emitted under, or a field name
    legal = set(names) | {k for n in names for k in emitted_keys(n)}
    assert set(table) == legal, (names, set(table) ^ legal)
    # None values and unknown keys are skipped without touching anything
    assert cls.from_dict({k: None for k in ALL_KEYS}) == cls()
    assert bytes(cls().from_dict({"?": 1, "no such key": 2})) == b""


def collision_free(names):
    keys = [k for n in names for k in set(emitted_keys(n))]
    for n in names:
        for k in set(emitted_keys(n)) | {n}:
            if reference_field(names, k) != n:
                return False
    return len(keys) == len(set(keys))


def check_round_trip(names):
    for kind, values in (("int32", [0, 1, -5, 2**31 - 1]), ("string", ["", "x", "from", "é"])):
        cls = make_class(names, kind)
        for _ in range(6):
            m = cls(**{n: rnd.choice(values) for n in names if rnd.random() < 0.7})
            wire = bytes(m)
            for casing in (Casing.CAMEL, Casing.SNAKE):
                d = m.to_dict(casing=casing)
                text = json.dumps(d)
                assert text == m.to_json(casing=casing)
                for back in (
                    cls.from_dict(d),
                    cls().from_dict(d),
                    cls().from_json(text),
                    cls.from_dict(json.loads(text)),
                    cls().from_pydict(m.to_pydict(casing=casing)),
                ):
                    assert back == m, (names, d, back, m)
                    assert bytes(back) == wire
                d_all = m.to_dict(casing=casing, include_default_values=True)
                assert len(d_all) == len(names), (names, d_all)
                assert cls.from_dict(d_all) == m and bytes(cls.from_dict(d_all)) == wire


# 1. every name on its own, every ordered pair, and random larger classes -------------
n_classes = 0
for name in NAMES:
    check_resolution([name])
    n_classes += 1
pairs = list(itertools.permutations(NAMES, 2))
rnd.shuffle(pairs)
for a, b in pairs[:90]:
    check_resolution([a, b])
    n_classes += 1
# pairs that are known to meet after casing, in both orders
for a, b in [
    ("address_line_1", "address_line1"), ("foo_bar", "fooBar"), ("foo", "foo_"),
    ("Foo", "foo"), ("foo_", "Foo"), ("http_request", "httpRequest"),
    ("HTTPRequest", "http_request"), ("a1b2", "a_1_b_2"), ("v1_beta", "v1beta"),
    ("v_1_beta", "v1_beta"), ("id", "ID"), ("i_d", "id"), ("user_id", "userId"),
    ("user_i_d", "userId"), ("a", "a_"), ("_a", "a"), ("a_b", "aB"), ("ab", "aB"),
    ("A_B", "a_b"), ("UPPER", "x"), ("name2_name3", "name_2_name_3"), ("end__", "x"),
    ("foo__bar", "foo_bar"), ("x", "X"),
]:
    check_resolution([a, b])
    check_resolution([b, a])
    n_classes += 2
for _ in range(30):
    names = rnd.sample(NAMES, rnd.randrange(3, 12))
    check_resolution(names)
    n_classes += 1
check_resolution(list(NAMES))
check_resolution(list(reversed(NAMES)))

# 2. round trips for classes whose emitted keys do not collide --------------------------
n_rt = 0
attempts = 0
while n_rt < 100 and attempts < 5000:
    attempts += 1
    names = rnd.sample(NAMES, rnd.randrange(1, 9))
    if collision_free(names):
        check_round_trip(names)
        n_rt += 1
assert n_rt == 100


# 3. hand-written nested messages -------------------------------------------------------
@dataclass(eq=False, repr=False)
class Address(betterproto.Message):
    address_line_1: str = betterproto.string_field(1)
    address_line_2: str = betterproto.string_field(2)
    from_: str = betterproto.string_field(3)
    zip_code9: int = betterproto.int64_field(4)


@dataclass(eq=False, repr=False)
class Person(betterproto.Message):
    full_name: str = betterproto.string_field(1)
    home_address: Address = betterproto.message_field(2)
    other_addresses: List[Address] = betterproto.message_field(3)
    addresses_by_label: Dict[str, Address] = betterproto.map_field(
        4, betterproto.TYPE_STRING, betterproto.TYPE_MESSAGE
    )
    in_: int = betterproto.sint32_field(5)
    v1_api_key: bytes = betterproto.bytes_field(6, group="credential")
    oauth2_token: str = betterproto.string_field(7, group="credential")
    is_: Optional[bool] = betterproto.bool_field(8, optional=True)


def addr(i):
    return Address(
        address_line_1=f"line one {i}" if i % 2 else "",
        address_line_2=f"line two {i}",
        from_="sender" if i % 3 else "",
        zip_code9=i * 10**10,
    )


PEOPLE = [
    Person(),
    Person(full_name="n", home_address=addr(1), in_=-4, is_=False),
    Person(home_address=Address(), other_addresses=[Address(), addr(2), addr(3)]),
    Person(addresses_by_label={"": Address(), "home_address": addr(4), "fromKey": addr(6)}),
    Person(v1_api_key=b""),
    Person(v1_api_key=b"\xff\x00"),
    Person(oauth2_token=""),
    Person(oauth2_token="tok", is_=True, in_=2**31 - 1),
]
for m in PEOPLE:
    wire = bytes(m)
    for casing in (Casing.CAMEL, Casing.SNAKE):
        d = m.to_dict(casing=casing)
        text = json.dumps(d)
        for back in (
            Person.from_dict(d),
            Person().from_dict(d),
            Person().from_json(text),
            Person.from_dict(json.loads(text)),
        ):
            assert back == m, (d, back, m)
            assert bytes(back) == wire
            assert betterproto.which_one_of(back, "credential") == betterproto.which_one_of(
                m, "credential"
            )
        assert Person().from_pydict(m.to_pydict(casing=casing)) == m

full = Person(
    full_name="n", home_address=addr(1), other_addresses=[addr(2)],
    addresses_by_label={"k": addr(3)}, in_=1, oauth2_token="t", is_=True,
)
assert set(full.to_dict()) == {
    "fullName", "homeAddress", "otherAddresses", "addressesByLabel", "in",
    "oauth2Token", "is",
}
assert set(full.to_dict(casing=Casing.SNAKE)) == {
    "full_name", "home_address", "other_addresses", "addresses_by_label", "in",
    "oauth2_token", "is",
}
assert set(full.to_dict()["homeAddress"]) == {"addressLine1", "addressLine2", "from", "zipCode9"}
assert set(full.to_dict(casing=Casing.SNAKE)["home_address"]) == {
    "address_line_1", "address_line_2", "from", "zip_code9",
}
# other spellings a client may send
p = Person.from_dict(
    {"FullName": "a", "home-address": {"ADDRESS_LINE_2": "b", "AddressLine1": "ignored", "from_": "c", "from": "d"},
     "IN": 3, "in_": 4, "Is": False, "v1ApiKey": "AA==", "unknown": 1}
)
assert p.full_name == "a" and p.home_address.address_line_2 == "b"
assert p.home_address.address_line_1 == ""
assert p.home_address.from_ == "d" and p.in_ == 4 and p.is_ is False
assert p.v1_api_key == b"\x00"

print(f"C04 keep2 equiv: {n_classes} key-resolution classes x {len(ALL_KEYS)} keys, "
      f"{n_rt} round-trip classes and the nested cases passed")
