"""
C03 / keep1 equivalence check.

The refactor moved the "a field of this message shadows a builtin type name" logic of
FieldCompiler.use_builtins / FieldCompiler.annotation and of
MapEntryCompiler.use_builtins / MapEntryCompiler.annotation into one helper per class
that returns (spelling inside the class body, needs `import builtins`).

This script
  * embeds the ORIGINAL four properties as free functions and compares them with the
    tree's properties on every field compiler the plugin builds for
      - targeted schemas (fields called str/int/float/bool/bytes/... of every scalar
        kind, wrapper, Timestamp/Duration, repeated/optional/oneof/map shape),
      - grammar generated schemas (many keyword / builtin colliding names),
      - the tests/inputs corpus,
    under the three typing flavours (direct, typing.root, typing.310);
  * checks the rendered field lines and the `import builtins` decision of the header
    against those original functions;
  * imports every generated package and checks the C03 statement against the
    FileDescriptorSet (classes, field numbers, proto types, cardinality, map key /
    value types, oneof groups, wrappers, resolved type hints, enum numbers).
It passes on the reference tree and on the refactored tree.
"""
import contextlib
import dataclasses
import datetime
import glob
import importlib
import io
import itertools
import keyword
import os
import random
import re
import shutil
import sys
import tempfile
import types
import typing

import grpc_tools
from google.protobuf import descriptor_pb2
from google.protobuf.compiler import plugin_pb2
from grpc_tools import protoc

import betterproto
import betterproto.lib.google.protobuf as lib_google_protobuf
import betterproto.plugin.compiler as plugin_compiler
import betterproto.plugin.models as plugin_models
import betterproto.plugin.parser as plugin_parser
from betterproto.lib.google.protobuf.compiler import CodeGeneratorRequest

# ruff (import sorter / formatter) is not installed: keep the rendered text as is
plugin_compiler.subprocess.check_output = lambda cmd, input, encoding: input
plugin_models.monkey_patch_oneof_index()

WORKTREE = os.path.dirname(os.path.dirname(os.path.dirname(betterproto.__file__)))
FD = descriptor_pb2.FieldDescriptorProto

# --------------------------------------------------------------------------------------
# reference copy of the naming rules (betterproto/casing.py + compile/naming.py as they
# are in the reference tree); used as the oracle for class / field / member names
# --------------------------------------------------------------------------------------
REF_SYMBOLS = "[^a-zA-Z0-9]*"
REF_WORD = "[A-Z]*[a-z]*[0-9]*"
REF_WORD_UPPER = "[A-Z]+(?![a-z])[0-9]*"


def ref_sanitize_name(value):
    if keyword.iskeyword(value):
        return f"{value}_"
    if not value.isidentifier():
        return f"_{value}"
    return value


def ref_snake_case(value, strict=True):
    def substitute_word(symbols, word, is_start):
        if not word:
            return ""
        if strict:
            delimiter_count = 0 if is_start else 1
        elif is_start:
            delimiter_count = len(symbols)
        elif word.isupper() or word.islower():
            delimiter_count = max(1, len(symbols))
        else:
            delimiter_count = len(symbols) + 1
        return ("_" * delimiter_count) + word.lower()

    return re.sub(
        f"(^)?({REF_SYMBOLS})({REF_WORD_UPPER}|{REF_WORD})",
        lambda groups: substitute_word(groups[2], groups[3], groups[1] is not None),
        value,
    )


def ref_pascal_case(value, strict=True):
    def substitute_word(symbols, word):
        if strict:
            return word.capitalize()
        if word.islower():
            delimiter_length = len(symbols[:-1])
        else:
            delimiter_length = len(symbols)
        return ("_" * delimiter_length) + word.capitalize()

    return re.sub(
        f"({REF_SYMBOLS})({REF_WORD_UPPER}|{REF_WORD})",
        lambda groups: substitute_word(groups[1], groups[2]),
        value,
    )


def ref_camel_case(value, strict=True):
    pascal = ref_pascal_case(value, strict=strict)
    return pascal[0:1].lower() + pascal[1:]


def ref_safe_snake_case(value):
    return ref_sanitize_name(ref_snake_case(value))


def ref_class_name(dotted):
    return ref_sanitize_name(ref_pascal_case(dotted))


def ref_enum_member_name(name, flat_enum_name):
    prefix = ref_snake_case(flat_enum_name).upper() + "_"
    if name.startswith(prefix) and name[len(prefix) :].strip("_"):
        name = name[len(prefix) :].strip("_")
    return ref_sanitize_name(name)


# --------------------------------------------------------------------------------------
# harness: protoc -> FileDescriptorSet -> plugin (in process) -> files -> import
# --------------------------------------------------------------------------------------
WKT_INCLUDE = os.path.join(os.path.dirname(grpc_tools.__file__), "_proto")


def compile_schema(files, source_info=True):
    """files: {relative path: text}.  Returns a FileDescriptorSet or None (protoc error)."""
    src = tempfile.mkdtemp(prefix="c03_src_")
    try:
        for rel, text in files.items():
            path = os.path.join(src, rel)
            os.makedirs(os.path.dirname(path), exist_ok=True)
            with open(path, "w") as fh:
                fh.write(text)
        out = os.path.join(src, "fds.bin")
        args = ["protoc", f"-I{src}", f"-I{WKT_INCLUDE}"]
        args += [f"--descriptor_set_out={out}", "--include_imports"]
        if source_info:
            args.append("--include_source_info")
        args += files
        sys.stderr.flush()
        saved = os.dup(2)
        devnull = os.open(os.devnull, os.O_WRONLY)
        try:
            os.dup2(devnull, 2)  # protoc reports errors from C++
            rc = protoc.main(args)
        finally:
            os.dup2(saved, 2)
            os.close(saved)
            os.close(devnull)
        if rc != 0:
            return None
        with open(out, "rb") as fh:
            return descriptor_pb2.FileDescriptorSet.FromString(fh.read())
    finally:
        shutil.rmtree(src)


_captured = []


class _CapturingRequestCompiler(plugin_models.PluginRequestCompiler):
    def __init__(self, *args, **kwargs):
        super().__init__(*args, **kwargs)
        _captured.append(self)


plugin_parser.PluginRequestCompiler = _CapturingRequestCompiler


def run_plugin(fds, parameter=""):
    """Returns ({file name: content}, PluginRequestCompiler built by generate_code)."""
    req = plugin_pb2.CodeGeneratorRequest()
    req.parameter = parameter
    for f in fds.file:
        req.proto_file.append(f)
        req.file_to_generate.append(f.name)
    request = CodeGeneratorRequest().parse(req.SerializeToString())
    del _captured[:]
    with contextlib.redirect_stderr(io.StringIO()):
        response = plugin_parser.generate_code(request)
    files = {}
    for f in response.file:
        assert f.name not in files, f"file {f.name} emitted twice"
        files[f.name] = f.content
    return files, _captured[-1]


_counter = itertools.count()


@contextlib.contextmanager
def imported(files):
    """Writes the response files below a fresh top-level package and yields its name."""
    root = tempfile.mkdtemp(prefix="c03_out_")
    top = f"c03gen{next(_counter)}"
    try:
        for rel, text in files.items():
            path = os.path.join(root, top, rel)
            os.makedirs(os.path.dirname(path), exist_ok=True)
            with open(path, "w") as fh:
                fh.write(text)
        sys.path.insert(0, root)
        importlib.invalidate_caches()
        yield top
    finally:
        if root in sys.path:
            sys.path.remove(root)
        for name in [n for n in sys.modules if n == top or n.startswith(top + ".")]:
            del sys.modules[name]
        shutil.rmtree(root)


# --------------------------------------------------------------------------------------
# oracle: what the FileDescriptorSet says the generated package has to contain
# --------------------------------------------------------------------------------------
SCALAR_PY = {
    FD.TYPE_DOUBLE: float, FD.TYPE_FLOAT: float,
    FD.TYPE_INT64: int, FD.TYPE_UINT64: int, FD.TYPE_INT32: int,
    FD.TYPE_FIXED64: int, FD.TYPE_FIXED32: int, FD.TYPE_UINT32: int,
    FD.TYPE_SFIXED32: int, FD.TYPE_SFIXED64: int, FD.TYPE_SINT32: int,
    FD.TYPE_SINT64: int, FD.TYPE_BOOL: bool, FD.TYPE_STRING: str,
    FD.TYPE_BYTES: bytes,
}  # fmt: skip
PROTO_TYPE_NAME = {
    number: name[len("TYPE_") :].lower() for name, number in FD.Type.items()
}
WRAPPERS = {
    ".google.protobuf.DoubleValue": ("double", float),
    ".google.protobuf.FloatValue": ("float", float),
    ".google.protobuf.Int32Value": ("int32", int),
    ".google.protobuf.Int64Value": ("int64", int),
    ".google.protobuf.UInt32Value": ("uint32", int),
    ".google.protobuf.UInt64Value": ("uint64", int),
    ".google.protobuf.BoolValue": ("bool", bool),
    ".google.protobuf.StringValue": ("string", str),
    ".google.protobuf.BytesValue": ("bytes", bytes),
}


def norm(hint):
    """Structural normal form of a resolved type hint (List/list, Optional/| agree)."""
    origin = typing.get_origin(hint)
    args = typing.get_args(hint)
    if origin is list:
        return ("list", norm(args[0]))
    if origin is dict:
        return ("dict", norm(args[0]), norm(args[1]))
    if origin is typing.Union or origin is types.UnionType:
        members = frozenset(norm(a) for a in args)
        return ("union", members) if len(members) > 1 else next(iter(members))
    return hint


def optional_of(norm_hint):
    if isinstance(norm_hint, tuple) and norm_hint[0] == "union":
        return ("union", norm_hint[1] | {type(None)})
    return ("union", frozenset({norm_hint, type(None)}))


def walk_types(file_proto):
    """Yields (kind, flattened dotted name, descriptor) for every message / enum."""

    def _walk(messages, prefix):
        for m in messages:
            dotted = f"{prefix}{m.name}"
            yield "message", dotted, m
            for e in m.enum_type:
                yield "enum", f"{dotted}.{e.name}", e
            yield from _walk(m.nested_type, dotted + ".")

    for e in file_proto.enum_type:
        yield "enum", e.name, e
    yield from _walk(file_proto.message_type, "")


def check_generated(fds, files, top, check_hints=True):
    """
    The C03 statement, checked for one generated package tree that has been written
    below the top-level package ``top``.  Returns the number of fields checked.
    """
    by_package = {}
    for f in fds.file:
        by_package.setdefault(f.package, []).append(f)
    # where does every full type name live?
    location = {}
    for f in fds.file:
        for kind, dotted, desc in walk_types(f):
            full = f".{f.package}.{dotted}" if f.package else f".{dotted}"
            location[full] = (f.package, ref_class_name(dotted), kind, desc)

    modules = {}
    for package in by_package:
        if package == "google.protobuf":
            assert not any(
                name.startswith("google/protobuf/") for name in files
            ), "well known types are not generated without INCLUDE_GOOGLE"
            continue
        rel = os.path.join(*package.split("."), "__init__.py") if package else "__init__.py"
        assert rel in files, (rel, sorted(files))
        name = f"{top}.{package}" if package else top
        modules[package] = importlib.import_module(name)
    # every directory is a package
    for rel in files:
        assert os.path.basename(rel) == "__init__.py", rel
        directory = os.path.dirname(rel)
        while directory:
            directory = os.path.dirname(directory)
            assert os.path.join(directory, "__init__.py") in files, (rel, directory)

    def resolve(type_name):
        if type_name.startswith(".google.protobuf.") and type_name not in location:
            raise AssertionError(f"unknown well known type {type_name}")
        package, cls_name, kind, desc = location[type_name]
        if package == "google.protobuf":
            return getattr(lib_google_protobuf, cls_name)
        return getattr(modules[package], cls_name)

    def value_hint(field):
        """Normalised hint of one value of the field and the expected ``wraps``."""
        if field.type in SCALAR_PY:
            return SCALAR_PY[field.type], None
        if field.type_name in WRAPPERS:
            proto_type, py = WRAPPERS[field.type_name]
            return optional_of(py), proto_type
        if field.type_name == ".google.protobuf.Timestamp":
            return datetime.datetime, None
        if field.type_name == ".google.protobuf.Duration":
            return datetime.timedelta, None
        return resolve(field.type_name), None

    checked = 0
    for package, protos in by_package.items():
        if package == "google.protobuf":
            continue
        module = modules[package]
        expected_classes = set()
        for f in protos:
            for kind, dotted, desc in walk_types(f):
                if kind == "message" and desc.options.map_entry:
                    continue
                cls_name = ref_class_name(dotted)
                assert cls_name not in expected_classes, f"oracle: {cls_name} twice"
                expected_classes.add(cls_name)
                cls = getattr(module, cls_name, None)
                assert cls is not None, f"{package}: class {cls_name} is missing"
                assert cls.__module__ == module.__name__, (cls, module)
                if kind == "enum":
                    assert issubclass(cls, betterproto.Enum), cls
                    visible = list(desc.value)
                    assert len(cls.__members__) == len(visible), (cls, desc)
                    flat = "_" + dotted.replace(".", "_")
                    names = [ref_enum_member_name(v.name, flat) for v in visible]
                    if len(set(names)) != len(names):
                        names = [ref_sanitize_name(v.name) for v in visible]
                    for v, member_name in zip(visible, names):
                        member = cls.__members__[member_name]
                        assert int(member) == v.number, (cls, member_name, v.number)
                    assert {int(m) for m in cls} == {v.number for v in visible}
                    continue
                assert issubclass(cls, betterproto.Message), cls
                assert dataclasses.is_dataclass(cls)
                dc_fields = dataclasses.fields(cls)
                assert len(dc_fields) == len(desc.field), (cls, dc_fields)
                hints = typing.get_type_hints(cls) if check_hints else None
                entries = {
                    f".{(package + '.') if package else ''}{dotted}.{n.name}": n
                    for n in desc.nested_type
                    if n.options.map_entry
                }
                for field, dc_field in zip(desc.field, dc_fields):
                    checked += 1
                    assert dc_field.name == ref_safe_snake_case(field.name), (
                        cls, dc_field.name, field.name,
                    )  # fmt: skip
                    meta = dc_field.metadata["betterproto"]
                    assert meta.number == field.number, (cls, field.name)
                    entry = entries.get(field.type_name)
                    is_repeated = field.label == FD.LABEL_REPEATED
                    if entry is not None and is_repeated:
                        key, value = entry.field
                        assert meta.proto_type == "map", (cls, field.name, meta)
                        assert meta.map_types == (
                            PROTO_TYPE_NAME[key.type], PROTO_TYPE_NAME[value.type],
                        ), (cls, field.name, meta)  # fmt: skip
                        assert not meta.optional and meta.group is None
                        assert meta.wraps is None
                        if value.type_name in WRAPPERS:
                            v_hint = resolve(value.type_name)  # wrapper message class
                        else:
                            v_hint, _ = value_hint(value)
                        expected = ("dict", SCALAR_PY[key.type], v_hint)
                    else:
                        assert meta.proto_type == PROTO_TYPE_NAME[field.type], (
                            cls, field.name, meta,
                        )  # fmt: skip
                        assert meta.map_types is None
                        expected, wraps = value_hint(field)
                        assert meta.wraps == wraps, (cls, field.name, meta, wraps)
                        in_real_oneof = (
                            field.HasField("oneof_index") and not field.proto3_optional
                        )
                        group = (
                            desc.oneof_decl[field.oneof_index].name
                            if in_real_oneof
                            else None
                        )
                        assert meta.group == group, (cls, field.name, meta, group)
                        assert bool(meta.optional) == field.proto3_optional, (
                            cls, field.name, meta,
                        )  # fmt: skip
                        if is_repeated:
                            expected = ("list", expected)
                        elif field.proto3_optional:
                            expected = optional_of(expected)
                    if check_hints:
                        got = norm(hints[dc_field.name])
                        assert got == expected, (cls, field.name, got, expected)
        defined = {
            name
            for name, obj in vars(module).items()
            if isinstance(obj, type)
            and obj.__module__ == module.__name__
            and issubclass(obj, (betterproto.Message, betterproto.Enum))
        }
        assert defined == expected_classes, (package, defined ^ expected_classes)
    return checked


# --------------------------------------------------------------------------------------
# grammar based schema generator
# --------------------------------------------------------------------------------------
SCALARS = [
    "double", "float", "int32", "int64", "uint32", "uint64", "sint32", "sint64",
    "fixed32", "fixed64", "sfixed32", "sfixed64", "bool", "string", "bytes",
]  # fmt: skip
KEY_KINDS = [s for s in SCALARS if s not in ("double", "float", "bytes")]
WELL_KNOWN = {
    "google.protobuf.Timestamp": "google/protobuf/timestamp.proto",
    "google.protobuf.Duration": "google/protobuf/duration.proto",
    "google.protobuf.Struct": "google/protobuf/struct.proto",
    "google.protobuf.Any": "google/protobuf/any.proto",
    "google.protobuf.Empty": "google/protobuf/empty.proto",
    "google.protobuf.FieldMask": "google/protobuf/field_mask.proto",
}
for _w in WRAPPERS:
    WELL_KNOWN[_w[1:]] = "google/protobuf/wrappers.proto"
PLAIN_NAMES = [
    "name", "title", "count", "total_count", "userId", "HTTPCode", "x", "y1", "a_b_c",
    "payload", "created_at", "items", "flag2", "inner_value", "Camel", "data", "kind",
    "first_name", "lastName", "v2_beta", "x_1", "ID", "url_path",
]  # fmt: skip
KEYWORD_NAMES = [
    "from", "in", "is", "class", "def", "lambda", "pass", "global", "import", "for",
    "while", "return", "yield", "not", "and", "or", "if", "else", "try", "with", "as",
    "del", "raise", "assert", "async", "await", "nonlocal", "except", "finally",
    "break", "continue", "elif",
]  # fmt: skip
BUILTIN_NAMES = [
    "str", "int", "float", "bool", "bytes", "id", "type", "map", "filter", "max",
    "min", "object", "format", "hash", "input", "range", "len", "set", "tuple", "all",
    "any", "next", "iter", "open", "print", "sum", "vars", "zip", "property",
]  # fmt: skip
MESSAGE_WORDS = [
    "Person", "Order", "Item", "HTTPRequest", "Node", "Tree", "Config", "Envelope",
    "UserV2", "Point3D", "Shape", "Leaf", "Box", "Account", "Event", "Page", "Unit",
]  # fmt: skip
ENUM_WORDS = ["Kind", "Status", "Color", "Mode", "Level", "HTTPMethod", "Phase", "Op"]
PACKAGES = [
    "", "alpha", "alpha.beta", "alpha.beta.gamma", "alpha.delta", "omega.v1",
    "omega.v1beta", "shop", "shop.cart.items", "zeta_one.sub_pkg",
]  # fmt: skip
COMMENTS = [
    "plain comment", 'quoted "word" inside', "back\\slash", "tick's and `code`",
    'triple """ quotes inside', "unicode éè ✓", "trailing spaces   ",
    "a rather long comment that certainly does not fit on a single line of the output "
    "file because it is long", "{{ jinja }} {% braces %}", "#hash and 'single'",
    'ends with a "quote"', "ends with a backslash \\", "percent %s %d {0}",
]  # fmt: skip


class SchemaGenerator:
    def __init__(self, seed, special_names=0.25, comments=0.3):
        self.rnd = random.Random(seed)
        self.special_names = special_names
        self.comments = comments

    def comment(self, indent):
        if self.rnd.random() >= self.comments:
            return ""
        pad = " " * indent
        lines = [self.rnd.choice(COMMENTS)]
        if self.rnd.random() < 0.3:
            lines.append(self.rnd.choice(COMMENTS))
        if self.rnd.random() < 0.2:
            return f"{pad}/* {lines[0]} */\n".replace("*/ */", "* / */")
        return "".join(f"{pad}// {line}\n" for line in lines)

    def field_name(self, used):
        for _ in range(100):
            r = self.rnd.random()
            if r < self.special_names / 2:
                name = self.rnd.choice(KEYWORD_NAMES)
            elif r < self.special_names:
                name = self.rnd.choice(BUILTIN_NAMES)
            else:
                name = self.rnd.choice(PLAIN_NAMES)
                if self.rnd.random() < 0.3:
                    name += str(self.rnd.randrange(10))
            key = ref_safe_snake_case(name)
            # protoc: json names / map entry names must not conflict either
            norm_key = name.replace("_", "").lower()
            if key not in used and norm_key not in used:
                used.add(key)
                used.add(norm_key)
                return name
        raise AssertionError("name pool exhausted")

    def make(self, n_packages=None):
        """
        Returns {path: text}.  Files must not import each other in a cycle, so the
        main file of a package only refers to packages that come before it; some
        packages get a second file that may refer to every main file (that also makes
        packages depend on each other in a cycle, which is legal).
        """
        rnd = self.rnd
        packages = rnd.sample(PACKAGES, n_packages or rnd.randint(1, 4))
        units = []  # (package, path, messages, enums)
        for index, package in enumerate(packages):
            words = rnd.sample(MESSAGE_WORDS, rnd.randint(2, 5))
            enum_words = rnd.sample(ENUM_WORDS, rnd.randint(0, 3))
            directory = package.replace(".", "/") or "root"
            split = rnd.random() < 0.4
            extra_words = [words.pop()] if split else []
            extra_enums = [enum_words.pop()] if split and enum_words else []
            units.append(
                (
                    package,
                    f"{directory}/schema{index}.proto",
                    [self.declare_message(w, 0) for w in words],
                    [self.declare_enum(w) for w in enum_words],
                )
            )
            if split:
                units.append(
                    (
                        package,
                        f"{directory}/extra{index}.proto",
                        [self.declare_message(w, 0) for w in extra_words],
                        [self.declare_enum(w) for w in extra_enums],
                    )
                )
        units.sort(key=lambda unit: "/extra" in unit[1])  # main files first
        self.all_messages = []
        self.all_enums = []
        self.package_values = {}
        out = {}
        declared = []
        for package, path, messages, enums in units:
            prefix = f"{package}." if package else ""
            mine_messages, mine_enums = [], []
            for e in enums:
                mine_enums.append((path, prefix + e["name"]))

            def collect(message, scope):
                full = f"{scope}{message['name']}"
                mine_messages.append((path, full))
                for e in message["enums"]:
                    mine_enums.append((path, f"{full}.{e['name']}"))
                for nested in message["nested"]:
                    collect(nested, full + ".")

            for m in messages:
                collect(m, prefix)
            declared.append((mine_messages, mine_enums))
        n_main = sum(1 for unit in units if "/extra" not in unit[1])
        for index, (package, path, messages, enums) in enumerate(units):
            # what this file may refer to
            if index < n_main:
                visible = declared[: index + 1]
            else:
                visible = declared[:n_main] + [declared[index]]
            self.all_messages = [m for ms, _ in visible for m in ms]
            self.all_enums = [e for _, es in visible for e in es]
            imports = set()
            body = []
            scope_values = self.package_values.setdefault(package, set())
            for e in enums:
                body.append(self.render_enum(e, 0, scope_values))
            for m in messages:
                body.append(self.render_message(m, 0, path, imports))
            lines = ['syntax = "proto3";']
            if package:
                lines.append(f"package {package};")
            for target in sorted(imports):
                if target != path:
                    lines.append(f'import "{target}";')
            out[path] = "\n".join(lines) + "\n\n" + "\n".join(body) + "\n"
        return out

    def declare_message(self, word, depth):
        rnd = self.rnd
        nested = []
        if depth < 2:
            for w in rnd.sample(MESSAGE_WORDS, rnd.choice([0, 0, 1, 2])):
                if w != word:
                    nested.append(self.declare_message(w, depth + 1))
        enums = [
            self.declare_enum(w) for w in rnd.sample(ENUM_WORDS, rnd.choice([0, 0, 1]))
        ]
        return {"name": word, "nested": nested, "enums": enums}

    def declare_enum(self, word):
        return {"name": word}

    def render_enum(self, enum, indent, scope_values=None):
        rnd = self.rnd
        scope_values = set() if scope_values is None else scope_values
        pad = " " * indent
        prefix = ref_snake_case(enum["name"]).upper()
        style = rnd.choice(["prefixed", "bare", "mixed"])
        words = rnd.sample(
            ["UNKNOWN", "A", "B", "ACTIVE", "DONE", "RED", "X1", "2D", "NIL", "None",
             "lower_case", "MixedCase", "OTHER_"],
            rnd.randint(1, 6),
        )  # fmt: skip
        lines = [self.comment(indent) + f"{pad}enum {enum['name']} {{"]
        numbers = [0]
        alias = rnd.random() < 0.3 and len(words) > 2
        for i in range(1, len(words)):
            if alias and i == len(words) - 1:
                numbers.append(rnd.choice(numbers))
            else:
                n = rnd.choice(
                    [i, i * 10, -i, -(2**31) + i, 2**31 - 1 - i, 1000 + i]
                )
                while n in numbers:
                    n += 1
                numbers.append(n)
        if alias:
            lines.append(f"{pad}  option allow_alias = true;")
        for word, number in zip(words, numbers):
            if word[0].isdigit() or style == "prefixed" or word in scope_values or (
                style == "mixed" and rnd.random() < 0.5
            ):
                word = f"{prefix}_{word}"
            scope_values.add(word)
            lines.append(self.comment(indent + 2) + f"{pad}  {word} = {number};")
        lines.append(f"{pad}}}")
        return "\n".join(lines)

    def pick_type(self, package, imports, allow_wkt=True):
        rnd = self.rnd
        r = rnd.random()
        if r < 0.45:
            return rnd.choice(SCALARS)
        if r < 0.6 and self.all_enums:
            pkg, full = rnd.choice(self.all_enums)
        elif r < 0.85:
            pkg, full = rnd.choice(self.all_messages)
        elif allow_wkt:
            full = rnd.choice(sorted(WELL_KNOWN))
            imports.add(WELL_KNOWN[full])
            return "." + full
        else:
            return rnd.choice(SCALARS)
        imports.add(pkg)  # the path of the defining file
        return "." + full

    def render_message(self, message, indent, package, imports):
        rnd = self.rnd
        pad = " " * indent
        lines = [self.comment(indent) + f"{pad}message {message['name']} {{"]
        scope_values = set()
        for e in message["enums"]:
            lines.append(self.render_enum(e, indent + 2, scope_values))
        for nested in message["nested"]:
            lines.append(self.render_message(nested, indent + 2, package, imports))
        used = set()
        numbers = set()

        def number():
            while True:
                n = rnd.choice(
                    [rnd.randint(1, 15), rnd.randint(16, 2047),
                     rnd.randint(20000, 536870911), 536870911, 1]
                )  # fmt: skip
                if n not in numbers and not 19000 <= n <= 19999:
                    numbers.add(n)
                    return n

        for _ in range(rnd.choice([0, 1, 2, 3, 4, 5, 6, 8])):
            kind = rnd.random()
            fpad = pad + "  "
            if kind < 0.15:
                key = rnd.choice(KEY_KINDS)
                value = self.pick_type(package, imports)
                decl = f"map<{key}, {value}> {self.field_name(used)} = {number()};"
                lines.append(self.comment(indent + 2) + fpad + decl)
            elif kind < 0.3:
                oneof_name = self.field_name(used)
                lines.append(f"{fpad}oneof {oneof_name} {{")
                for _ in range(rnd.randint(1, 3)):
                    t = self.pick_type(package, imports)
                    lines.append(
                        self.comment(indent + 4)
                        + f"{fpad}  {t} {self.field_name(used)} = {number()};"
                    )
                lines.append(f"{fpad}}}")
            else:
                label = rnd.choice(["", "", "repeated ", "optional "])
                t = self.pick_type(package, imports)
                decl = f"{label}{t} {self.field_name(used)} = {number()};"
                trailing = (
                    f"  // {rnd.choice(COMMENTS)}" if rnd.random() < 0.15 else ""
                )
                lines.append(self.comment(indent + 2) + fpad + decl + trailing)
        lines.append(f"{pad}}}")
        return "\n".join(lines)


def generated_schemas(seeds, **kwargs):
    for seed in seeds:
        gen = SchemaGenerator(seed, **kwargs)
        files = gen.make()
        fds = compile_schema(files)
        if fds is None:
            # the generator aims at valid schemas only; protoc has the last word
            continue
        yield seed, files, fds


def corpus_schemas():
    """The tests/inputs corpus: one schema per directory."""
    base = os.path.join(WORKTREE, "tests", "inputs")
    for directory in sorted(glob.glob(os.path.join(base, "*", ""))):
        protos = sorted(glob.glob(os.path.join(directory, "*.proto")))
        if not protos:
            continue
        files = {}
        for path in protos:
            with open(path) as fh:
                files[os.path.basename(path)] = fh.read()
        fds = compile_schema(files)
        if fds is not None:
            yield os.path.basename(os.path.dirname(directory)), files, fds
# --------------------------------------------------------------------------------------
# the ORIGINAL implementation of the four refactored properties
# --------------------------------------------------------------------------------------
import builtins as _builtins

from betterproto.plugin.models import FieldCompiler, MapEntryCompiler, MessageCompiler


def orig_field_use_builtins(fc):
    return (
        fc.py_type in fc.parent.builtins_types
        or fc.wrapped_py_type in fc.parent.builtins_types
        or (fc.py_type == fc.py_name and fc.py_name in dir(_builtins))
    )


def orig_field_annotation(fc):
    py_type = fc.py_type
    if fc.wrapped_py_type in fc.parent.builtins_types:
        py_type = fc.typing_compiler.optional(f"builtins.{fc.wrapped_py_type}")
    elif orig_field_use_builtins(fc):
        py_type = f"builtins.{py_type}"
    if fc.repeated:
        return fc.typing_compiler.list(py_type)
    if fc.optional:
        return fc.typing_compiler.optional(py_type)
    return py_type


def orig_map_use_builtins(fc):
    shadowed = fc.parent.builtins_types
    return fc.py_k_type in shadowed or fc.py_v_type in shadowed


def orig_map_annotation(fc):
    shadowed = fc.parent.builtins_types
    k_type, v_type = (
        f"builtins.{py_type}" if py_type in shadowed else py_type
        for py_type in (fc.py_k_type, fc.py_v_type)
    )
    return fc.typing_compiler.dict(k_type, v_type)


def orig_use_builtins(fc):
    if isinstance(fc, MapEntryCompiler):
        return orig_map_use_builtins(fc)
    return orig_field_use_builtins(fc)


def orig_annotation(fc):
    if isinstance(fc, MapEntryCompiler):
        return orig_map_annotation(fc)
    return orig_field_annotation(fc)


STATS = {"fields": 0, "builtins_fields": 0, "packages": 0, "builtins_packages": 0}


def check_compilers(request_data, files):
    """Compares every field compiler of the request with the original functions."""
    for package, output in request_data.output_packages.items():
        every = []
        for message in output.messages:
            assert type(message) is MessageCompiler
            for fc in message.fields:
                every.append(fc)
                if isinstance(fc, MapEntryCompiler):
                    assert len(fc.fields) == 2  # key and value helper compilers
                    every.extend(fc.fields)
                else:
                    assert not fc.fields
        for fc in every:
            STATS["fields"] += 1
            want_flag = orig_use_builtins(fc)
            want_annotation = orig_annotation(fc)
            assert fc.use_builtins is want_flag, (package, fc.py_name, want_flag)
            assert fc.annotation == want_annotation, (
                package, fc.py_name, fc.annotation, want_annotation,
            )  # fmt: skip
            STATS["builtins_fields"] += want_flag
            assert ("builtins." in want_annotation) == want_flag or isinstance(
                fc.parent, MapEntryCompiler
            ), (package, fc.py_name, want_annotation)
        needs_import = any(orig_use_builtins(fc) for fc in every)
        assert output.builtins_import is needs_import, (package, needs_import)
        assert ("builtins" in output.python_module_imports) is needs_import
        if not output.output:
            continue
        STATS["packages"] += 1
        STATS["builtins_packages"] += needs_import
        rel = os.path.join(*package.split("."), "__init__.py") if package else "__init__.py"
        lines = files[rel].splitlines()
        assert ("import builtins" in lines) is needs_import, (package, needs_import)
        for message in output.messages:
            for fc in message.fields:
                args = fc.betterproto_field_args
                rendered = (
                    f"    {fc.py_name}: {orig_annotation(fc)} = betterproto."
                    f"{fc.field_type}_field({fc.proto_obj.number}"
                    + "".join(f", {a}" for a in args)
                    + ")"
                )
                assert fc.get_field_string() == rendered.strip(), (rendered,)
                assert rendered in lines, (package, rendered)


def check_schema(label, fds, flavours=("", "typing.root", "typing.310"), e2e=True):
    total = 0
    for parameter in flavours:
        files, request_data = run_plugin(fds, parameter)
        check_compilers(request_data, files)
        if e2e:
            with imported(files) as top:
                total += check_generated(fds, files, top)
    return total


# --------------------------------------------------------------------------------------
# targeted schemas: every builtin type name as a field name next to every field shape
# --------------------------------------------------------------------------------------
TYPE_NAMES = ["str", "int", "float", "bool", "bytes"]
WRAPPER_NAMES = [w[1:] for w in WRAPPERS]


def shapes(prefix):
    """Field declarations of every shape (without numbers)."""
    out = []
    labelled = ("string", "int32", "double", "bool", "bytes")
    for kind in SCALARS:
        out.append(f"{kind} {prefix}_{kind}")
        if kind in labelled:
            out.append(f"repeated {kind} {prefix}_rep_{kind}")
            out.append(f"optional {kind} {prefix}_opt_{kind}")
    labelled = ("StringValue", "Int32Value", "BoolValue", "BytesValue", "Timestamp")
    for w in WRAPPER_NAMES + ["google.protobuf.Timestamp", "google.protobuf.Duration"]:
        short = w.split(".")[-1]
        out.append(f"{w} {prefix}_{short.lower()}")
        if short in labelled:
            out.append(f"repeated {w} {prefix}_rep_{short.lower()}")
            out.append(f"optional {w} {prefix}_opt_{short.lower()}")
    for key in KEY_KINDS:
        out.append(f"map<{key}, string> {prefix}_keyed_{key}")
    for value in SCALARS + WRAPPER_NAMES + ["google.protobuf.Duration", "Side", "Mode"]:
        short = value.split(".")[-1].lower()
        out.append(f"map<string, {value}> {prefix}_map_string_{short}")
        if value in ("string", "int32", "float", "bool", "bytes", "Side"):
            out.append(f"map<int64, {value}> {prefix}_map_int64_{short}")
    return out


def targeted_schema(shadow_names, shadow_types, package):
    """
    One message per shadowing name set: the fields called like builtin types come
    first / last / in the middle and have the given types.
    """
    lines = ['syntax = "proto3";', f"package {package};" if package else ""]
    lines += [
        'import "google/protobuf/wrappers.proto";',
        'import "google/protobuf/timestamp.proto";',
        'import "google/protobuf/duration.proto";',
        "enum Mode { MODE_A = 0; MODE_B = 1; }",
        "message Side { string str = 1; int32 int = 2; }",
    ]
    for position in ("first", "last", "middle"):
        body = shapes("f")
        special = [f"{t} {n}" for n, t in zip(shadow_names, shadow_types)]
        if position == "first":
            body = special + body
        elif position == "last":
            body = body + special
        else:
            body = body[: len(body) // 2] + special + body[len(body) // 2 :]
        lines.append(f"message Holder{position.capitalize()} {{")
        number = 0
        oneof_members = [
            "string one_string", "bytes one_bytes", "int32 one_int", "bool one_bool",
            "double one_double", "google.protobuf.StringValue one_wrapped",
            "google.protobuf.Int64Value one_wrapped_int", "Side one_side",
        ]  # fmt: skip
        for decl in body:
            number += 1
            lines.append(f"  {decl} = {number};")
        lines.append("  oneof choice {")
        for decl in oneof_members:
            number += 1
            lines.append(f"    {decl} = {number};")
        lines.append("  }")
        lines.append("}")
    return "\n".join(lines) + "\n"


def targeted_cases():
    same = {"str": "string", "int": "int32", "float": "double", "bool": "bool",
            "bytes": "bytes"}  # fmt: skip
    # 1. each name alone, typed as itself and as something else
    for name in TYPE_NAMES:
        yield [name], [same[name]]
        yield [name], ["Side"]
        yield [name], ["repeated " + same[TYPE_NAMES[(TYPE_NAMES.index(name) + 1) % 5]]]
    # 2. wrappers / maps / oneof members carrying the colliding name themselves
    yield ["str", "int"], ["google.protobuf.StringValue", "google.protobuf.Int32Value"]
    yield ["bool", "float"], ["optional google.protobuf.BoolValue", "repeated google.protobuf.FloatValue"]
    yield ["bytes", "str"], ["map<string, bytes>", "map<int32, string>"]
    yield ["int", "float", "bool"], ["map<bool, sint64>", "map<string, google.protobuf.DoubleValue>", "google.protobuf.Timestamp"]
    # 3. all five at once, rotated types
    for shift in range(5):
        yield TYPE_NAMES, [same[TYPE_NAMES[(i + shift) % 5]] for i in range(5)]
    # 4. other builtin names and keywords never qualify anything
    yield ["id", "type", "map", "object", "len", "from", "None"], [
        "int64", "string", "map<string, string>", "Side", "repeated int32", "bool", "Mode"]
    # 5. camel / upper case spellings that snake_case turns into a builtin type name
    yield ["Str", "INT", "Bool", "bytes_"], ["int32", "string", "bytes", "bool"]


def main():
    import time

    started = time.time()
    n_fields = 0
    for index, (names, types_) in enumerate(targeted_cases()):
        package = ["", "tgt", "tgt.deep.er"][index % 3]
        text = targeted_schema(names, types_, package)
        # (without comments: looking them up dominates the run time of the plugin)
        fds = compile_schema({f"case{index}.proto": text}, source_info=False)
        assert fds is not None, f"targeted schema {index} is not valid:\n{text}"
        flavours = ("", "typing.root") if index % 2 else ("", "typing.310")
        n_fields += check_schema(f"targeted{index}", fds, flavours=flavours)
    assert STATS["builtins_fields"] > 1000, STATS
    print(f"targeted: {n_fields} fields checked end to end, {STATS} ({time.time() - started:.0f}s)")

    n_schemas = 0
    for seed, files, fds in generated_schemas(range(1000, 1010), special_names=0.6):
        n_fields += check_schema(f"seed{seed}", fds)
        n_schemas += 1
    assert n_schemas >= 8, n_schemas
    print(f"generated: {n_schemas} schemas, {n_fields} fields, {STATS} ({time.time() - started:.0f}s)")

    n_corpus = 0
    for name, files, fds in corpus_schemas():
        # known limitation of the reference tree (tests/inputs/config.py: xfail)
        e2e = name != "import_capitalized_package"
        n_fields += check_schema(name, fds, flavours=("", "typing.310"), e2e=e2e)
        n_corpus += 1
    assert n_corpus >= 60, n_corpus
    assert STATS["builtins_packages"] > 30 and STATS["packages"] > 150, STATS
    print(f"corpus: {n_corpus} cases; total {n_fields} fields; {STATS}")
    print(f"OK ({time.time() - started:.0f}s)")


main()
