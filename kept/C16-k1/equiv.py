"""C16 / load_varint (and decode_varint, load_fields, parse which sit on top of it).

Checks load_varint against an independent model and against google.protobuf's
varint decoder for complete, truncated and over-long inputs, with and without the
``first`` argument, and checks how many bytes are consumed from the stream.
"""
import io
import itertools
import random
from dataclasses import dataclass

from google.protobuf.internal import decoder as pb_decoder
from google.protobuf.internal import encoder as pb_encoder

import betterproto
from betterproto import decode_varint, encode_varint, load_varint, size_varint

rng = random.Random(1616)
M64 = (1 << 64) - 1


def ref_encode(v):
    pieces = []
    pb_encoder._EncodeVarint(pieces.append, v & M64)
    return b"".join(pieces)


def model(data):
    """Independent model: ('ok', value, consumed) | ('eof', consumed) | ('long', consumed)."""
    result = 0
    for i in range(10):
        if i >= len(data):
            return ("eof", len(data))
        b = data[i]
        result |= (b & 0x7F) << (7 * i)
        if not b & 0x80:
            return ("ok", result, i + 1)
    return ("long", 10)


def observe_stream(data, use_first):
    stream = io.BytesIO(data)
    try:
        if use_first:
            first = stream.read(1)
            value, raw = load_varint(stream, first)
        else:
            value, raw = load_varint(stream)
    except EOFError:
        return ("eof", stream.tell())
    except ValueError:
        return ("long", stream.tell())
    assert type(raw) is bytes and type(value) is int
    assert raw == data[: len(raw)]
    assert stream.tell() == len(raw)
    return ("ok", value, len(raw))


def observe_buffer(data, prefix=b""):
    try:
        value, pos = decode_varint(prefix + data, len(prefix))
    except EOFError:
        return ("eof",)
    except ValueError:
        return ("long",)
    return ("ok", value, pos - len(prefix))


def check_bytes(data):
    want = model(data)
    assert observe_stream(data, False) == want, (data, want)
    if data:
        assert observe_stream(data, True) == want, (data, want)
    else:
        # empty first + empty stream
        assert observe_stream(data, True) == want
    got = observe_buffer(data)
    assert got == want[: len(got)] if want[0] != "ok" else got == want, (data, got, want)
    got = observe_buffer(data, b"\xff\x01\x80")
    assert got == want[: len(got)] if want[0] != "ok" else got == want, (data, got, want)


# ---- values: exhaustive small range, all 7/32/64-bit boundaries, random
values = set(range(0, 1 << 15))
for k in list(range(0, 65)):
    for d in (-2, -1, 0, 1, 2):
        v = (1 << k) + d
        if 0 <= v <= M64:
            values.add(v)
values |= {rng.randrange(0, 1 << 64) for _ in range(20000)}
values |= {rng.randrange(0, 1 << rng.randrange(1, 65)) for _ in range(20000)}

for v in values:
    enc = encode_varint(v)
    assert enc == ref_encode(v), v
    assert len(enc) == size_varint(v)
    assert load_varint(io.BytesIO(enc)) == (v, enc)
    assert load_varint(io.BytesIO(enc[1:]), enc[:1]) == (v, enc)
    # trailing data is left unread
    s = io.BytesIO(enc + b"\xff\xff")
    assert load_varint(s) == (v, enc) and s.tell() == len(enc)
    assert decode_varint(enc, 0) == (v, len(enc))
    assert pb_decoder._DecodeVarint(enc, 0) == (v, len(enc))

for v in [-1, -2, -127, -128, -129, -(1 << 31), -(1 << 31) - 1, -(1 << 63), -(1 << 63) + 1] + [
    -rng.randrange(1, (1 << 63) + 1) for _ in range(5000)
]:
    enc = encode_varint(v)
    assert len(enc) == 10 == size_varint(v)
    assert enc == ref_encode(v)
    assert load_varint(io.BytesIO(enc)) == (v + (1 << 64), enc)
    assert decode_varint(b"\x00" + enc, 1) == (v + (1 << 64), 11)

# ---- arbitrary byte strings as decoder input
for n in range(0, 3):
    for tup in itertools.product(range(256), repeat=n):
        check_bytes(bytes(tup))
interesting = [0x00, 0x01, 0x02, 0x7F, 0x80, 0x81, 0xFE, 0xFF]
for n in range(3, 6):
    for tup in itertools.product(interesting, repeat=n):
        check_bytes(bytes(tup))
for n in range(6, 13):
    for _ in range(6000):
        check_bytes(bytes(rng.choice(interesting) for _ in range(n)))
    for _ in range(3000):
        check_bytes(bytes(rng.randrange(256) for _ in range(n)))
    # all-continuation prefixes of every length, ended or not
    check_bytes(b"\x80" * n)
    check_bytes(b"\xff" * n)
    check_bytes(b"\x80" * (n - 1) + b"\x01")
    check_bytes(b"\xff" * (n - 1) + b"\x7f")

# the 10-byte limit precisely: 10 bytes accepted, 11th never read from the stream
s = io.BytesIO(b"\x80" * 9 + b"\x01" + b"rest")
assert load_varint(s) == (1 << 63, b"\x80" * 9 + b"\x01") and s.read() == b"rest"
s = io.BytesIO(b"\x80" * 12)
try:
    load_varint(s)
    raise SystemExit("11-byte varint accepted")
except ValueError as e:
    assert str(e) == "Too many bytes when decoding varint."
assert s.tell() == 10
try:
    load_varint(io.BytesIO(b"\x80\x80"))
    raise SystemExit("truncated varint accepted")
except EOFError as e:
    assert str(e) == "Stream ended unexpectedly while attempting to load varint."


# ---- on top of it: streams of fields and whole messages
@dataclass(eq=False, repr=False)
class Msg(betterproto.Message):
    a: int = betterproto.uint64_field(1)
    b: int = betterproto.sint64_field(2)
    c: str = betterproto.string_field(300)
    d: int = betterproto.int32_field(70000)


for _ in range(3000):
    m = Msg(
        a=rng.randrange(0, 1 << rng.randrange(1, 65)),
        b=rng.randrange(-(1 << 63), 1 << 63),
        c="x" * rng.choice([0, 1, 127, 128, 129, 300]),
        d=rng.randrange(-(1 << 31), 1 << 31),
    )
    data = bytes(m)
    via_stream = Msg().load(io.BytesIO(data))
    via_buffer = Msg().parse(data)
    assert via_stream == m == via_buffer
    fields_s = list(betterproto.load_fields(io.BytesIO(data)))
    fields_b = list(betterproto.parse_fields(data))
    assert fields_s == fields_b
    assert b"".join(f.raw for f in fields_s) == data
    out = io.BytesIO()
    m.dump(out, betterproto.SIZE_DELIMITED)
    out.seek(0)
    assert Msg().load(out, betterproto.SIZE_DELIMITED) == m
    cut = rng.randrange(1, len(data)) if len(data) > 1 else 0
    for parse in (lambda d: Msg().parse(d), lambda d: Msg().load(io.BytesIO(d))):
        try:
            parse(data[:cut])
            truncated = "accepted"
        except EOFError:
            truncated = "eof"
        fields = list(betterproto.parse_fields(data))
        boundaries = set(itertools.accumulate(len(f.raw) for f in fields)) | {0}
        assert (truncated == "accepted") == (cut in boundaries), (data, cut, truncated)

print("ok")
