"""C05 keep1: the JSON-key -> field table of ProtoClassMetadata (field_name_by_key) and
everything from_json / from_dict derive from it.

Part 1 compares the table of many generated message classes (ordinary, lossy, keyword
and colliding field names) with an independent statement of its contract, and checks
that from_dict / from_json really route every key of the table to that field.
Part 2 cross-checks against google.protobuf.json_format in both directions with a
schema full of awkward field names.
"""
import dataclasses
import itertools
import json
import keyword
import random
from dataclasses import dataclass
from typing import List, Optional

import betterproto
from betterproto import Casing
from betterproto.casing import camel_case, safe_snake_case, snake_case
from google.protobuf import descriptor_pb2, descriptor_pool, json_format, message_factory


# ------------------------------------------------------------------ part 1: the table
def contract(field_names):
    """A field's own name denotes that field; any other key denotes the first field
    (declaration order, camelCase key before snake_case key) emitted under it."""
    emitted = {}
    for name in field_names:
        for casing in (camel_case, snake_case):
            key = casing(name).rstrip("_")
            if key not in emitted:
                emitted[key] = name
    table = dict(emitted)
    for name in field_names:
        table[name] = name
    return table


RESERVED = set(dir(betterproto.Message))


def usable(name):
    return (
        name.isidentifier()
        and not keyword.iskeyword(name)
        and name not in RESERVED
        and not name.startswith("__")
    )


def make_class(field_names, tag):
    fields = [
        (name, int, betterproto.int32_field(number))
        for number, name in enumerate(field_names, start=1)
    ]
    return dataclasses.make_dataclass(
        f"Gen{tag}", fields, bases=(betterproto.Message,), eq=False, repr=False
    )


FIXED_SETS = [
    ["a"],
    ["foo_bar", "foo_baz"],
    ["address_line_1", "address_line_2", "address_line1"],
    ["address_line1", "address_line_1"],
    ["field1", "field_1", "field_one"],
    ["from_", "class_", "in_", "global_", "not_a_keyword_"],
    ["foo_", "Foo", "foo__bar", "foo_bar"],
    ["fooBar", "foo_bar", "FooBar", "FOO_BAR"],
    ["foo_bar", "fooBar"],
    ["FOO_BAR", "foo_bar"],
    ["x", "X", "x_", "_x"],
    ["ipv4_address", "ipv_4_address", "ipv4address", "ipv4Address"],
    ["sha256_hash", "sha_256_hash", "sha256hash"],
    ["a_b_c", "a_bc", "ab_c", "abc", "aBC", "ABc"],
    ["camelCase", "camel_case", "PascalCase", "pascal_case", "snake_case"],
    ["_leading", "leading", "trailing_", "trailing", "dou__ble", "dou_ble"],
    ["v1", "v_1", "v1_", "v__1", "V1"],
    ["http_url", "HTTPUrl", "httpURL", "http_u_r_l"],
    ["line1a", "line_1a", "line1_a", "line_1_a"],
    ["value", "values", "value_", "Value"],
]

rng = random.Random(20260505)
PIECES = ["a", "b", "foo", "bar", "line", "id", "x", "v", "url", "ip"]
SEPS = ["_", "_", "_", "__", ""]
tables_checked = keys_checked = 0


def random_name():
    parts = []
    for i in range(rng.randint(1, 4)):
        piece = rng.choice(PIECES)
        style = rng.random()
        if style < 0.12:
            piece = piece.upper()
        elif style < 0.3:
            piece = piece.capitalize()
        if rng.random() < 0.3:
            piece += str(rng.choice([1, 2, 4, 10, 256]))
        if rng.random() < 0.08:
            piece = str(rng.randint(0, 9)) + piece if parts else piece
        parts.append(piece)
        parts.append(rng.choice(SEPS))
    name = "".join(parts)
    if rng.random() < 0.7:
        name = name.rstrip("_")
    if rng.random() < 0.05:
        name = "_" + name
    return name


def check_class(field_names, tag):
    global tables_checked, keys_checked
    cls = make_class(field_names, tag)
    expected = contract(field_names)
    table = cls._betterproto.field_name_by_key
    assert dict(table) == expected, (field_names, table, expected)
    assert all(type(k) is str and type(v) is str for k, v in table.items())
    tables_checked += 1
    # every key reaches its field through from_dict, from_json and the class-level
    # constructor path (used for nested messages); nothing else is touched
    for key, field_name in expected.items():
        for build in (
            lambda d: cls().from_dict(d),
            lambda d: cls.from_dict(d),
            lambda d: cls().from_json(json.dumps(d)),
        ):
            msg = build({key: 41})
            for other in field_names:
                want = 41 if other == field_name else 0
                assert getattr(msg, other) == want, (field_names, key, other)
        keys_checked += 1
    # keys that are not in the table fall back to safe_snake_case(key) or are ignored
    for key in ["noSuchKey", "no_such_key", "", "9", "fooBarBazQux", "Address-Line-1"]:
        if key in expected:
            continue
        target = safe_snake_case(key)
        msg = cls().from_dict({key: 17})
        for other in field_names:
            want = 17 if other == target else 0
            assert getattr(msg, other) == want, (field_names, key, other)
    # what to_dict emits is always found again
    full = cls(**{name: i + 1 for i, name in enumerate(field_names)})
    for casing in (Casing.CAMEL, Casing.SNAKE):
        emitted = full.to_dict(casing=casing)
        distinct = len(set(emitted)) == len(field_names)
        if distinct:
            assert cls().from_dict(emitted) == full, (field_names, emitted)
            assert cls.from_dict(emitted) == full, (field_names, emitted)
            assert cls().from_json(full.to_json(casing=casing)) == full


for n, names in enumerate(FIXED_SETS):
    names = [x for x in dict.fromkeys(names) if usable(x)]
    check_class(names, f"F{n}")
    for m, perm in enumerate(itertools.islice(itertools.permutations(names), 1, 24)):
        check_class(list(perm), f"F{n}P{m}")

for n in range(700):
    names = []
    while len(names) < rng.randint(1, 7):
        cand = random_name()
        if usable(cand) and cand not in names:
            names.append(cand)
    check_class(names, f"R{n}")


# ------------------------------------------------- part 2: against google.protobuf
# proto field name -> betterproto attribute name (the plugin appends "_" to keywords)
PROTO_FIELDS = [
    ("plain", "plain"),
    ("two_words", "two_words"),
    ("address_line_1", "address_line_1"),
    ("address_line_2", "address_line_2"),
    ("field1", "field1"),
    ("ipv4_address", "ipv4_address"),
    ("sha256_hash", "sha256_hash"),
    ("x_y_z", "x_y_z"),
    ("a", "a"),
    ("from", "from_"),
    ("class", "class_"),
    ("in", "in_"),
    ("is_valid", "is_valid"),
    ("v2_beta_10", "v2_beta_10"),
    ("very_long_field_name_with_many_words", "very_long_field_name_with_many_words"),
]

F = descriptor_pb2.FieldDescriptorProto
fdp = descriptor_pb2.FileDescriptorProto(
    name="c05_keep1.proto", package="c05keep1", syntax="proto3"
)
inner = fdp.message_type.add(name="Names")
for number, (proto_name, _) in enumerate(PROTO_FIELDS, start=1):
    inner.field.add(name=proto_name, number=number, type=F.TYPE_INT64, label=F.LABEL_OPTIONAL)
outer = fdp.message_type.add(name="Outer")
outer.field.add(name="first_child", number=1, type=F.TYPE_MESSAGE, label=F.LABEL_OPTIONAL, type_name=".c05keep1.Names")
outer.field.add(name="child_list_1", number=2, type=F.TYPE_MESSAGE, label=F.LABEL_REPEATED, type_name=".c05keep1.Names")
outer.field.add(name="return", number=3, type=F.TYPE_MESSAGE, label=F.LABEL_OPTIONAL, type_name=".c05keep1.Names")
pool = descriptor_pool.DescriptorPool()
pool.Add(fdp)
RefNames = message_factory.GetMessageClass(pool.FindMessageTypeByName("c05keep1.Names"))
RefOuter = message_factory.GetMessageClass(pool.FindMessageTypeByName("c05keep1.Outer"))

Names = dataclasses.make_dataclass(
    "Names",
    [
        (attr, int, betterproto.int64_field(number))
        for number, (_, attr) in enumerate(PROTO_FIELDS, start=1)
    ],
    bases=(betterproto.Message,),
    eq=False,
    repr=False,
)


@dataclass(eq=False, repr=False)
class Outer(betterproto.Message):
    first_child: Optional[Names] = betterproto.message_field(1, optional=True)
    child_list_1: List[Names] = betterproto.message_field(2)
    return_: Optional[Names] = betterproto.message_field(3, optional=True)


# the key betterproto emits is the reference's json_name for every field
for (proto_name, attr), fd in zip(PROTO_FIELDS, RefNames.DESCRIPTOR.fields):
    assert fd.name == proto_name
    assert camel_case(attr).rstrip("_") == fd.json_name, (attr, fd.json_name)
    assert Names._betterproto.field_name_by_key[fd.json_name] == attr
    assert Names._betterproto.field_name_by_key[attr] == attr

ATTRS = [attr for _, attr in PROTO_FIELDS]
cross_checked = 0


def random_names():
    chosen = rng.sample(ATTRS, rng.randint(0, len(ATTRS)))
    return Names(**{a: rng.choice([1, -1, 7, 2**53 + 1, -(2**63), 2**63 - 1]) for a in chosen})


def cross_check(bp_msg, bp_cls, ref_cls):
    global cross_checked
    ref_msg = ref_cls.FromString(bytes(bp_msg))
    # betterproto -> reference
    assert json_format.Parse(bp_msg.to_json(), ref_cls()) == ref_msg, bp_msg.to_json()
    # reference -> betterproto, lowerCamelCase names and original proto names
    for preserve in (False, True):
        text = json_format.MessageToJson(ref_msg, preserving_proto_field_name=preserve)
        back = bp_cls().from_json(text)
        assert back == bp_msg, (text, back, bp_msg)
        assert bytes(back) == bytes(bp_msg), text
        assert ref_cls.FromString(bytes(back)) == ref_msg, text
    cross_checked += 1


# each field on its own, then random subsets
for attr in ATTRS:
    cross_check(Names(**{attr: 5}), Names, RefNames)
for _ in range(300):
    cross_check(random_names(), Names, RefNames)
for _ in range(200):
    outer_msg = Outer(child_list_1=[random_names() for _ in range(rng.randint(0, 3))])
    if rng.random() < 0.7:
        outer_msg.first_child = random_names()
    if rng.random() < 0.5:
        outer_msg.return_ = random_names()
    cross_check(outer_msg, Outer, RefOuter)

print(
    f"C05 keep1 equiv: {tables_checked} key tables, {keys_checked} keys, "
    f"{cross_checked} messages cross-checked with google.protobuf - all passed"
)
