"""C11 keep1: the ServiceStub call helpers behave identically (end to end over ChannelFor,
and operation by operation against a recording fake channel)."""
import asyncio
import importlib
import itertools
import os
import sys
import tempfile

import grpc_tools
import grpc_tools.protoc
import grpclib
from grpclib.testing import ChannelFor

import betterproto.plugin.compiler as plugin_compiler
from betterproto.lib.google.protobuf import FileDescriptorSet
from betterproto.lib.google.protobuf.compiler import CodeGeneratorRequest
from betterproto.plugin.parser import generate_code

# ruff is not installed: skip the two formatting passes of the plugin
plugin_compiler.subprocess.check_output = lambda cmd, input, encoding: input

_counter = itertools.count()


def generate(protos, parameter=""):
    work = tempfile.mkdtemp(prefix="c11_")
    src = os.path.join(work, "src")
    for name, text in protos.items():
        path = os.path.join(src, name)
        os.makedirs(os.path.dirname(path), exist_ok=True)
        with open(path, "w") as fh:
            fh.write(text)
    ds = os.path.join(work, "ds.bin")
    inc = os.path.join(os.path.dirname(grpc_tools.__file__), "_proto")
    rc = grpc_tools.protoc.main(
        ["protoc", f"-I{src}", f"-I{inc}", "--include_imports",
         "--include_source_info", f"--descriptor_set_out={ds}", *protos]
    )
    assert rc == 0
    with open(ds, "rb") as fh:
        fds = FileDescriptorSet().parse(fh.read())
    request = CodeGeneratorRequest(
        file_to_generate=list(protos), parameter=parameter, proto_file=fds.file
    )
    saved, sys.stderr = sys.stderr, open(os.devnull, "w")
    try:
        response = generate_code(request)
    finally:
        sys.stderr = saved
    root = f"c11gen{next(_counter)}"
    out = os.path.join(work, "out", root)
    for f in response.file:
        path = os.path.join(out, f.name)
        os.makedirs(os.path.dirname(path), exist_ok=True)
        with open(path, "w") as fh:
            fh.write(f.content)
    init = os.path.join(out, "__init__.py")
    if not os.path.exists(init):
        open(init, "w").close()
    sys.path.insert(0, os.path.join(work, "out"))
    return root



PROTO = """
syntax = "proto3";
package shop.v1;
import "google/protobuf/empty.proto";
import "google/protobuf/wrappers.proto";
import "other/types.proto";
message Req { string name = 1; int32 n = 2; }
message Resp { string text = 1; int32 seq = 2; }
service Echo {
  rpc Say (Req) returns (Resp);
  rpc Many (Req) returns (stream Resp);
  rpc Collect (stream Req) returns (Resp);
  rpc Chat (stream Req) returns (stream Resp);
  rpc GetHTTPStatus (google.protobuf.StringValue) returns (google.protobuf.Empty);
  rpc SumAll (stream other.pkg.Item) returns (other.pkg.Item);
  rpc NotDone1 (Req) returns (Resp);
  rpc NotDone2 (Req) returns (stream Resp);
  rpc NotDone3 (stream Req) returns (Resp);
  rpc NotDone4 (stream Req) returns (stream Resp);
}
"""
OTHER = """
syntax = "proto3";
package other.pkg;
message Item { int64 value = 1; repeated string tags = 2; }
"""

root = generate({"shop.proto": PROTO, "other/types.proto": OTHER})
mod = importlib.import_module(root + ".shop.v1")
other = importlib.import_module(root + ".other.pkg")
Req, Resp, EchoStub, EchoBase = mod.Req, mod.Resp, mod.EchoStub, mod.EchoBase
Item = other.Item
import betterproto.lib.google.protobuf as gpb
from grpclib.const import Status, Cardinality
from grpclib.metadata import Deadline

S = Status


class Svc(EchoBase):
    def __init__(self):
        self.calls = []
        self.seen = []  # (metadata subset, has_deadline, remaining)

    def note(self, name, payload):
        self.calls.append((name, payload))

    async def say(self, req):
        self.note("say", req)
        if req.name == "fail":
            raise grpclib.GRPCError(S.FAILED_PRECONDITION, "no", None)
        return Resp(text=req.name.upper(), seq=req.n)

    async def many(self, req):
        self.note("many", req)
        for i in range(req.n):
            yield Resp(text=req.name, seq=i)
        if req.name == "fail":
            raise grpclib.GRPCError(S.RESOURCE_EXHAUSTED, "enough")

    async def collect(self, req_iterator):
        got = []
        async for r in req_iterator:
            got.append(r)
            if r.name == "fail":
                self.note("collect", got)
                raise grpclib.GRPCError(S.INVALID_ARGUMENT, "bad item")
        self.note("collect", got)
        return Resp(text=",".join(r.name for r in got), seq=len(got))

    async def chat(self, req_iterator):
        got = []
        async for r in req_iterator:
            got.append(r)
            if r.name == "fail":
                self.note("chat", got)
                raise grpclib.GRPCError(S.ABORTED, "stop")
            if r.name == "stop":
                break
            for k in range(r.n):
                yield Resp(text=r.name, seq=k)
        else:
            self.note("chat", got)
            return
        self.note("chat", got)

    async def get_http_status(self, v):
        self.note("get_http_status", v)
        return gpb.Empty()

    async def sum_all(self, it):
        items = [i async for i in it]
        self.note("sum_all", items)
        return Item(value=sum(i.value for i in items), tags=[t for i in items for t in i.tags])


class Hook:
    """wraps the grpclib handler table to record server side metadata/deadline"""


def with_stream_probe(service, probe):
    mapping = service.__mapping__()

    class Probed:
        def __mapping__(self):
            out = {}
            for route, h in mapping.items():
                def make(func):
                    async def wrapped(stream):
                        probe(route_of[func], stream)
                        await func(stream)
                    return wrapped
                out[route] = grpclib.const.Handler(make(h.func), h.cardinality, h.request_type, h.reply_type)
            return out

    route_of = {h.func: r for r, h in mapping.items()}
    return Probed()


async def agen(items, log=None):
    try:
        for i in items:
            yield i
    finally:
        if log is not None:
            log.append("source closed")


async def expect_status(awaitable, status):
    try:
        await awaitable
    except grpclib.GRPCError as e:
        assert e.status == status, (e.status, status)
        return e
    raise AssertionError(f"expected {status}")


async def collect_stream(aiter):
    out = []
    async for x in aiter:
        out.append(x)
    return out


async def test_end_to_end():
    svc = Svc()
    async with ChannelFor([svc]) as channel:
        stub = EchoStub(channel)
        # unary-unary, several values incl. the all-default message
        for name, n in [("", 0), ("a", 1), ("hello", -5), ("x" * 5000, 2**31 - 1)]:
            svc.calls.clear()
            r = await stub.say(Req(name=name, n=n))
            assert r == Resp(text=name.upper(), seq=n)
            assert svc.calls == [("say", Req(name=name, n=n))]
        # unary-stream lengths 0..6
        for n in range(7):
            svc.calls.clear()
            rs = await collect_stream(stub.many(Req(name="m", n=n)))
            assert rs == [Resp(text="m", seq=i) for i in range(n)], rs
            assert svc.calls == [("many", Req(name="m", n=n))]
        # stream-unary lengths 0..6, list / tuple / generator / async generator sources
        for n in range(7):
            reqs = [Req(name=f"r{i}", n=i) for i in range(n)]
            for make in (list, tuple, iter, lambda x: (q for q in x), agen):
                svc.calls.clear()
                r = await stub.collect(make(reqs))
                assert r == Resp(text=",".join(q.name for q in reqs), seq=n), (n, r)
                assert svc.calls == [("collect", reqs)], svc.calls
        # stream-stream lengths 0..5 with fan-out i per request
        for n in range(6):
            reqs = [Req(name=f"s{i}", n=i) for i in range(n)]
            want = [Resp(text=f"s{i}", seq=k) for i in range(n) for k in range(i)]
            for make in (list, agen):
                svc.calls.clear()
                rs = await collect_stream(stub.chat(make(reqs)))
                assert rs == want, (n, rs)
                assert svc.calls == [("chat", reqs)]
        # re-cased name + wrapper / Empty types, cross package types
        svc.calls.clear()
        r = await stub.get_http_status(gpb.StringValue(value="teapot"))
        assert type(r) is gpb.Empty and r == gpb.Empty()
        assert svc.calls == [("get_http_status", gpb.StringValue(value="teapot"))]
        svc.calls.clear()
        items = [Item(value=i, tags=[str(i)]) for i in range(5)]
        r = await stub.sum_all(items)
        assert r == Item(value=10, tags=list("01234")) and type(r) is Item
        assert svc.calls == [("sum_all", items)]
        # UNIMPLEMENTED for all four cardinalities
        await expect_status(stub.not_done1(Req()), S.UNIMPLEMENTED)
        await expect_status(collect_stream(stub.not_done2(Req())), S.UNIMPLEMENTED)
        await expect_status(stub.not_done3([Req(name="a")]), S.UNIMPLEMENTED)
        await expect_status(stub.not_done3([]), S.UNIMPLEMENTED)
        await expect_status(collect_stream(stub.not_done4([Req(name="a")])), S.UNIMPLEMENTED)
        await expect_status(collect_stream(stub.not_done4(agen([]))), S.UNIMPLEMENTED)
        # handler errors
        e = await expect_status(stub.say(Req(name="fail")), S.FAILED_PRECONDITION)
        assert e.message == "no"
        got = []
        async def read_many():
            async for x in stub.many(Req(name="fail", n=3)):
                got.append(x)
        e = await expect_status(read_many(), S.RESOURCE_EXHAUSTED)
        assert e.message == "enough"
        assert got == [Resp(text="fail", seq=i) for i in range(3)]
        await expect_status(stub.collect([Req(name="fail")]), S.INVALID_ARGUMENT)
        # still usable afterwards
        assert await stub.say(Req(name="ok", n=1)) == Resp(text="OK", seq=1)


async def test_bidi_cancel_paths():
    svc = Svc()
    async with ChannelFor([svc]) as channel:
        stub = EchoStub(channel)

        # 1. handler fails in the middle while the request source is still blocked:
        #    caller gets the status and the sender task is cancelled
        log = []
        never = asyncio.Event()

        async def blocked_source():
            try:
                yield Req(name="a", n=2)
                yield Req(name="fail")
                await never.wait()
                yield Req(name="never")
            except asyncio.CancelledError:
                log.append("cancelled")
                raise
            finally:
                log.append("closed")

        got = []
        async def run():
            async for x in stub.chat(blocked_source()):
                got.append(x)
        await expect_status(run(), S.ABORTED)
        # (grpclib may drop buffered replies when the server resets a half-open call)
        assert got == [Resp(text="a", seq=0), Resp(text="a", seq=1)][: len(got)], got
        await asyncio.sleep(0.05)
        assert log == ["cancelled", "closed"], log
        assert svc.calls[-1] == ("chat", [Req(name="a", n=2), Req(name="fail")])

        # 2. caller stops reading early and closes the response generator
        log2 = []

        async def blocked_source2():
            try:
                yield Req(name="b", n=3)
                await never.wait()
            except asyncio.CancelledError:
                log2.append("cancelled")
                raise
            finally:
                log2.append("closed")

        responses = stub.chat(blocked_source2())
        first = await responses.__anext__()
        assert first == Resp(text="b", seq=0)
        await responses.aclose()
        await asyncio.sleep(0.05)
        assert log2 == ["cancelled", "closed"], log2

        # 3. an exception thrown into the response generator reaches the caller unchanged
        log3 = []

        async def blocked_source3():
            try:
                yield Req(name="c", n=1)
                await never.wait()
            finally:
                log3.append("closed")

        responses = stub.chat(blocked_source3())
        assert await responses.__anext__() == Resp(text="c", seq=0)
        class Boom(Exception):
            pass
        try:
            await responses.athrow(Boom("x"))
        except Boom:
            pass
        else:
            raise AssertionError("Boom expected")
        await asyncio.sleep(0.05)
        assert log3 == ["closed"], log3

        # 4. normal completion: handler ends the call after 'stop' although the source
        #    has more; all responses arrive in order and the call ends cleanly
        rs = await collect_stream(stub.chat([Req(name="d", n=2), Req(name="stop"), Req(name="e", n=5)]))
        assert rs == [Resp(text="d", seq=0), Resp(text="d", seq=1)], rs

        # 5. conversational use: next request depends on previous reply
        from betterproto.grpc.util.async_channel import AsyncChannel
        ch = AsyncChannel()
        await ch.send_from([Req(name="q0", n=1)])
        seen = []
        async for resp in stub.chat(ch):
            seen.append(resp)
            if len(seen) < 4:
                await ch.send_from([Req(name=f"q{len(seen)}", n=1)])
            else:
                ch.close()
        assert seen == [Resp(text=f"q{i}", seq=0) for i in range(4)], seen

        assert await stub.say(Req(name="alive")) == Resp(text="ALIVE", seq=0)


async def test_options():
    """call-level timeout / deadline / metadata beat stub-level ones, None falls back"""
    svc = Svc()
    seen = {}

    def probe(route, stream):
        md = {k: v for k, v in stream.metadata.items() if k.startswith("x-")}
        seen["last"] = (route, md, None if stream.deadline is None else stream.deadline.time_remaining())

    async with ChannelFor([with_stream_probe(svc, probe)]) as channel:
        calls = {
            "/shop.v1.Echo/Say": lambda st, **kw: st.say(Req(name="o"), **kw),
            "/shop.v1.Echo/Many": lambda st, **kw: collect_stream(st.many(Req(name="o", n=2), **kw)),
            "/shop.v1.Echo/Collect": lambda st, **kw: st.collect([Req(name="o")], **kw),
            "/shop.v1.Echo/Chat": lambda st, **kw: collect_stream(st.chat([Req(name="o", n=1)], **kw)),
        }
        md_values = [None, {"x-a": "1"}, [("x-b", "2"), ("x-c", "3")], {}]
        t_values = [None, 50.0, 500.0]
        for route, call in calls.items():
            for s_md in md_values:
                for c_md in md_values:
                    for s_t in t_values:
                        for c_t in t_values:
                            for use_deadline in (False, True):
                                if use_deadline:
                                    s_kw = dict(deadline=None if s_t is None else Deadline.from_timeout(s_t))
                                    c_kw = dict(deadline=None if c_t is None else Deadline.from_timeout(c_t))
                                else:
                                    s_kw = dict(timeout=s_t)
                                    c_kw = dict(timeout=c_t)
                                stub = EchoStub(channel, metadata=s_md, **s_kw)
                                seen.clear()
                                await call(stub, metadata=c_md, **c_kw)
                                r, md, remaining = seen["last"]
                                assert r == route
                                eff_md = s_md if c_md is None else c_md
                                assert md == dict(eff_md or {}), (route, s_md, c_md, md)
                                eff_t = s_t if c_t is None else c_t
                                if eff_t is None:
                                    assert remaining is None, (route, s_t, c_t, remaining)
                                else:
                                    assert eff_t - 5 < remaining <= eff_t, (route, s_t, c_t, remaining)


class FakeStream:
    def __init__(self, log, replies):
        self.log = log
        self.replies = list(replies)

    async def send_request(self):
        self.log.append(("send_request",))

    async def send_message(self, message, *, end=False):
        self.log.append(("send_message", message, end))

    async def end(self):
        self.log.append(("end",))

    async def recv_message(self):
        await asyncio.sleep(0)
        reply = self.replies.pop(0) if self.replies else None
        self.log.append(("recv_message", reply))
        return reply

    def __aiter__(self):
        return self

    async def __anext__(self):
        m = await self.recv_message()
        if m is None:
            raise StopAsyncIteration
        return m

    async def __aenter__(self):
        self.log.append(("enter",))
        return self

    async def __aexit__(self, *exc):
        self.log.append(("exit", exc[0]))
        return None


class FakeChannel:
    def __init__(self, replies):
        self.log = []
        self.replies = replies

    def request(self, *args, **kwargs):
        self.log.append(("request", args, kwargs))
        return FakeStream(self.log, self.replies)


async def test_wire_operations():
    """exact sequence of operations the helpers perform on the channel / stream"""
    dl = Deadline.from_timeout(10)
    # unary-unary
    ch = FakeChannel([Resp(text="r")])
    stub = EchoStub(ch, timeout=3.0, metadata={"x-s": "s"})
    r = await stub.say(Req(name="a"), deadline=dl)
    assert r == Resp(text="r")
    assert ch.log == [
        ("request", ("/shop.v1.Echo/Say", Cardinality.UNARY_UNARY, Req, Resp),
         {"timeout": 3.0, "deadline": dl, "metadata": {"x-s": "s"}}),
        ("enter",),
        ("send_message", Req(name="a"), True),
        ("recv_message", Resp(text="r")),
        ("exit", None),
    ], ch.log
    # unary-unary without reply: stream is left first, then AssertionError
    ch = FakeChannel([])
    try:
        await EchoStub(ch).say(Req(name="a"))
    except AssertionError:
        pass
    else:
        raise AssertionError("no reply must fail")
    assert [e[0] for e in ch.log] == ["request", "enter", "send_message", "recv_message", "exit"]
    assert ch.log[-1] == ("exit", None)
    assert ch.log[0][2] == {"timeout": None, "deadline": None, "metadata": None}
    # stream-unary
    for n in range(4):
        reqs = [Req(name=str(i)) for i in range(n)]
        for src in (reqs, agen(reqs)):
            ch = FakeChannel([Resp(text="sum")])
            r = await EchoStub(ch, deadline=dl).collect(src, timeout=0, metadata=[])
            assert r == Resp(text="sum")
            assert ch.log == [
                ("request", ("/shop.v1.Echo/Collect", Cardinality.STREAM_UNARY, Req, Resp),
                 {"timeout": 0, "deadline": dl, "metadata": []}),
                ("enter",),
                ("send_request",),
                *[("send_message", q, False) for q in reqs],
                ("end",),
                ("recv_message", Resp(text="sum")),
                ("exit", None),
            ], ch.log
    # stream-unary: failing request source -> error leaves through the stream context
    class SrcError(Exception):
        pass

    def bad_source():
        yield Req(name="1")
        raise SrcError()

    ch = FakeChannel([Resp()])
    try:
        await EchoStub(ch).collect(bad_source())
    except SrcError:
        pass
    else:
        raise AssertionError("SrcError expected")
    assert ch.log[1:] == [("enter",), ("send_request",), ("send_message", Req(name="1"), False), ("exit", SrcError)], ch.log
    # unary-stream
    ch = FakeChannel([Resp(seq=1), Resp(seq=2)])
    rs = await collect_stream(EchoStub(ch).many(Req(name="m")))
    assert rs == [Resp(seq=1), Resp(seq=2)]
    assert [e[0] for e in ch.log] == ["request", "enter", "send_message", "recv_message", "recv_message", "recv_message", "exit"]
    # stream-stream: sender runs concurrently, every op present, stream left cleanly
    ch = FakeChannel([Resp(seq=1), Resp(seq=2), Resp(seq=3)])
    reqs = [Req(name="p"), Req(name="q")]
    rs = await collect_stream(EchoStub(ch, timeout=1.5).chat(reqs, metadata={"x-c": "c"}))
    assert rs == [Resp(seq=1), Resp(seq=2), Resp(seq=3)]
    assert ch.log[0] == ("request", ("/shop.v1.Echo/Chat", Cardinality.STREAM_STREAM, Req, Resp),
                         {"timeout": 1.5, "deadline": None, "metadata": {"x-c": "c"}})
    assert ch.log[1:3] == [("enter",), ("send_request",)]
    sends = [e for e in ch.log if e[0] in ("send_message", "end")]
    assert sends == [("send_message", reqs[0], False), ("send_message", reqs[1], False), ("end",)]
    assert ch.log[-1] == ("exit", None)
    # stream-stream: closing the response generator early cancels the sender
    never = asyncio.Event()
    state = []

    async def slow():
        try:
            yield Req(name="p")
            await never.wait()
        except asyncio.CancelledError:
            state.append("cancelled")
            raise

    ch = FakeChannel([Resp(seq=1), Resp(seq=2)])
    gen = EchoStub(ch).chat(slow())
    assert await gen.__anext__() == Resp(seq=1)
    await gen.aclose()
    await asyncio.sleep(0.01)
    assert state == ["cancelled"], state
    assert ch.log[-1] == ("exit", GeneratorExit), ch.log[-1]
    # stream-stream: responses run out while the sender is still blocked -> sender untouched
    state.clear()
    ch = FakeChannel([Resp(seq=1)])
    rs = await collect_stream(EchoStub(ch).chat(slow()))
    assert rs == [Resp(seq=1)]
    await asyncio.sleep(0.01)
    assert state == [], state
    assert ch.log[-1] == ("exit", None)
    for t in asyncio.all_tasks():
        if t is not asyncio.current_task():
            t.cancel()


async def main():
    await test_end_to_end()
    await test_bidi_cancel_paths()
    await test_options()
    await test_wire_operations()


asyncio.run(asyncio.wait_for(main(), 100))
print("C11 keep1 equiv OK")
