"""Equivalence check for the C17 keep2 refactor (Message.__post_init__).

Runs with plain asserts; exits 0 on the pristine tree and with the refactor.
Usage: PYTHONPATH=/tmp/wt/R12C17/src /venv/bin/python equiv.py
"""
import hashlib
import random
import struct
import sys
from dataclasses import dataclass
from datetime import datetime, timedelta, timezone
from typing import Dict, List, Optional

import betterproto
from betterproto import PLACEHOLDER, Message

EXPECTED_DIGEST = "caad3dbbdefeb0b93cbbc9f4ad680ddf4e2337565c4c85d771e1b5b9a112092c"


class Color(betterproto.Enum):
    ZERO = 0
    RED = 1
    NEG = -2


@dataclass(eq=False, repr=False)
class Inner(Message):
    a: int = betterproto.int32_field(1)
    s: str = betterproto.string_field(2)


@dataclass(eq=False, repr=False)
class Msg(Message):
    i32: int = betterproto.int32_field(1)
    s64: int = betterproto.sint64_field(2)
    b: bool = betterproto.bool_field(3)
    f32: int = betterproto.fixed32_field(4)
    d: float = betterproto.double_field(5)
    s: str = betterproto.string_field(6)
    by: bytes = betterproto.bytes_field(7)
    inner: Inner = betterproto.message_field(8)
    rp: List[int] = betterproto.int32_field(9)
    rf: List[int] = betterproto.fixed64_field(10)
    rs: List[str] = betterproto.string_field(11)
    m: Dict[str, int] = betterproto.map_field(
        12, betterproto.TYPE_STRING, betterproto.TYPE_INT32
    )
    o_int: int = betterproto.int32_field(13, group="grp")
    o_str: str = betterproto.string_field(14, group="grp")
    o_msg: Inner = betterproto.message_field(15, group="grp")
    e: Color = betterproto.enum_field(16)
    opt: Optional[int] = betterproto.int32_field(17, optional=True, group="_opt")
    rm: List[Inner] = betterproto.message_field(18)
    w: Optional[int] = betterproto.message_field(19, wraps=betterproto.TYPE_INT32)
    ts: datetime = betterproto.message_field(20)
    du: timedelta = betterproto.message_field(21)


FIELD_NAMES = [f for f in Msg._betterproto.meta_by_field_name]
GROUP = ("o_int", "o_str", "o_msg")


def tag(number, wire):
    return betterproto.encode_varint((number << 3) | wire)


def ld(number, payload):
    return tag(number, 2) + betterproto.encode_varint(len(payload)) + payload


def vi(number, value):
    return tag(number, 0) + betterproto.encode_varint(value & (2**64 - 1))


# ---------------------------------------------------------------- observation
def observe_attr(msg, name):
    """What reading one attribute gives: value repr or the AttributeError."""
    try:
        v = getattr(msg, name)
    except AttributeError as exc:
        extra = ()
        if sys.version_info >= (3, 10):
            extra = (exc.name, exc.obj is msg)
        return ("AttributeError", exc.args, extra)
    return ("value", type(v).__name__, repr(v))


def state(m):
    """The bookkeeping __post_init__ initialises, recursively."""
    sub = []
    for n in m._betterproto.meta_by_field_name:
        v = object.__getattribute__(m, n)
        vs = v if isinstance(v, list) else [v]
        sub += [(n, state(x)) for x in vs if isinstance(x, Message)]
    return (type(m).__name__, list(m._group_current.items()), m._serialized_on_wire,
            m._unknown_fields.hex(), sub)


def observe(data):
    """Full outcome of decoding ``data`` with Msg."""
    msg = Msg()
    try:
        msg.parse(data)
    except Exception as exc:  # noqa: BLE001 - the outcome is what we record
        return ("raise", type(exc).__name__, str(exc))
    out = ["ok"]
    # raw state before any lazy default is materialised by a read
    raw = {n: object.__getattribute__(msg, n) for n in FIELD_NAMES}
    out.append(sorted(n for n, v in raw.items() if v is PLACEHOLDER))
    out.append(list(msg._group_current.items()))
    out.append(state(msg))
    out.append(betterproto.which_one_of(msg, "grp")[0])
    for n in FIELD_NAMES:
        out.append((n, observe_attr(msg, n)))
    # which lazily created defaults were stored by those reads
    raw2 = {n: object.__getattribute__(msg, n) for n in FIELD_NAMES}
    out.append(sorted(n for n, v in raw2.items() if v is PLACEHOLDER))
    out.append(msg._unknown_fields.hex())
    out.append(msg._serialized_on_wire)
    enc = bytes(msg)
    out.append(enc.hex())
    # decodes again, to the same bytes
    again = Msg().parse(enc)
    assert bytes(again) == enc, (data, enc)
    out.append(repr(msg))
    return tuple(out)


def check_types(data):
    """Property part: accepted input => every field has its declared type."""
    msg = Msg()
    try:
        msg.parse(data)
    except Exception:  # noqa: BLE001
        return False
    sel = msg._group_current["grp"]
    assert betterproto.which_one_of(msg, "grp")[0] == (sel or "")
    for n in GROUP:
        if n != sel:
            try:
                getattr(msg, n)
            except AttributeError as exc:
                assert exc.args == (f"'grp' is set to {sel!r}, not {n!r}",), exc.args
            else:
                raise AssertionError(f"unselected oneof member {n} readable")
    py = {
        "i32": int, "s64": int, "b": bool, "f32": int, "d": float, "s": str,
        "by": bytes, "inner": Inner, "rp": list, "rf": list, "rs": list,
        "m": dict, "e": Color, "ts": datetime, "du": timedelta, "rm": list,
    }
    for n, t in py.items():
        assert isinstance(getattr(msg, n), t), (n, getattr(msg, n), data)
    assert msg.w is None or isinstance(msg.w, int)
    if "_opt" in msg._group_current and msg._group_current["_opt"] == "opt":
        assert isinstance(msg.opt, int)
    if sel == "o_int":
        assert isinstance(msg.o_int, int)
    elif sel == "o_str":
        assert isinstance(msg.o_str, str)
    elif sel == "o_msg":
        assert isinstance(msg.o_msg, Inner)
    assert all(isinstance(x, int) for x in msg.rp + msg.rf)
    assert all(isinstance(x, str) for x in msg.rs)
    assert all(isinstance(x, Inner) for x in msg.rm)
    return True


# -------------------------------------------------------------------- corpus
def valid_messages():
    inner = Inner(a=-5, s="x")
    yield Msg()
    yield Msg(i32=-1, s64=-(2**40), b=True, f32=7, d=1.5, s="héllo", by=b"\x00\xff")
    yield Msg(inner=inner, rp=[1, -2, 300], rf=[1, 2**63], rs=["a", ""], m={"k": 1, "": 0})
    yield Msg(o_int=0)
    yield Msg(o_int=77)
    yield Msg(o_str="")
    yield Msg(o_str="sel")
    yield Msg(o_msg=Inner())
    yield Msg(o_msg=inner)
    yield Msg(e=Color.RED, opt=0, rm=[Inner(), inner], w=0)
    yield Msg(e=Color.NEG, opt=5, w=9, ts=datetime(2020, 1, 2, 3, 4, 5, tzinfo=timezone.utc), du=timedelta(seconds=3, microseconds=7))


def corpus():
    rnd = random.Random(1217)
    out = [b""]
    encs = [bytes(m) for m in valid_messages()]
    out += encs
    # oneof switching: every ordered pair / triple of members in one stream
    members = [vi(13, 0), vi(13, 5), ld(14, b""), ld(14, b"ab"), ld(15, b""), ld(15, vi(1, 3))]
    for x in members:
        for y in members:
            out.append(x + y)
            for z in members[::2]:
                out.append(x + vi(1, 9) + y + z)
    # all truncation points
    for e in encs:
        for k in range(len(e)):
            out.append(e[:k])
    # single-byte corruptions of every position (tags, lengths, payload)
    for e in encs:
        for k in range(len(e)):
            for _ in range(3):
                out.append(e[:k] + bytes([rnd.randrange(256)]) + e[k + 1 :])
    # wire-type substitution on every field number (and unknown ones, and 0)
    payloads = {
        0: betterproto.encode_varint(300),
        1: struct.pack("<d", 2.5),
        2: b"\x03abc",
        3: b"",
        4: b"",
        5: struct.pack("<f", 2.5),
        6: b"",
        7: b"",
    }
    for number in list(range(0, 24)) + [1000]:
        for wire, p in payloads.items():
            out.append(tag(number, wire) + p)
            out.append(vi(13, 4) + tag(number, wire) + p + ld(6, b"tail"))
            out.append(ld(14, b"s") + tag(number, wire) + p)
    # arbitrary random byte strings
    for _ in range(1500):
        out.append(bytes(rnd.randrange(256) for _ in range(rnd.randrange(1, 24))))
    # random strings built from plausible pieces
    pieces = members + [vi(1, 1), vi(17, 0), ld(8, vi(1, 2)), ld(12, ld(1, b"k") + vi(2, 3)),
                        ld(9, b"\x01\x02"), ld(19, vi(1, 4)), ld(20, vi(1, 10)), ld(21, vi(2, 5000)),
                        vi(16, -2), vi(99, 1), tag(13, 5) + b"abcd", tag(14, 0) + b"\x01"]
    for _ in range(800):
        out.append(b"".join(rnd.choice(pieces) for _ in range(rnd.randrange(1, 6))))
    return out


@dataclass(eq=False, repr=False)
class Empty(Message):
    pass


@dataclass(eq=False, repr=False)
class Inter(Message):
    """Two interleaved oneof groups, optional fields and a field-less message."""

    plain: int = betterproto.int32_field(1)
    y1: int = betterproto.int32_field(2, group="gB")
    x1: int = betterproto.int32_field(3, group="gA")
    y2: str = betterproto.string_field(4, group="gB")
    x2: Empty = betterproto.message_field(5, group="gA")
    opt: Optional[int] = betterproto.int32_field(6, optional=True, group="_opt")
    optm: Optional[Inner] = betterproto.message_field(7, optional=True, group="_optm")
    emp: Empty = betterproto.message_field(8)
    w: Optional[int] = betterproto.message_field(9, wraps=betterproto.TYPE_INT32)
    lst: List[int] = betterproto.int32_field(10)


def post_init_direct_checks():
    """The touched function, directly: constructor arguments of every kind."""
    none4 = [("gB", None), ("gA", None), ("_opt", None), ("_optm", None)]
    m = Inter()
    assert list(m._group_current.items()) == none4
    assert m._serialized_on_wire is False and m._unknown_fields == b""
    assert bytes(m) == b""
    cases = [
        (dict(plain=0), {}, True),
        (dict(plain=5), {}, True),
        (dict(y1=0), {"gB": "y1"}, True),
        (dict(y2=""), {"gB": "y2"}, True),
        (dict(x1=3), {"gA": "x1"}, True),
        (dict(x2=Empty()), {"gA": "x2"}, True),
        (dict(x1=1, y2="s"), {"gA": "x1", "gB": "y2"}, True),
        (dict(opt=None), {}, False),
        (dict(opt=0), {"_opt": "opt"}, True),
        (dict(optm=None), {}, False),
        (dict(optm=Inner()), {"_optm": "optm"}, True),
        (dict(opt=None, optm=None), {}, False),
        (dict(w=None), {}, True),   # not a proto3-optional field: None counts as a value
        (dict(w=0), {}, True),
        (dict(emp=Empty()), {}, True),
        (dict(lst=[]), {}, True),
        (dict(lst=[1, 2]), {}, True),
    ]
    for kwargs, sel, on_wire in cases:
        m = Inter(**kwargs)
        want = [(g, sel.get(g)) for g, _ in none4]
        assert list(m._group_current.items()) == want, (kwargs, m._group_current)
        assert m._serialized_on_wire is on_wire, kwargs
        assert m._unknown_fields == b""
        for g, _ in none4:
            assert betterproto.which_one_of(m, g)[0] == (sel.get(g) or "")
        enc = bytes(m)
        back = Inter().parse(enc)
        assert bytes(back) == enc
        for g in sel:
            assert back._group_current[g] == sel[g], (kwargs, back._group_current)
    # a field-less message handed to a constructor is marked as present
    e = Empty()
    assert e._serialized_on_wire is False and e._group_current == {}
    m = Inter(emp=e)
    assert e._serialized_on_wire is True
    assert bytes(m) == ld(8, b"")
    e2 = Empty()
    assert bytes(Inter(x2=e2)) == ld(5, b"") and e2._serialized_on_wire is True
    # ... but a message with fields is not touched
    inn = Inner()
    Inter(optm=inn)
    assert inn._serialized_on_wire is False
    # messages the decoder creates itself: nested, repeated, map entry, wrapper
    m = Msg().parse(ld(8, b"") + ld(18, b"") + ld(18, vi(1, 1)) + ld(15, b"") + ld(12, b"") + ld(19, b""))
    assert m.inner._serialized_on_wire is True and m.inner._group_current == {}
    assert [x._serialized_on_wire for x in m.rm] == [True, True]
    assert m._group_current == {"grp": "o_msg", "_opt": None}
    assert m.m == {"": 0} and m.w == 0
    # later duplicates of two members: the last one wins, earlier ones are unset
    m = Inter().parse(vi(2, 7) + ld(4, b"q") + vi(3, 1) + ld(5, b""))
    assert list(m._group_current.items()) == [("gB", "y2"), ("gA", "x2"), ("_opt", None), ("_optm", None)]
    assert object.__getattribute__(m, "y1") is PLACEHOLDER and object.__getattribute__(m, "x1") is PLACEHOLDER
    # wire-type mismatch on oneof members leaves the groups alone
    m = Inter().parse(tag(2, 2) + b"\x01a" + tag(5, 0) + b"\x01" + tag(6, 5) + b"abcd")
    assert list(m._group_current.items()) == none4
    assert m._unknown_fields == tag(2, 2) + b"\x01a" + tag(5, 0) + b"\x01" + tag(6, 5) + b"abcd"


def main():
    post_init_direct_checks()
    inputs = corpus()
    h = hashlib.sha256()
    accepted = rejected = 0
    for data in inputs:
        o = observe(data)
        h.update(repr((data, o)).encode())
        if check_types(data):
            accepted += 1
            assert o[0] == "ok"
        else:
            rejected += 1
            assert o[0] == "raise"
    # truncations that cut a field in the middle are rejected
    for e in (bytes(m) for m in valid_messages()):
        bounds = set()
        pos = 0
        for f in betterproto.parse_fields(e):
            pos += len(f.raw)
            bounds.add(pos)
        for k in range(1, len(e)):
            if k not in bounds:
                assert observe(e[:k])[0] == "raise", (e, k)
    digest = h.hexdigest()
    print(f"inputs={len(inputs)} accepted={accepted} rejected={rejected} digest={digest}")
    assert accepted > 500 and rejected > 500
    assert digest == EXPECTED_DIGEST, digest
    print("equiv OK")


if __name__ == "__main__":
    main()
