"""Equivalence check for the varint readers (load_varint / decode_varint).

Compares them with an independent spec-level decoder over boundary values, random
values, every legal amount of zero padding, truncations and over-long inputs, and
then end to end against google.protobuf on messages whose tags, lengths, scalars and
packed elements are written with padded varints.
"""
import io
import random
from dataclasses import dataclass
from typing import List

from google.protobuf import descriptor_pb2, descriptor_pool, message_factory

import betterproto
from betterproto import decode_varint, encode_varint, load_varint

rnd = random.Random(20261004)


# ----------------------------------------------------------- independent helpers
def enc(value: int, width: int = 0) -> bytes:
    """Spec-level varint writer; ``width`` pads with 0x80 ... 0x00 up to that size."""
    assert 0 <= value < 1 << 64
    out = []
    while True:
        out.append(value & 0x7F)
        value >>= 7
        if not value:
            break
    while len(out) < width:
        out.append(0)
    assert len(out) <= 10
    return bytes(b | 0x80 for b in out[:-1]) + bytes(out[-1:])


def spec_decode(buf: bytes, pos: int):
    """Returns ("ok", value, newpos) | ("eof",) | ("long",)."""
    result = 0
    n = 0
    while True:
        if n == 10:
            return ("long",)
        if pos >= len(buf):
            return ("eof",)
        b = buf[pos]
        pos += 1
        result |= (b & 0x7F) << (7 * n)
        n += 1
        if not b & 0x80:
            return ("ok", result, pos)


def run_decode(buf: bytes, pos: int):
    try:
        value, newpos = decode_varint(buf, pos)
    except EOFError:
        return ("eof",)
    except ValueError:
        return ("long",)
    assert type(value) is int and type(newpos) is int
    return ("ok", value, newpos)


def run_load(buf: bytes, pos: int, with_first: bool):
    stream = io.BytesIO(buf)
    stream.seek(pos)
    first = stream.read(1) if with_first else b""
    try:
        value, raw = load_varint(stream, first) if with_first else load_varint(stream)
    except EOFError:
        return ("eof",), stream.tell()
    except ValueError:
        return ("long",), stream.tell()
    assert type(raw) is bytes
    assert raw == buf[pos : pos + len(raw)]
    # the stream is left exactly behind the varint
    assert stream.tell() == pos + len(raw)
    return ("ok", value, pos + len(raw)), stream.tell()


def check(buf: bytes, pos: int):
    want = spec_decode(buf, pos)
    assert run_decode(buf, pos) == want, (buf, pos, want)
    got, tell = run_load(buf, pos, False)
    assert got == want, (buf, pos, want, got)
    if want == ("long",):
        # exactly ten bytes were consumed, the eleventh is not touched
        assert tell == pos + 10, (buf, pos, tell)
    if pos < len(buf):
        got, tell = run_load(buf, pos, True)
        assert got == want, (buf, pos, want, got)
        if want == ("long",):
            assert tell == pos + 10
    return want


# ------------------------------------------------------------------ value corpus
values = {0, 1, 2, 126, 127, 128, 129, 255, 256, 300, 16383, 16384, (1 << 64) - 1}
for k in range(1, 65):
    for d in (-2, -1, 0, 1):
        v = (1 << k) + d
        if 0 <= v < 1 << 64:
            values.add(v)
for _ in range(3000):
    values.add(rnd.getrandbits(rnd.randint(1, 64)))
values = sorted(values)

count_ok = 0
for v in values:
    minimal = enc(v)
    assert encode_varint(v) == minimal
    for width in range(len(minimal), 11):
        data = enc(v, width)
        assert len(data) == width
        for prefix, suffix in ((b"", b""), (b"\x80\xff\x01", b"\xff\x80"), (b"\x00", b"\x00")):
            buf = prefix + data + suffix
            want = check(buf, len(prefix))
            assert want == ("ok", v, len(prefix) + width), (v, width, want)
            count_ok += 1
        # every proper truncation ends in EOF, never in a value
        for cut in range(width):
            assert check(data[:cut], 0) == ("eof",)
        # other buffer types that support indexing
        assert decode_varint(bytearray(data), 0) == (v, width)

# negative numbers are written as 10-byte two's complement and read back unsigned
for v in (-1, -2, -128, -(1 << 31), -(1 << 63), -(1 << 63) + 1):
    data = encode_varint(v)
    assert len(data) == 10
    assert check(data, 0) == ("ok", v + (1 << 64), 10)

# start positions at / beyond the end
for buf in (b"", b"\x01", b"\x80"):
    for pos in (len(buf), len(buf) + 1, len(buf) + 7):
        assert run_decode(buf, pos) == ("eof",)
assert check(b"\x80", 0) == ("eof",)

# over-long varints: ten continuation bytes
for tail in (b"", b"\x00", b"\x01", b"\x80", b"\x80\x80\x01"):
    assert check(b"\x80" * 10 + tail, 0) == ("long",)
    assert check(b"\xff" * 10 + tail, 0) == ("long",)
    assert check(b"\x05" + b"\x80" * 10 + tail, 1) == ("long",)
# ...but nine continuation bytes and then the end of input is a truncation
assert check(b"\x80" * 9, 0) == ("eof",)
# the tenth byte may carry more than the one significant bit: it is kept as read
assert check(b"\xff" * 9 + b"\x7f", 0) == ("ok", (1 << 70) - 1, 10)

# random byte soup from random positions
for _ in range(20000):
    buf = bytes(rnd.choice((0x00, 0x01, 0x7F, 0x80, 0x81, 0xFF, rnd.randrange(256)))
                for _ in range(rnd.randint(0, 14)))
    check(buf, rnd.randint(0, len(buf)))

# consecutive varints read from one stream / one buffer
seq = [rnd.choice(values) for _ in range(500)]
widths = [rnd.randint(len(enc(v)), 10) for v in seq]
blob = b"".join(enc(v, w) for v, w in zip(seq, widths))
stream = io.BytesIO(blob)
pos = 0
for v, w in zip(seq, widths):
    assert load_varint(stream) == (v, enc(v, w))
    value, pos2 = decode_varint(blob, pos)
    assert (value, pos2) == (v, pos + w)
    pos = pos2
assert pos == len(blob) and stream.read() == b""

# ------------------------------------------------ end to end against the reference
F = descriptor_pb2.FieldDescriptorProto
fdp = descriptor_pb2.FileDescriptorProto(
    name="c02_keep1_equiv.proto", package="c02keep1", syntax="proto3"
)
m = fdp.message_type.add(name="Nums")
for i, (name, ftype, label) in enumerate(
    [
        ("a", F.TYPE_INT32, F.LABEL_OPTIONAL),
        ("b", F.TYPE_INT64, F.LABEL_OPTIONAL),
        ("c", F.TYPE_UINT64, F.LABEL_OPTIONAL),
        ("d", F.TYPE_SINT32, F.LABEL_OPTIONAL),
        ("e", F.TYPE_BOOL, F.LABEL_OPTIONAL),
        ("s", F.TYPE_STRING, F.LABEL_OPTIONAL),
        ("ra", F.TYPE_INT32, F.LABEL_REPEATED),
        ("rb", F.TYPE_SINT64, F.LABEL_REPEATED),
        ("rc", F.TYPE_UINT32, F.LABEL_REPEATED),
        ("re", F.TYPE_BOOL, F.LABEL_REPEATED),
    ],
    start=1,
):
    m.field.add(name=name, number=i if i < 10 else 2000 + i, type=ftype, label=label)
pool = descriptor_pool.DescriptorPool()
pool.Add(fdp)
RefNums = message_factory.GetMessageClass(pool.FindMessageTypeByName("c02keep1.Nums"))


@dataclass(eq=False, repr=False)
class Nums(betterproto.Message):
    a: int = betterproto.int32_field(1)
    b: int = betterproto.int64_field(2)
    c: int = betterproto.uint64_field(3)
    d: int = betterproto.sint32_field(4)
    e: bool = betterproto.bool_field(5)
    s: str = betterproto.string_field(6)
    ra: List[int] = betterproto.int32_field(7)
    rb: List[int] = betterproto.sint64_field(8)
    rc: List[int] = betterproto.uint32_field(9)
    re: List[bool] = betterproto.bool_field(2010)


NAMES = ["a", "b", "c", "d", "e", "s", "ra", "rb", "rc", "re"]


def same(bp, ref):
    for name in NAMES:
        x, y = getattr(bp, name), getattr(ref, name)
        if isinstance(x, list):
            y = list(y)
        assert x == y and type(x) is type(y), (name, x, y)


def zz(n):
    return (n << 1) ^ (n >> 63)


def u64(n):
    return n & ((1 << 64) - 1)


def pad():
    return rnd.randint(0, 10)


def w(value, at_least):
    return enc(value, min(10, max(at_least, len(enc(value)))))


def rand_i32():
    return rnd.choice([0, 1, -1, 127, 128, -128, 2**31 - 1, -(2**31), rnd.randint(-(2**31), 2**31 - 1)])


def rand_i64():
    return rnd.choice([0, 1, -1, 2**63 - 1, -(2**63), rnd.randint(-(2**63), 2**63 - 1)])


for _ in range(400):
    vals = dict(
        a=rand_i32(),
        b=rand_i64(),
        c=rnd.choice([0, 1, 2**64 - 1, rnd.getrandbits(64)]),
        d=rand_i32(),
        e=rnd.random() < 0.5,
        s="".join(rnd.choice("aé中\U0001f600 ") for _ in range(rnd.randint(0, 70))),
        ra=[rand_i32() for _ in range(rnd.randint(0, 6))],
        rb=[rand_i64() for _ in range(rnd.randint(0, 6))],
        rc=[rnd.getrandbits(32) for _ in range(rnd.randint(0, 6))],
        re=[rnd.random() < 0.5 for _ in range(rnd.randint(0, 6))],
    )
    ref = RefNums(**vals)
    bp = Nums(**vals)

    # canonical bytes in both directions
    same(Nums().parse(ref.SerializeToString()), ref)
    same(bp, RefNums.FromString(bytes(bp)))

    # hand-written encodings of the same message in which every tag, length,
    # scalar and packed element is a (randomly) padded varint. The reference reads
    # tags and lengths of at most five bytes, so the first variant stays below that
    # and is decoded by both; the second pads them up to ten bytes (betterproto only).
    def build(limit):
        def key(number, wt):
            return w((number << 3) | wt, rnd.randint(0, limit))

        def length(n):
            return w(n, rnd.randint(0, limit))

        def packed(number, items):
            body = b"".join(w(x, pad()) for x in items)
            return key(number, 2) + length(len(body)) + body

        sb = vals["s"].encode("utf-8")
        parts = [
            key(1, 0) + w(u64(vals["a"]), pad()),
            key(2, 0) + w(u64(vals["b"]), pad()),
            key(3, 0) + w(vals["c"], pad()),
            key(4, 0) + w(zz(vals["d"]), pad()),
            key(5, 0) + w(int(vals["e"]), pad()),
            key(6, 2) + length(len(sb)) + sb,
            packed(7, [u64(x) for x in vals["ra"]]),
            packed(8, [zz(x) for x in vals["rb"]]),
            packed(9, vals["rc"]),
            packed(2010, [int(x) for x in vals["re"]]),
        ]
        rnd.shuffle(parts)
        return b"".join(parts)

    alt = build(5)
    ref_alt = RefNums.FromString(alt)
    assert ref_alt == ref
    same(Nums().parse(alt), ref_alt)
    same(Nums().parse(build(10)), ref)

    # truncating the alternative encoding anywhere never yields more than a prefix:
    # either a clean error or a message (when the cut falls on a field boundary)
    cut = rnd.randint(0, len(alt))
    try:
        Nums().parse(alt[:cut])
    except (EOFError, ValueError):
        pass

print("ok", count_ok)
