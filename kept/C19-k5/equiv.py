"""Equivalence check for the refactor that computes the emitted JSON keys of a class
once (ProtoClassMetadata.cased_names) instead of re-casing every field name on every
to_dict / to_pydict call and separately again for the from_dict key table.

Everything is compared against the specification written out here:
    emitted key         = casing(field_name).rstrip("_")
    field_name_by_key   = first-wins over (field, CAMEL), (field, SNAKE) in field order,
                          then every own field name overrides
    from_dict(key)      = field_name_by_key.get(key) or safe_snake_case(key)
"""
import itertools
import keyword
import builtins
from dataclasses import dataclass, make_dataclass
from typing import Dict, List

import betterproto
from betterproto import Casing
from betterproto.casing import camel_case, safe_snake_case, snake_case
from betterproto.compile.naming import pythonize_field_name


def make(py_names, name="M"):
    return make_dataclass(
        name,
        [(n, int, betterproto.int32_field(i + 1)) for i, n in enumerate(py_names)],
        bases=(betterproto.Message,),
        eq=False,
        repr=False,
    )


def expected_table(py_names):
    table = {}
    for n in py_names:
        for casing in (camel_case, snake_case):
            table.setdefault(casing(n).rstrip("_"), n)
    table.update((n, n) for n in py_names)
    return table


class UnhashableCasing:
    """A casing callable that cannot be a dict key."""

    __hash__ = None

    def __eq__(self, other):
        return self is other

    def __call__(self, value):
        return "X" + value.upper() + "__"


def shout(value):
    return value.upper() + "_"


CASINGS = [
    ("camel", Casing.CAMEL, camel_case),
    ("snake", Casing.SNAKE, snake_case),
    ("camel-fn", camel_case, camel_case),
    ("lambda", (lambda v: "k-" + v), (lambda v: "k-" + v)),
    ("shout", shout, shout),
    ("unhashable", UnhashableCasing(), UnhashableCasing()),
]


def check_class(py_names):
    cls = make(py_names)
    values = {n: i + 1 for i, n in enumerate(py_names)}
    msg = cls(**values)

    # the table from_dict uses, entry for entry and in the same insertion order
    assert list(cls._betterproto.field_name_by_key.items()) == list(
        expected_table(py_names).items()
    ), py_names

    for label, casing, ref in CASINGS:
        want_keys = [ref(n).rstrip("_") for n in py_names]
        want: Dict[str, int] = {}
        for k, n in zip(want_keys, py_names):
            want[k] = values[n]  # a later field overwrites a colliding key
        for _ in range(2):  # second call goes through whatever was cached
            got = msg.to_dict(casing=casing)
            assert got == want and list(got) == list(want), (label, py_names, got)
            got = msg.to_pydict(casing=casing)
            assert got == want and list(got) == list(want), (label, py_names, got)
            got.clear()  # results must not be shared between calls
        zero = cls()
        want0 = {}
        for k in want_keys:
            want0[k] = 0
        got0 = zero.to_dict(casing=casing, include_default_values=True)
        assert got0 == want0 and list(got0) == list(want0), (label, py_names, got0)
        got0 = zero.to_pydict(casing=casing, include_default_values=True)
        assert got0 == want0 and list(got0) == list(want0), (label, py_names, got0)
        assert zero.to_dict(casing=casing) == {}
    # default casing is camelCase
    assert msg.to_dict() == msg.to_dict(casing=Casing.CAMEL)
    assert msg.to_pydict() == msg.to_pydict(casing=Casing.CAMEL)
    return cls


def check_single(proto_name):
    py_name = pythonize_field_name(proto_name)
    assert py_name.isidentifier() and not keyword.iskeyword(py_name)
    assert pythonize_field_name(py_name) == py_name
    cls = check_class([py_name])
    keys = {proto_name, py_name, camel_case(py_name).rstrip("_")}
    keys.add(snake_case(py_name).rstrip("_"))
    for key in keys:
        for back in (
            cls().from_dict({key: 5}),
            cls.from_dict({key: 5}),
            cls().from_pydict({key: 5}),
        ):
            assert getattr(back, py_name) == 5, (proto_name, py_name, key)
    # an unrelated key is ignored
    assert getattr(cls().from_dict({"zzUnrelated9": 5}), py_name) == 0
    # JSON round trip in both casings
    m = cls(**{py_name: 9})
    for casing in (Casing.CAMEL, Casing.SNAKE):
        assert getattr(cls().from_json(m.to_json(casing=casing)), py_name) == 9


# ---------------------------------------------------------------- single fields
CORPUS = [
    "address_line_1", "address_line1", "ipv4_address", "x_y_z", "x_yz", "HTTPStatus",
    "userID", "UserName", "sha256", "sha_256", "created_at", "Type", "Id", "_", "__",
    "_1", "_1x", "_1_foo", "a__b", "a_", "_a", "A", "a1b2", "A1B2", "fooBar", "FOO_BAR",
    "foo_bar_", "in", "In", "IN", "in_", "None", "none", "self", "cls", "match", "case",
    "type", "print", "id", "list", "GetUInt64", "UInt32", "HTTP2xx", "oauth2_token",
    "utf8", "x", "X", "z9", "value", "key",
]
names = list(CORPUS)
names += keyword.kwlist + keyword.softkwlist
names += [k.capitalize() for k in keyword.kwlist] + [k.upper() for k in keyword.kwlist]
names += [b for b in dir(builtins) if b.isidentifier()]
# exhaustive short identifiers (legal proto identifiers: no leading digit)
for alphabet, max_len in (("aB1_", 6), ("abAB12_", 4)):
    for length in range(1, max_len + 1):
        for chars in itertools.product(alphabet, repeat=length):
            if not chars[0].isdigit():
                names.append("".join(chars))

seen_py = set()
count = 0
for proto_name in names:
    key = (pythonize_field_name(proto_name), proto_name)
    # one class per distinct (python name); every proto spelling is still tried below
    if key[0] in seen_py:
        py_name = key[0]
        cls = make([py_name])
        for back in (cls().from_dict({proto_name: 5}), cls().from_pydict({proto_name: 5})):
            assert getattr(back, py_name) == 5, (proto_name, py_name)
        continue
    seen_py.add(key[0])
    check_single(proto_name)
    count += 1

# ---------------------------------------------------------------- several fields
MULTI = [
    ["a_1", "a1"],
    ["a1", "a_1"],
    ["x_y_z", "x_yz"],
    ["x_yz", "x_y_z"],
    ["address_line_1", "address_line1", "address_line"],
    ["in_", "is_", "not_", "in_1"],
    ["_1", "_1_foo", "foo"],
    ["foo_bar", "foo_baz", "foo", "bar"],
    ["http_status", "http2_xx", "sha_256", "sha256", "sha_2_5_6"],
    ["a", "b", "c", "a_b", "a_c", "b_c", "a_b_c", "ab", "abc"],
]
for py_names in MULTI:
    for n in py_names:
        assert pythonize_field_name(n) == n, n
    cls = check_class(py_names)
    table = expected_table(py_names)
    for key, field in table.items():
        back = cls().from_dict({key: 3})
        for n in py_names:
            assert getattr(back, n) == (3 if n == field else 0), (py_names, key, n)
        back = cls().from_pydict({key: 3})
        for n in py_names:
            assert getattr(back, n) == (3 if n == field else 0), (py_names, key, n)
    # full round trip in snake casing is exact (snake keys never collide)
    msg = cls(**{n: i + 1 for i, n in enumerate(py_names)})
    assert cls().from_dict(msg.to_dict(casing=Casing.SNAKE)) == msg
    assert cls().from_pydict(msg.to_pydict(casing=Casing.SNAKE)) == msg


# ---------------------------------------------------------------- nesting: casing is passed down
@dataclass(eq=False, repr=False)
class Inner(betterproto.Message):
    address_line_1: str = betterproto.string_field(1)
    in_: int = betterproto.int32_field(2)


@dataclass(eq=False, repr=False)
class Outer(betterproto.Message):
    the_inner: Inner = betterproto.message_field(1)
    inner_list: List[Inner] = betterproto.message_field(2)
    inner_map: Dict[str, Inner] = betterproto.map_field(
        3, betterproto.TYPE_STRING, betterproto.TYPE_MESSAGE
    )
    x_y_z: int = betterproto.int32_field(4)


outer = Outer(
    the_inner=Inner("a", 1),
    inner_list=[Inner("b", 2), Inner("", 3)],
    inner_map={"some_key": Inner("c", 4)},
    x_y_z=5,
)
assert outer.to_dict() == {
    "theInner": {"addressLine1": "a", "in": 1},
    "innerList": [{"addressLine1": "b", "in": 2}, {"in": 3}],
    "innerMap": {"some_key": {"addressLine1": "c", "in": 4}},
    "xYZ": 5,
}
assert outer.to_dict(casing=Casing.SNAKE) == {
    "the_inner": {"address_line_1": "a", "in": 1},
    "inner_list": [{"address_line_1": "b", "in": 2}, {"in": 3}],
    "inner_map": {"some_key": {"address_line_1": "c", "in": 4}},
    "x_y_z": 5,
}
assert outer.to_pydict() == {
    "theInner": {"addressLine1": "a", "in": 1},
    "innerList": [{"addressLine1": "b", "in": 2}, {"in": 3}],
    "innerMap": {"some_key": {"addressLine1": "c", "in": 4}},
    "xYZ": 5,
}
assert outer.to_dict(casing=shout) == {
    "THE_INNER": {"ADDRESS_LINE_1": "a", "IN": 1},
    "INNER_LIST": [{"ADDRESS_LINE_1": "b", "IN": 2}, {"IN": 3}],
    "INNER_MAP": {"some_key": {"ADDRESS_LINE_1": "c", "IN": 4}},
    "X_Y_Z": 5,
}
for casing in (Casing.CAMEL, Casing.SNAKE):
    assert Outer().from_dict(outer.to_dict(casing=casing)) == outer
    assert Outer().from_pydict(outer.to_pydict(casing=casing)) == outer
    assert Outer().from_json(outer.to_json(casing=casing)) == outer


# a subclass-free second class with the same field names has its own table
@dataclass(eq=False, repr=False)
class Other(betterproto.Message):
    in_: int = betterproto.int32_field(1)
    other_field_2: int = betterproto.int32_field(2)


assert Other(1, 2).to_dict() == {"in": 1, "otherField2": 2}
assert Inner("q", 1).to_dict() == {"addressLine1": "q", "in": 1}
assert Other().from_dict({"otherField2": 2, "in": 1}) == Other(1, 2)

print(f"ok ({count} single-field classes, {len(names)} spellings)")
