"""Equivalence check for the C20 refactor of the number lookup in betterproto/enum.py
(EnumType.__call__ and Enum.try_value now share one helper).

Exercises, for many randomly generated enum definitions (negative numbers, gaps,
aliases, with and without a zero member) and a few hand-written ones:
  * closed lookup by number  E(n)      -- canonical member / ValueError
  * open lookup by number    E.try_value(n) -- canonical member / placeholder
  * lookup by name (E[name], E.from_string, attribute access)
  * the error paths (unhashable / non-integer arguments)
  * copy / deepcopy / pickle of members and placeholders, immutability
  * messages with enum fields in singular, repeated, map-value, optional and oneof
    position through bytes/parse and to_dict/from_dict, cross-checked against
    google.protobuf built from an equivalent dynamic descriptor
and compares the closed lookup against the standard library's enum.IntEnum.
"""
import copy
import enum as std_enum
import json
import pickle
import random
from dataclasses import dataclass
from typing import Dict, List, Optional

import betterproto
from betterproto.enum import EnumType


INT32_MIN, INT32_MAX = -(2**31), 2**31 - 1
rng = random.Random(20)


def make_enum(name, members):
    """members: list of (name, number) in declaration order."""
    ns = dict(members)
    ns["__module__"] = __name__
    ns["__qualname__"] = name
    E = EnumType(name, (betterproto.Enum,), ns)
    globals()[name] = E  # so that pickle finds the class
    return E


def random_members(i):
    count = rng.randint(1, 8)
    pool = [0, 1, 2, 3, -1, -2, 5, 100, INT32_MIN, INT32_MAX, 2**16, -(2**16)]
    pool += [rng.randint(INT32_MIN, INT32_MAX) for _ in range(4)]
    members = []
    for k in range(count):
        if members and rng.random() < 0.3:
            number = rng.choice(members)[1]  # alias
        else:
            number = rng.choice(pool)
        members.append((f"M{i}_{k}", number))
    if rng.random() < 0.5 and all(n != 0 for _, n in members):
        members.insert(0, (f"M{i}_ZERO", 0))
    return members


PROBES = [0, 1, -1, 2, 3, 5, 7, 99, -99, 127, 128, 255, 256, 2**16, -(2**16),
          INT32_MIN, INT32_MIN + 1, INT32_MAX, INT32_MAX - 1]


def check_enum_api(E, members):
    first_name = {}
    for name, number in members:
        first_name.setdefault(number, name)
    std = std_enum.IntEnum(E.__name__, members)

    # maps: declared names all present, numbers map to first declared name
    assert list(E.__members__) == [n for n, _ in members]
    assert len(E) == len(members)
    assert [m.name for m in E] == [first_name[num] for _, num in members]
    assert [m.name for m in reversed(E)] == [first_name[num] for _, num in members][::-1]

    for name, number in members:
        canonical = E(number)
        assert type(canonical) is E
        assert canonical.name == first_name[number] == std(number).name
        assert canonical.value == number and int(canonical) == number
        assert canonical == number and hash(canonical) == hash(number)
        # every way of looking it up gives the same object
        assert E[name] is canonical
        assert E.from_string(name) is canonical
        assert getattr(E, name) is canonical
        assert E.try_value(number) is canonical
        assert E(canonical) is canonical and E.try_value(canonical) is canonical
        assert E(True) is E(1) if 1 in first_name else True
        # float / bool keys that compare equal to the number hit the same entry
        assert E(float(number)) is canonical
        assert E.try_value(float(number)) is canonical
        assert canonical in E
        # copy / deepcopy keep identity, pickle keeps name and number
        assert copy.copy(canonical) is canonical
        assert copy.deepcopy(canonical) is canonical
        assert copy.deepcopy([canonical, {"k": canonical}])[1]["k"] is canonical
        for proto in range(pickle.HIGHEST_PROTOCOL + 1):
            back = pickle.loads(pickle.dumps(canonical, proto))
            assert type(back) is E
            assert (back.name, back.value, int(back)) == (
                canonical.name, number, number)
        # immutability of members
        for attr in ("name", "value", "other"):
            try:
                setattr(canonical, attr, 1)
            except AttributeError:
                pass
            else:
                raise AssertionError("member mutated")
            try:
                delattr(canonical, attr)
            except AttributeError:
                pass
            else:
                raise AssertionError("member attribute deleted")

    defined = set(first_name)
    for n in PROBES + [rng.randint(INT32_MIN, INT32_MAX) for _ in range(10)]:
        if n in defined:
            assert E(n) is E.try_value(n)
            continue
        # closed lookup rejects, exactly like the stdlib
        for cls in (E, std):
            try:
                cls(n)
            except ValueError as exc:
                if cls is E:
                    assert str(exc) == f"{n!r} is not a valid {E.__name__}"
            else:
                raise AssertionError(f"{cls} accepted {n}")
        # open lookup accepts
        ph = E.try_value(n)
        assert type(ph) is E and isinstance(ph, int)
        assert ph.name is None and ph.value == n
        assert ph == n and int(ph) == n and hash(ph) == hash(n)
        assert str(ph) == "None"
        assert ph not in E
        assert E.try_value(n) is not ph  # nothing is cached
        assert E.try_value(ph) == n and E.try_value(ph).name is None
        try:
            E(ph)
        except ValueError:
            pass
        else:
            raise AssertionError("closed lookup accepted a placeholder")
        assert copy.copy(ph) is ph and copy.deepcopy(ph) is ph
        for proto in range(pickle.HIGHEST_PROTOCOL + 1):
            back = pickle.loads(pickle.dumps(ph, proto))
            assert type(back) is E and back.name is None
            assert back.value == n and back == n
        # ... and looking up did not change the class
        assert list(E.__members__) == [nm for nm, _ in members]
        assert set(E._value_map_) == defined

    # default argument of try_value is 0
    assert E.try_value() == 0
    assert (E.try_value() is E(0)) if 0 in defined else (E.try_value().name is None)

    # error paths: things that are not numbers
    for bad in ([], {}, [1], {"a": 1}, set(), bytearray(b"x")):
        try:
            E(bad)
        except ValueError as exc:
            assert str(exc) == f"{bad!r} is not a valid {E.__name__}"
        else:
            raise AssertionError("unhashable accepted")
        try:
            E.try_value(bad)
        except (TypeError, ValueError):
            pass
        else:
            raise AssertionError("try_value accepted an unhashable value")
    for bad in ("1", "M", None, 1.5, (1,), b"1", object()):
        try:
            E(bad)
        except ValueError as exc:
            assert str(exc) == f"{bad!r} is not a valid {E.__name__}"
        else:
            raise AssertionError(f"{bad!r} accepted")
    assert E.try_value("12") == 12 and E.try_value("12").name is None
    assert E.try_value(1.5) == 1 and (E.try_value(1.5).name is None)
    for bad in (None, "x", (1,), object()):
        try:
            E.try_value(bad)
        except (TypeError, ValueError):
            pass
        else:
            raise AssertionError(f"try_value accepted {bad!r}")
    for bad in ("nope", "", "m0_0", None, 3):
        try:
            E.from_string(bad)
        except ValueError as exc:
            assert str(exc) == f"Unknown value {bad} for enum {E.__name__}"
            assert isinstance(exc.__cause__, KeyError)
        else:
            raise AssertionError("unknown name accepted")
        try:
            E[bad]
        except KeyError:
            pass
        else:
            raise AssertionError("unknown name accepted")

    # immutability of the class
    for attr, val in (("NEW", 5), (members[0][0], 5), ("_value_map_", {}), ("x", 1)):
        try:
            setattr(E, attr, val)
        except AttributeError:
            pass
        else:
            raise AssertionError("class mutated")
    for attr in (members[0][0], "_member_map_", "nope"):
        try:
            delattr(E, attr)
        except AttributeError:
            pass
        else:
            raise AssertionError("class attribute deleted")
    try:
        E.__members__["NEW"] = 1
    except TypeError:
        pass
    else:
        raise AssertionError("__members__ is writable")
    assert list(E.__members__) == [nm for nm, _ in members]


# ---------------------------------------------------------------------------
# messages, cross-checked against google.protobuf
# ---------------------------------------------------------------------------
from google.protobuf import descriptor_pb2, descriptor_pool, json_format, message_factory

FDP = descriptor_pb2.FieldDescriptorProto
_file_no = [0]
_pb_checks = [0]


def make_message(E):
    @dataclass(eq=False, repr=False)
    class Msg(betterproto.Message):
        single: E = betterproto.enum_field(1)
        many: List[E] = betterproto.enum_field(2)
        by_key: Dict[str, E] = betterproto.map_field(
            3, betterproto.TYPE_STRING, betterproto.TYPE_ENUM
        )
        opt: Optional[E] = betterproto.enum_field(4, optional=True)
        a: E = betterproto.enum_field(5, group="g")
        b: int = betterproto.int32_field(6, group="g")

    return Msg


def make_pb_message(E, members):
    """Dynamic proto3 message with the same shape (needs a zero first member)."""
    _file_no[0] += 1
    pkg = f"c20k1_{_file_no[0]}"
    f = descriptor_pb2.FileDescriptorProto(
        name=f"{pkg}.proto", package=pkg, syntax="proto3"
    )
    e = f.enum_type.add(name="E")
    numbers = [n for _, n in members]
    if len(set(numbers)) != len(numbers):
        e.options.allow_alias = True
    for name, number in members:
        e.value.add(name=name, number=number)
    m = f.message_type.add(name="Msg")
    tn = f".{pkg}.E"
    m.field.add(name="single", number=1, type=FDP.TYPE_ENUM, type_name=tn,
                label=FDP.LABEL_OPTIONAL)
    m.field.add(name="many", number=2, type=FDP.TYPE_ENUM, type_name=tn,
                label=FDP.LABEL_REPEATED)
    entry = m.nested_type.add(name="ByKeyEntry")
    entry.options.map_entry = True
    entry.field.add(name="key", number=1, type=FDP.TYPE_STRING, label=FDP.LABEL_OPTIONAL)
    entry.field.add(name="value", number=2, type=FDP.TYPE_ENUM, type_name=tn,
                    label=FDP.LABEL_OPTIONAL)
    m.field.add(name="by_key", number=3, type=FDP.TYPE_MESSAGE,
                type_name=f".{pkg}.Msg.ByKeyEntry", label=FDP.LABEL_REPEATED)
    m.oneof_decl.add(name="g")
    m.oneof_decl.add(name="_opt")
    m.field.add(name="opt", number=4, type=FDP.TYPE_ENUM, type_name=tn,
                label=FDP.LABEL_OPTIONAL, oneof_index=1, proto3_optional=True)
    m.field.add(name="a", number=5, type=FDP.TYPE_ENUM, type_name=tn,
                label=FDP.LABEL_OPTIONAL, oneof_index=0)
    m.field.add(name="b", number=6, type=FDP.TYPE_INT32,
                label=FDP.LABEL_OPTIONAL, oneof_index=0)
    pool = descriptor_pool.DescriptorPool()
    pool.Add(f)
    return message_factory.GetMessageClass(pool.FindMessageTypeByName(f"{pkg}.Msg"))


def check_messages(E, members):
    Msg = make_message(E)
    defined = {n for _, n in members}
    first_name = {}
    for name, number in members:
        first_name.setdefault(number, name)
    Pb = make_pb_message(E, members) if members[0][1] == 0 else None

    numbers = sorted(defined) + [0, 1, -1, 77, -77, INT32_MIN, INT32_MAX]
    numbers += [rng.randint(INT32_MIN, INT32_MAX) for _ in range(3)]
    for n in numbers:
        other = rng.choice(numbers)
        cases = (
            {"single": n},
            {"many": [n, other, n]},
            {"by_key": {"k": n, "": other}},
            {"opt": n},
            {"a": n},
            {"single": n, "many": [other], "by_key": {"x": n}, "opt": other, "a": n},
        )
        for kwargs in cases:
            for as_member in (False, True):
                if as_member:
                    conv = E.try_value
                    kw = {
                        k: [conv(x) for x in v] if isinstance(v, list)
                        else {kk: conv(x) for kk, x in v.items()} if isinstance(v, dict)
                        else conv(v)
                        for k, v in kwargs.items()
                    }
                else:
                    kw = kwargs
                msg = Msg(**kw)
                data = bytes(msg)
                back = Msg().parse(data)
                assert bytes(back) == data
                d = msg.to_dict()
                back_json = Msg().from_json(json.dumps(d))
                assert back_json.to_dict() == d
                assert Msg.from_dict(d).to_dict() == d
                assert bytes(back_json) == data
                for got in (back, back_json):
                    for field, want in kwargs.items():
                        value = getattr(got, field)
                        if isinstance(want, list):
                            assert value == want
                            assert [int(v) for v in value] == want
                        elif isinstance(want, dict):
                            assert value == want
                            assert {k: int(v) for k, v in value.items()} == want
                        else:
                            assert value == want and int(value) == want
                # decoded values are members (canonical) or placeholders
                for field, want in kwargs.items():
                    value = getattr(back, field)
                    flat = (
                        list(zip(value, want)) if isinstance(want, list)
                        else [(value[k], want[k]) for k in want] if isinstance(want, dict)
                        else [(value, want)]
                    )
                    for v, w in flat:
                        assert type(v) is E
                        if w in defined:
                            assert v is E(w)
                        else:
                            assert v.name is None and v.value == w
                # JSON uses the canonical name, or the bare number if undefined
                if "single" in kwargs and n != 0:
                    assert d["single"] == first_name.get(n, n)
                if "opt" in kwargs:
                    want = kwargs["opt"]
                    assert d["opt"] == first_name.get(want, want)
                if "a" in kwargs:
                    assert d["a"] == first_name.get(n, n)
                assert betterproto.which_one_of(back, "g") == (
                    ("a", back.a) if "a" in kwargs else ("", None)
                )
                # copies keep members
                assert copy.deepcopy(msg) == msg and copy.copy(msg) == msg
                if as_member and "single" in kw:
                    assert copy.deepcopy(msg).single is kw["single"]
                assert pickle.loads(pickle.dumps(back.many)) == back.many

                if Pb is not None:
                    pb = Pb.FromString(data)
                    _pb_checks[0] += 1
                    for field, want in kwargs.items():
                        value = getattr(pb, field)
                        if isinstance(want, list):
                            assert list(value) == want
                        elif isinstance(want, dict):
                            assert dict(value) == want
                        else:
                            assert value == want
                            if field in ("opt", "a"):
                                assert pb.HasField(field)
                    # what google.protobuf writes, betterproto reads the same
                    again = Msg().parse(pb.SerializeToString())
                    assert again == back
                    pb_json = json.loads(json_format.MessageToJson(pb))
                    assert Msg().from_dict(pb_json) == back
                    # google.protobuf reads betterproto's JSON
                    pb2 = json_format.Parse(json.dumps(d), Pb())
                    assert pb2 == pb

    empty = Msg()
    assert empty.single == 0 and bytes(empty) == b"" and empty.to_dict() == {}
    assert (empty.single is E(0)) if 0 in defined else (empty.single.name is None)
    assert Msg().parse(b"\x08\x00").single == 0
    assert Msg().parse(b"\x08\xff\xff\xff\xff\xff\xff\xff\xff\xff\x01").single == -1
    assert Msg().parse(b"\x12\x02\x00\x01\x10\x02").many == [0, 1, 2]


HAND_WRITTEN = [
    ("Plain", [("ZERO", 0), ("ONE", 1), ("TWO", 2)]),
    ("Neg", [("ZERO", 0), ("MINUS_ONE", -1), ("MIN", INT32_MIN), ("MAX", INT32_MAX)]),
    ("Alias", [("ZERO", 0), ("NIL", 0), ("A", 1), ("B", 1), ("C", -1), ("D", -1)]),
    ("NoZero", [("FIVE", 5), ("MINUS_TWO", -2)]),
    ("Single", [("ONLY", 7)]),
    ("SingleZero", [("ONLY", 0)]),
    ("Odd", [("name_", 3), ("value_", 4), ("_under", 0), ("mro_", 9)]),
]

all_defs = HAND_WRITTEN + [(f"Rnd{i}", random_members(i)) for i in range(60)]
for idx, (name, members) in enumerate(all_defs):
    E = make_enum(name, members)
    check_enum_api(E, members)
    if idx < len(HAND_WRITTEN) + 25:
        check_messages(E, members)


assert _pb_checks[0] > 1000, _pb_checks

# class-statement form, as generated code uses it
class Color(betterproto.Enum):
    RED = 0
    GREEN = 1
    VERT = 1
    BLUE = -5

    @classmethod
    def helper(cls):
        return cls.GREEN


assert Color(1) is Color.GREEN is Color.VERT is Color["VERT"] is Color.helper()
assert Color.try_value(-5) is Color.BLUE and Color.try_value(4).name is None
assert repr(Color.GREEN) == "Color.GREEN" and str(Color.BLUE) == "BLUE"
assert repr(Color) == "<enum 'Color'>"
try:
    betterproto.Enum(0)
except ValueError as exc:
    assert str(exc) == "0 is not a valid Enum"
else:
    raise AssertionError
assert betterproto.Enum.try_value(3) == 3

print("ok")
