"""C04 equivalence check for the to_dict handling of message-typed fields (sub-messages,
repeated sub-messages, google.protobuf wrappers, Timestamp, Duration).

1. Message.to_dict is compared, for a large seeded corpus of messages, both casings and both
   values of include_default_values, against OLD_to_dict: a verbatim copy of the reference
   implementation of to_dict (nested calls redirected to the copy).
2. A set of hand-written golden dicts.
3. Timestamp / Duration / wrapper JSON forms are compared against google.protobuf.
4. The C04 round trip itself (dict + JSON text path, classmethod + instance form, equal message
   and equal bytes) is asserted for the whole corpus.
"""
import json
import math
import random
import typing
from base64 import b64encode
from dataclasses import dataclass
from datetime import datetime, timedelta, timezone
from typing import Dict, List, Optional

import betterproto
from betterproto import (
    DATETIME_ZERO,
    INT_64_TYPES,
    TYPE_BYTES,
    TYPE_DOUBLE,
    TYPE_ENUM,
    TYPE_FLOAT,
    TYPE_MAP,
    TYPE_MESSAGE,
    Casing,
    _dump_float,
    _Duration,
    _enum_to_json,
    _scalar_to_json,
    _Timestamp,
)


# --------------------------------------------------------------------------------------------
# verbatim copy of the reference to_dict (self -> msg, nested .to_dict -> OLD_to_dict)
# --------------------------------------------------------------------------------------------
def OLD_to_dict(self, casing=Casing.CAMEL, include_default_values=False):
    output = {}
    field_types = self._type_hints()
    defaults = self._betterproto.default_gen
    for field_name, meta in self._betterproto.meta_by_field_name.items():
        field_is_repeated = defaults[field_name] is list
        try:
            value = getattr(self, field_name)
        except AttributeError:
            value = self._get_field_default(field_name)
        cased_name = casing(field_name).rstrip("_")  # type: ignore
        if meta.proto_type == TYPE_MESSAGE:
            if isinstance(value, datetime):
                if (
                    value != DATETIME_ZERO
                    or include_default_values
                    or meta.optional
                    or self._include_default_value_for_oneof(
                        field_name=field_name, meta=meta
                    )
                ):
                    output[cased_name] = _Timestamp.timestamp_to_json(value)
            elif isinstance(value, timedelta):
                if (
                    value != timedelta(0)
                    or include_default_values
                    or meta.optional
                    or self._include_default_value_for_oneof(
                        field_name=field_name, meta=meta
                    )
                ):
                    output[cased_name] = _Duration.delta_to_json(value)
            elif meta.wraps:
                if value is not None or include_default_values:
                    if field_is_repeated:
                        output[cased_name] = [
                            _scalar_to_json(meta.wraps, i) for i in value
                        ]
                    elif value is None:
                        output[cased_name] = value
                    else:
                        output[cased_name] = _scalar_to_json(meta.wraps, value)
            elif field_is_repeated:
                # Convert each item.
                cls = self._betterproto.cls_by_field[field_name]
                if cls == datetime:
                    value = [_Timestamp.timestamp_to_json(i) for i in value]
                elif cls == timedelta:
                    value = [_Duration.delta_to_json(i) for i in value]
                else:
                    value = [
                        OLD_to_dict(i, casing, include_default_values) for i in value
                    ]
                if value or include_default_values:
                    output[cased_name] = value
            elif value is None:
                if include_default_values:
                    output[cased_name] = value
            elif (
                value._serialized_on_wire
                or bool(value)
                or include_default_values
                or meta.optional
                or self._include_default_value_for_oneof(
                    field_name=field_name, meta=meta
                )
            ):
                output[cased_name] = OLD_to_dict(value, casing, include_default_values)
        elif meta.proto_type == TYPE_MAP:
            assert meta.map_types
            value_type = meta.map_types[1]
            output_map = {}
            for k, v in value.items():
                if isinstance(v, datetime):
                    output_map[k] = _Timestamp.timestamp_to_json(v)
                elif isinstance(v, timedelta):
                    output_map[k] = _Duration.delta_to_json(v)
                elif value_type == TYPE_MESSAGE:
                    output_map[k] = OLD_to_dict(v, casing, include_default_values)
                elif value_type == TYPE_ENUM:
                    enum_class = self._betterproto.cls_by_field[f"{field_name}.value"]
                    output_map[k] = _enum_to_json(enum_class, v)
                else:
                    output_map[k] = _scalar_to_json(value_type, v)

            if value or include_default_values:
                output[cased_name] = output_map
        elif (
            value != self._get_field_default(field_name)
            or include_default_values
            or self._include_default_value_for_oneof(field_name=field_name, meta=meta)
        ):
            if meta.proto_type in INT_64_TYPES:
                if field_is_repeated:
                    output[cased_name] = [str(n) for n in value]
                elif value is None:
                    if include_default_values:
                        output[cased_name] = value
                else:
                    output[cased_name] = str(value)
            elif meta.proto_type == TYPE_BYTES:
                if field_is_repeated:
                    output[cased_name] = [b64encode(b).decode("utf8") for b in value]
                elif value is None and include_default_values:
                    output[cased_name] = value
                else:
                    output[cased_name] = b64encode(value).decode("utf8")
            elif meta.proto_type == TYPE_ENUM:
                if field_is_repeated:
                    enum_class = field_types[field_name].__args__[0]
                    if isinstance(value, typing.Iterable) and not isinstance(value, str):
                        output[cased_name] = [
                            _enum_to_json(enum_class, el) for el in value
                        ]
                    else:
                        output[cased_name] = [_enum_to_json(enum_class, value)]
                elif value is None:
                    if include_default_values:
                        output[cased_name] = value
                elif meta.optional:
                    enum_class = field_types[field_name].__args__[0]
                    output[cased_name] = _enum_to_json(enum_class, value)
                else:
                    enum_class = field_types[field_name]  # noqa
                    output[cased_name] = _enum_to_json(enum_class, value)
            elif meta.proto_type in (TYPE_FLOAT, TYPE_DOUBLE):
                if field_is_repeated:
                    output[cased_name] = [_dump_float(n) for n in value]
                else:
                    output[cased_name] = _dump_float(value)
            else:
                output[cased_name] = value
    return output


# --------------------------------------------------------------------------------------------
# message types
# --------------------------------------------------------------------------------------------
class Colour(betterproto.Enum):
    RED = 0
    GREEN = 1
    BLUE = 2


@dataclass(eq=False, repr=False)
class Empty(betterproto.Message):
    pass


@dataclass(eq=False, repr=False)
class Leaf(betterproto.Message):
    n: int = betterproto.int32_field(1)
    big: int = betterproto.int64_field(2)
    items: List[int] = betterproto.int32_field(3)
    when: datetime = betterproto.message_field(4)
    data: bytes = betterproto.bytes_field(5)


@dataclass(eq=False, repr=False)
class Node(betterproto.Message):
    name: str = betterproto.string_field(1)
    leaf: Leaf = betterproto.message_field(2)
    children: List["Node"] = betterproto.message_field(3)
    next_node: "Node" = betterproto.message_field(4)
    nothing: Empty = betterproto.message_field(5)


@dataclass(eq=False, repr=False)
class Everything(betterproto.Message):
    # plain
    child: Leaf = betterproto.message_field(1)
    stamp: datetime = betterproto.message_field(2)
    span: timedelta = betterproto.message_field(3)
    empty_child: Empty = betterproto.message_field(4)
    # repeated
    children: List[Leaf] = betterproto.message_field(6)
    stamps: List[datetime] = betterproto.message_field(7)
    spans: List[timedelta] = betterproto.message_field(8)
    empties: List[Empty] = betterproto.message_field(9)
    # proto3 optional
    opt_child: Optional[Leaf] = betterproto.message_field(10, optional=True)
    opt_stamp: Optional[datetime] = betterproto.message_field(11, optional=True)
    opt_span: Optional[timedelta] = betterproto.message_field(12, optional=True)
    # oneof
    one_child: Leaf = betterproto.message_field(13, group="pick")
    one_stamp: datetime = betterproto.message_field(14, group="pick")
    one_span: timedelta = betterproto.message_field(15, group="pick")
    one_number: int = betterproto.int32_field(16, group="pick")
    one_empty: Empty = betterproto.message_field(17, group="pick")
    # wrappers
    w_bool: Optional[bool] = betterproto.message_field(20, wraps=betterproto.TYPE_BOOL)
    w_bytes: Optional[bytes] = betterproto.message_field(21, wraps=betterproto.TYPE_BYTES)
    w_double: Optional[float] = betterproto.message_field(
        22, wraps=betterproto.TYPE_DOUBLE
    )
    w_float: Optional[float] = betterproto.message_field(23, wraps=betterproto.TYPE_FLOAT)
    w_int32: Optional[int] = betterproto.message_field(24, wraps=betterproto.TYPE_INT32)
    w_int64: Optional[int] = betterproto.message_field(25, wraps=betterproto.TYPE_INT64)
    w_string: Optional[str] = betterproto.message_field(26, wraps=betterproto.TYPE_STRING)
    w_uint32: Optional[int] = betterproto.message_field(27, wraps=betterproto.TYPE_UINT32)
    w_uint64: Optional[int] = betterproto.message_field(28, wraps=betterproto.TYPE_UINT64)
    one_wrapped: Optional[int] = betterproto.message_field(
        29, wraps=betterproto.TYPE_INT64, group="other"
    )
    one_text: str = betterproto.string_field(30, group="other")
    # other kinds, to see that they are left alone
    by_name: Dict[str, Leaf] = betterproto.map_field(
        31, betterproto.TYPE_STRING, betterproto.TYPE_MESSAGE
    )
    stamp_by_id: Dict[int, datetime] = betterproto.map_field(
        32, betterproto.TYPE_INT64, betterproto.TYPE_MESSAGE
    )
    colour: Colour = betterproto.enum_field(33)
    count_64: int = betterproto.uint64_field(34)
    from_: str = betterproto.string_field(35)
    address_line_1: float = betterproto.double_field(36)


@dataclass(eq=False, repr=False)
class Holder(betterproto.Message):
    """Recursive content: include_default_values=True never terminates for it (in the
    reference too), so it is only compared with include_default_values=False."""

    tree: Node = betterproto.message_field(1)
    trees: List[Node] = betterproto.message_field(2)
    everything: Everything = betterproto.message_field(3)
    opt_tree: Optional[Node] = betterproto.message_field(4, optional=True)
    one_tree: Node = betterproto.message_field(5, group="g")
    one_flag: bool = betterproto.bool_field(6, group="g")


RECURSIVE = (Node, Holder)

UTC = timezone.utc
rng = random.Random(20241104)

STAMPS = [
    DATETIME_ZERO,
    datetime(1970, 1, 1, 0, 0, 0, 1, tzinfo=UTC),
    datetime(1970, 1, 1, 0, 0, 0, 1000, tzinfo=UTC),
    datetime(1969, 12, 31, 23, 59, 59, 999999, tzinfo=UTC),
    datetime(1, 1, 1, tzinfo=UTC),
    datetime(999, 12, 31, 23, 59, 59, tzinfo=UTC),
    datetime(9999, 12, 31, 23, 59, 59, 999999, tzinfo=UTC),
    datetime(2024, 2, 29, 12, 30, 15, 250000, tzinfo=UTC),
    datetime(2024, 2, 29, 12, 30, 15, 123456, tzinfo=timezone(timedelta(hours=5, minutes=30))),
    datetime(2001, 9, 9, 1, 46, 40, tzinfo=timezone(timedelta(hours=-8))),
    datetime(1970, 1, 1, 1, 0, 0, tzinfo=timezone(timedelta(hours=1))),  # == epoch
]
SPANS = [
    timedelta(0),
    timedelta(microseconds=1),
    timedelta(microseconds=-1),
    timedelta(milliseconds=1),
    timedelta(milliseconds=-500),
    timedelta(seconds=1),
    timedelta(seconds=-1),
    timedelta(days=1, seconds=1, microseconds=100),
    timedelta(seconds=315576000000),
    timedelta(seconds=-315576000000, microseconds=-999999),
    timedelta(seconds=3, microseconds=120000),
]


def rand_stamp():
    if rng.random() < 0.5:
        return rng.choice(STAMPS)
    base = datetime(1, 1, 1, tzinfo=UTC) + timedelta(
        seconds=rng.randrange(0, 315537897599), microseconds=rng.choice([0, 1000 * rng.randrange(1000), rng.randrange(10**6)])
    )
    if rng.random() < 0.3 and 2 < base.year < 9998:
        base = base.astimezone(timezone(timedelta(minutes=rng.randrange(-14 * 60, 14 * 60))))
    return base


def rand_span():
    if rng.random() < 0.5:
        return rng.choice(SPANS)
    return timedelta(
        seconds=rng.randrange(-315576000000, 315576000000),
        microseconds=rng.choice([0, 1000 * rng.randrange(1000), rng.randrange(10**6)]),
    )


def rand_leaf(allow_empty=True):
    r = rng.random()
    if allow_empty and r < 0.2:
        return Leaf()
    kw = {}
    if rng.random() < 0.6:
        kw["n"] = rng.choice([0, 1, -1, 2**31 - 1, -(2**31)])
    if rng.random() < 0.5:
        kw["big"] = rng.choice([0, 2**53 + 1, 2**63 - 1, -(2**63), 7])
    if rng.random() < 0.4:
        kw["items"] = [rng.randrange(-5, 5) for _ in range(rng.randrange(0, 4))]
    if rng.random() < 0.4:
        kw["when"] = rand_stamp()
    if rng.random() < 0.4:
        kw["data"] = bytes(rng.randrange(256) for _ in range(rng.randrange(0, 6)))
    return Leaf(**kw)


def rand_node(depth=0):
    kw = {}
    if rng.random() < 0.6:
        kw["name"] = rng.choice(["", "a", "nöde", "x" * 5])
    if rng.random() < 0.5:
        kw["leaf"] = rand_leaf()
    if depth < 3 and rng.random() < 0.5:
        kw["children"] = [rand_node(depth + 1) for _ in range(rng.randrange(0, 3))]
    if depth < 3 and rng.random() < 0.4:
        kw["next_node"] = rand_node(depth + 1)
    if rng.random() < 0.3:
        kw["nothing"] = Empty()
    return Node(**kw)


FLOATS = [0.0, -0.0, 1.5, -2.25, 1e300, 5e-324, float("inf"), float("-inf"), float("nan"), 0.1]
FLOATS32 = [0.0, 1.5, -2.25, 0.10000000149011612, float("inf"), float("-inf"), float("nan")]


def rand_everything():
    kw = {}
    p = 0.35
    if rng.random() < p:
        kw["child"] = rand_leaf()
    if rng.random() < p:
        kw["stamp"] = rand_stamp()
    if rng.random() < p:
        kw["span"] = rand_span()
    if rng.random() < p:
        kw["empty_child"] = Empty()
    if rng.random() < p:
        kw["children"] = [rand_leaf() for _ in range(rng.randrange(0, 4))]
    if rng.random() < p:
        kw["stamps"] = [rand_stamp() for _ in range(rng.randrange(0, 4))]
    if rng.random() < p:
        kw["spans"] = [rand_span() for _ in range(rng.randrange(0, 4))]
    if rng.random() < p:
        kw["empties"] = [Empty() for _ in range(rng.randrange(0, 3))]
    if rng.random() < p:
        kw["opt_child"] = rand_leaf()
    if rng.random() < p:
        kw["opt_stamp"] = rand_stamp()
    if rng.random() < p:
        kw["opt_span"] = rand_span()
    pick = rng.choice([None, "one_child", "one_stamp", "one_span", "one_number", "one_empty"])
    if pick == "one_child":
        kw[pick] = rand_leaf()
    elif pick == "one_stamp":
        kw[pick] = rand_stamp()
    elif pick == "one_span":
        kw[pick] = rand_span()
    elif pick == "one_number":
        kw[pick] = rng.choice([0, 1, -7])
    elif pick == "one_empty":
        kw[pick] = Empty()
    if rng.random() < p:
        kw["w_bool"] = rng.choice([True, False])
    if rng.random() < p:
        kw["w_bytes"] = rng.choice([b"", b"\x00", b"\xfb\xff\xfe", b"hello world"])
    if rng.random() < p:
        kw["w_double"] = rng.choice(FLOATS)
    if rng.random() < p:
        kw["w_float"] = rng.choice(FLOATS32)
    if rng.random() < p:
        kw["w_int32"] = rng.choice([0, 1, -1, 2**31 - 1, -(2**31)])
    if rng.random() < p:
        kw["w_int64"] = rng.choice([0, 1, -1, 2**63 - 1, -(2**63), 2**53 + 1])
    if rng.random() < p:
        kw["w_string"] = rng.choice(["", "x", "Infinity", "ünï"])
    if rng.random() < p:
        kw["w_uint32"] = rng.choice([0, 1, 2**32 - 1])
    if rng.random() < p:
        kw["w_uint64"] = rng.choice([0, 1, 2**64 - 1, 2**53 + 1])
    other = rng.choice([None, None, "one_wrapped", "one_text"])
    if other == "one_wrapped":
        kw[other] = rng.choice([0, 5, -(2**63)])
    elif other == "one_text":
        kw[other] = rng.choice(["", "t"])
    if rng.random() < p:
        kw["by_name"] = {rng.choice("abc") + str(i): rand_leaf() for i in range(rng.randrange(0, 3))}
    if rng.random() < p:
        kw["stamp_by_id"] = {rng.randrange(-3, 3): rand_stamp() for _ in range(rng.randrange(0, 3))}
    if rng.random() < p:
        kw["colour"] = rng.choice([Colour.RED, Colour.GREEN, Colour.BLUE])
    if rng.random() < p:
        kw["count_64"] = rng.choice([0, 1, 2**64 - 1])
    if rng.random() < p:
        kw["from_"] = rng.choice(["", "me"])
    if rng.random() < p:
        kw["address_line_1"] = rng.choice([0.0, 2.5, float("inf")])
    return Everything(**kw)


def rand_holder():
    kw = {}
    if rng.random() < 0.5:
        kw["tree"] = rand_node()
    if rng.random() < 0.5:
        kw["trees"] = [rand_node() for _ in range(rng.randrange(0, 3))]
    if rng.random() < 0.5:
        kw["everything"] = rand_everything()
    if rng.random() < 0.4:
        kw["opt_tree"] = rand_node()
    g = rng.choice([None, "one_tree", "one_flag"])
    if g == "one_tree":
        kw[g] = rng.choice([Node(), rand_node()])
    elif g == "one_flag":
        kw[g] = rng.choice([True, False])
    return Holder(**kw)


def fixed_corpus():
    out = [Everything(), Node(), Leaf(), Empty()]
    for s in STAMPS:
        out += [
            Everything(stamp=s),
            Everything(opt_stamp=s),
            Everything(one_stamp=s),
            Everything(stamps=[s, s]),
            Everything(stamp_by_id={1: s}),
        ]
    for d in SPANS:
        out += [
            Everything(span=d),
            Everything(opt_span=d),
            Everything(one_span=d),
            Everything(spans=[d, d]),
        ]
    for leaf in (Leaf(), Leaf(n=1), Leaf(items=[0]), Leaf(when=DATETIME_ZERO), Leaf(big=2**63 - 1)):
        out += [
            Everything(child=leaf),
            Everything(opt_child=leaf),
            Everything(one_child=leaf),
            Everything(children=[leaf, Leaf()]),
            Everything(by_name={"k": leaf}),
        ]
    out += [
        Everything(empty_child=Empty()),
        Everything(one_empty=Empty()),
        Everything(empties=[Empty(), Empty()]),
        Everything(one_number=0),
        Everything(one_wrapped=0),
        Everything(one_wrapped=2**63 - 1),
        Everything(one_text=""),
        Everything(children=[]),
        Everything(stamps=[]),
    ]
    for f in FLOATS:
        out.append(Everything(w_double=f))
    for f in FLOATS32:
        out.append(Everything(w_float=f))
    for b in (True, False):
        out.append(Everything(w_bool=b))
    for v in (0, 1, -1, 2**63 - 1, -(2**63)):
        out.append(Everything(w_int64=v))
    for v in (0, 2**64 - 1):
        out.append(Everything(w_uint64=v))
    for v in (0, -(2**31), 2**31 - 1):
        out.append(Everything(w_int32=v))
    for v in (0, 2**32 - 1):
        out.append(Everything(w_uint32=v))
    for v in ("", "x"):
        out.append(Everything(w_string=v))
    for v in (b"", b"\xfb\xff", b"abc"):
        out.append(Everything(w_bytes=v))

    # sub-messages filled in place / merely read / assigned after construction
    m = Everything()
    m.child.n = 4
    out.append(m)
    m = Everything()
    m.child.items.append(0)
    out.append(m)
    m = Everything()
    _ = m.child, m.children, m.stamp, m.span  # reads only
    out.append(m)
    m = Holder()
    _ = m.tree, m.everything
    out.append(m)
    m = Holder()
    m.tree.children.append(Node())
    m.tree.next_node.leaf.items.append(3)
    out.append(m)
    m = Everything(one_number=3)
    m.one_stamp = DATETIME_ZERO  # displaces one_number
    out.append(m)
    m = Everything(one_stamp=STAMPS[3])
    m.one_empty = Empty()
    out.append(m)
    m = Everything(opt_child=Leaf(n=1))
    m.opt_child = None
    out.append(m)
    m = Everything().parse(bytes(Everything(child=Leaf(), one_child=Leaf(), empties=[Empty()])))
    out.append(m)
    return out


CASINGS = (Casing.CAMEL, Casing.SNAKE)


def strict_eq(a, b):
    """Equality that also distinguishes 1 / 1.0 / True, 0.0 / -0.0 and key order."""
    if type(a) is not type(b):
        return False
    if isinstance(a, dict):
        return list(a.keys()) == list(b.keys()) and all(
            type(k1) is type(k2) for k1, k2 in zip(a, b)
        ) and all(strict_eq(a[k], b[k]) for k in a)
    if isinstance(a, list):
        return len(a) == len(b) and all(strict_eq(x, y) for x, y in zip(a, b))
    if isinstance(a, float):
        return (math.isnan(a) and math.isnan(b)) or (
            a == b and math.copysign(1, a) == math.copysign(1, b)
        )
    return a == b


def bytes_no_nan_sign(m):
    return bytes(m)


def has_nan(x):
    if isinstance(x, float):
        return math.isnan(x)
    if isinstance(x, dict):
        return any(has_nan(v) for v in x.values())
    if isinstance(x, list):
        return any(has_nan(v) for v in x)
    return False


def main():
    corpus = fixed_corpus()
    corpus += [rand_everything() for _ in range(450)]
    corpus += [rand_node() for _ in range(100)]
    corpus += [rand_holder() for _ in range(100)]
    corpus += [Holder(), Holder(one_tree=Node()), Holder(opt_tree=Node()), Holder(tree=Node())]
    corpus += [rand_leaf() for _ in range(100)]

    compared = 0
    round_tripped = 0
    for m in corpus:
        wire = bytes(m)
        for casing in CASINGS:
            for inc in (False,) if isinstance(m, RECURSIVE) else (False, True):
                got = m.to_dict(casing=casing, include_default_values=inc)
                want = OLD_to_dict(m, casing, inc)
                assert strict_eq(got, want), (m, casing, inc, got, want)
                text = json.dumps(got)  # serialisable
                assert text == json.dumps(want)
                assert m.to_json(casing=casing, include_default_values=inc) == text
                compared += 1
            # the C04 round trip (default arguments + casing)
            d = m.to_dict(casing=casing)
            text = m.to_json(casing=casing)
            for m2 in (
                type(m).from_dict(d),
                type(m)().from_dict(d),
                type(m)().from_json(text),
                type(m).from_dict(json.loads(text)),
            ):
                assert m2 == m, (m, d, m2)
                assert bytes(m2) == wire, (m, d, bytes(m2), wire)
                assert strict_eq(m2.to_dict(casing=casing), d)
                round_tripped += 1
        # to_dict must not have changed what the message encodes to
        assert bytes(m) == wire

    check_goldens()
    check_against_google()
    print(f"ok: {compared} to_dict comparisons, {round_tripped} round trips, {len(corpus)} messages")


def check_goldens():
    m = Everything(
        child=Leaf(n=1, big=2**53 + 1),
        stamp=datetime(2024, 2, 29, 12, 30, 15, 250000, tzinfo=UTC),
        span=timedelta(seconds=-1, microseconds=-500000),
        empty_child=Empty(),
        children=[Leaf(), Leaf(items=[0, 1])],
        stamps=[DATETIME_ZERO, datetime(1969, 12, 31, 23, 59, 59, 999999, tzinfo=UTC)],
        spans=[timedelta(0), timedelta(microseconds=1)],
        opt_child=Leaf(),
        opt_stamp=DATETIME_ZERO,
        opt_span=timedelta(0),
        one_stamp=DATETIME_ZERO,
        w_bool=False,
        w_bytes=b"\xfb\xff",
        w_double=float("-inf"),
        w_int64=-(2**63),
        w_string="",
        w_uint64=2**64 - 1,
        one_wrapped=0,
    )
    assert m.to_dict() == {
        "child": {"n": 1, "big": "9007199254740993"},
        "stamp": "2024-02-29T12:30:15.250Z",
        "span": "-1.500s",
        "emptyChild": {},
        "children": [{}, {"items": [0, 1]}],
        "stamps": ["1970-01-01T00:00:00Z", "1969-12-31T23:59:59.999999Z"],
        "spans": ["0.000s", "0.000001s"],
        "optChild": {},
        "optStamp": "1970-01-01T00:00:00Z",
        "optSpan": "0.000s",
        "oneStamp": "1970-01-01T00:00:00Z",
        "wBool": False,
        "wBytes": "+/8=",
        "wDouble": "-Infinity",
        "wInt64": "-9223372036854775808",
        "wString": "",
        "wUint64": "18446744073709551615",
        "oneWrapped": "0",
    }, m.to_dict()
    assert m.to_dict(casing=Casing.SNAKE)["opt_child"] == {}
    assert list(m.to_dict(casing=Casing.SNAKE))[:4] == ["child", "stamp", "span", "empty_child"]

    assert Everything().to_dict() == {}
    assert Everything(stamp=DATETIME_ZERO, span=timedelta(0)).to_dict() == {}
    assert Everything(children=[], stamps=[], spans=[]).to_dict() == {}
    d = Everything().to_dict(include_default_values=True)
    assert d["child"] == {"n": 0, "big": "0", "items": [], "when": "1970-01-01T00:00:00Z", "data": ""}
    assert d["stamp"] == "1970-01-01T00:00:00Z" and d["span"] == "0.000s"
    assert d["children"] == [] and d["stamps"] == [] and d["spans"] == [] and d["empties"] == []
    assert d["optChild"] is None and d["optStamp"] is None and d["optSpan"] is None
    for key in ("wBool", "wBytes", "wDouble", "wFloat", "wInt32", "wInt64", "wString", "wUint32", "wUint64"):
        assert key in d and d[key] is None, key
    assert d["emptyChild"] == {}
    assert d["oneStamp"] == "1970-01-01T00:00:00Z" and d["oneChild"]["n"] == 0

    unread = Everything()
    _ = unread.child
    assert unread.to_dict() == {}
    filled = Everything()
    filled.child.items.append(0)
    assert filled.to_dict() == {"child": {"items": [0]}}


def check_against_google():
    from google.protobuf import duration_pb2, timestamp_pb2, wrappers_pb2
    from google.protobuf.json_format import MessageToDict

    for s in STAMPS + [rand_stamp() for _ in range(300)]:
        ours = Everything(opt_stamp=s).to_dict()["optStamp"]
        pb = timestamp_pb2.Timestamp()
        pb.FromDatetime(s)
        assert ours == pb.ToJsonString(), (s, ours, pb.ToJsonString())
        assert Everything(stamps=[s]).to_dict()["stamps"] == [ours]
    for d in SPANS + [rand_span() for _ in range(300)]:
        ours = Everything(opt_span=d).to_dict()["optSpan"]
        pb = duration_pb2.Duration()
        pb.FromTimedelta(d)
        theirs = pb.ToJsonString()
        # google omits the fraction when it is zero ("1s"); both denote the same value
        assert ours[-1] == theirs[-1] == "s"
        assert _Duration.delta_from_json(ours) == _Duration.delta_from_json(theirs) == d, (d, ours, theirs)
    for v in (0, 1, -1, 2**63 - 1, -(2**63)):
        assert Everything(w_int64=v).to_dict()["wInt64"] == MessageToDict(wrappers_pb2.Int64Value(value=v))
    for v in (0, 1, 2**64 - 1):
        assert Everything(w_uint64=v).to_dict()["wUint64"] == MessageToDict(wrappers_pb2.UInt64Value(value=v))
    for v in (b"", b"\xfb\xff", b"hello"):
        assert Everything(w_bytes=v).to_dict()["wBytes"] == MessageToDict(wrappers_pb2.BytesValue(value=v))
    for v in (float("inf"), float("-inf"), 1.5, 0.0):
        assert Everything(w_double=v).to_dict()["wDouble"] == MessageToDict(wrappers_pb2.DoubleValue(value=v))
    assert Everything(w_double=float("nan")).to_dict()["wDouble"] == MessageToDict(
        wrappers_pb2.DoubleValue(value=float("nan"))
    )
    for v in (True, False):
        assert Everything(w_bool=v).to_dict()["wBool"] is MessageToDict(wrappers_pb2.BoolValue(value=v))


if __name__ == "__main__":
    main()
