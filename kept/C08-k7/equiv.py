"""Equivalence checks for the proto-type -> wire-type dispatch used by
_wire_type_matches (classifies incoming fields as known / unknown),
_serialize_single and _len_single (write known fields).

Everything is compared against oracles that do not depend on the code under
test: a literal truth table, a tiny reference encoder written here, and
google.protobuf as reference encoder/decoder.
"""
import itertools
import random
import struct
from dataclasses import dataclass
from typing import Dict, List

import betterproto
from betterproto import (
    _len_single,
    _serialize_single,
    _wire_type_matches,
)
from google.protobuf import descriptor_pb2, descriptor_pool, message_factory

random.seed(808)

VARINT_T = ["enum", "bool", "int32", "int64", "uint32", "uint64", "sint32", "sint64"]
F32_T = ["float", "fixed32", "sfixed32"]
F64_T = ["double", "fixed64", "sfixed64"]
LEN_T = ["string", "bytes", "message", "map"]
ALL_T = VARINT_T + F32_T + F64_T + LEN_T
assert len(ALL_T) == 18


# ------------------------------------------------------------------ 1. table
def expected_match(wire, t, repeated):
    if wire == 0:
        return t in VARINT_T
    if wire == 5:
        return t in F32_T
    if wire == 1:
        return t in F64_T
    if wire == 2:
        return t in LEN_T or (repeated and t not in LEN_T and t in ALL_T)
    return False


n = 0
for wire in range(-1, 9):
    for t in ALL_T + ["group", "", "unknown", None]:
        for repeated in (False, True):
            got = _wire_type_matches(wire, t, repeated)
            assert got is expected_match(wire, t, repeated), (wire, t, repeated, got)
            n += 1
print("wire_type_matches table:", n)


# ------------------------------------------------------ 2. reference encoder
def ref_varint(v):
    if v < 0:
        v += 1 << 64
    out = bytearray()
    while True:
        b = v & 0x7F
        v >>= 7
        if v:
            out.append(b | 0x80)
        else:
            out.append(b)
            return bytes(out)


FMT = {
    "float": "<f",
    "fixed32": "<I",
    "sfixed32": "<i",
    "double": "<d",
    "fixed64": "<Q",
    "sfixed64": "<q",
}


def ref_single(number, t, value, serialize_empty=False):
    if t in ("enum", "bool", "int32", "int64", "uint32", "uint64"):
        return ref_varint(number << 3) + ref_varint(int(value))
    if t in ("sint32", "sint64"):
        zz = (value << 1) if value >= 0 else ((-value) << 1) - 1
        return ref_varint(number << 3) + ref_varint(zz)
    if t in F32_T:
        return ref_varint(number << 3 | 5) + struct.pack(FMT[t], value)
    if t in F64_T:
        return ref_varint(number << 3 | 1) + struct.pack(FMT[t], value)
    if t == "string":
        value = value.encode("utf-8")
    elif t == "message":
        value = bytes(value)
    value = bytes(value)
    if not value and not serialize_empty:
        return b""
    return ref_varint(number << 3 | 2) + ref_varint(len(value)) + value


@dataclass(eq=False, repr=False)
class Leaf(betterproto.Message):
    x: int = betterproto.int32_field(1)
    y: str = betterproto.string_field(2)


leaf_with_unknown = Leaf(x=3).parse(b"\xa0\x06\x01\x9a\x06\x03abc")
assert bytes(leaf_with_unknown) == b"\x08\x03\xa0\x06\x01\x9a\x06\x03abc"

VALUES = {
    "enum": [0, 1, 127, 128, -1, 2**31 - 1, -(2**31)],
    "bool": [False, True],
    "int32": [0, 1, -1, 127, 128, 300, 2**31 - 1, -(2**31)],
    "int64": [0, 1, -1, 2**63 - 1, -(2**63), 2**35],
    "uint32": [0, 1, 127, 128, 16383, 16384, 2**32 - 1],
    "uint64": [0, 1, 2**63, 2**64 - 1, 2**56, 2**56 - 1],
    "sint32": [0, 1, -1, 63, -64, 64, -65, 2**31 - 1, -(2**31)],
    "sint64": [0, 1, -1, 2**63 - 1, -(2**63)],
    "float": [0.0, 1.5, -2.25, float("inf")],
    "fixed32": [0, 1, 2**32 - 1],
    "sfixed32": [0, -1, 2**31 - 1, -(2**31)],
    "double": [0.0, 1e300, -1e-300, 3.141592653589793],
    "fixed64": [0, 1, 2**64 - 1],
    "sfixed64": [0, -1, 2**63 - 1, -(2**63)],
    "string": ["", "a", "é" * 70, "x" * 127, "x" * 128, "x" * 20000],
    "bytes": [b"", b"\x00", bytes(range(256)), bytearray(b"abc"), bytearray()],
    "message": [Leaf(), Leaf(x=1, y="q"), leaf_with_unknown],
    "map": [b"", b"\x08\x01\x12\x01a"],
}
NUMBERS = [1, 2, 15, 16, 2047, 2048, 2**21 - 1, 2**21, 2**28, 2**29 - 1]

n = 0
for t in ALL_T:
    for number in NUMBERS:
        for value in VALUES[t]:
            for serialize_empty in (False, True):
                got = _serialize_single(
                    number, t, value, serialize_empty=serialize_empty
                )
                want = ref_single(number, t, value, serialize_empty)
                assert type(got) is bytes
                assert got == want, (t, number, value, serialize_empty, got, want)
                size = _len_single(number, t, value, serialize_empty=serialize_empty)
                assert type(size) is int and size == len(want), (t, number, value)
                n += 1
print("serialize_single/len_single cases:", n)

# wrapper values: always written, even when empty
for wraps, t, value, payload in [
    ("bool", "message", False, b""),
    ("bool", "message", True, b"\x08\x01"),
    ("string", "message", "", b""),
    ("int64", "message", -1, b"\x08" + b"\xff" * 9 + b"\x01"),
    ("bytes", "message", b"zz", b"\x0a\x02zz"),
]:
    for number in NUMBERS:
        want = ref_varint(number << 3 | 2) + ref_varint(len(payload)) + payload
        assert _serialize_single(number, t, value, wraps=wraps) == want
        assert _len_single(number, t, value, wraps=wraps) == len(want)
    # a wrapper holding None is written as an empty message too
    assert _serialize_single(3, "message", None, wraps=wraps) == b"\x1a\x00"
    assert _len_single(3, "message", None, wraps=wraps) == 2

# proto types without a wire type
for bad in ["group", "", "Message", None, "INT32"]:
    for fn in (_serialize_single, _len_single):
        try:
            fn(1, bad, b"abc")
        except NotImplementedError as e:
            assert e.args == (bad,)
        else:
            raise AssertionError(f"{fn.__name__} accepted proto type {bad!r}")
# ... and the value is still pre-processed first (errors of that step win)
for fn in (_serialize_single, _len_single):
    try:
        fn(1, "int32", "not a number")
    except TypeError:
        pass
    else:
        raise AssertionError("bad value accepted")


# --------------------------------- 3. whole messages against google.protobuf
SCALARS = VARINT_T[1:] + F32_T + F64_T + ["string", "bytes"]  # no enum/message/map
FD = descriptor_pb2.FieldDescriptorProto
G_TYPE = {t: getattr(FD, "TYPE_" + t.upper()) for t in SCALARS}

fdp = descriptor_pb2.FileDescriptorProto(
    name="c08_keep1.proto", package="c08k1", syntax="proto3"
)
m = fdp.message_type.add(name="All")
for i, t in enumerate(SCALARS):
    m.field.add(name=f"s_{t}", number=i + 1, type=G_TYPE[t], label=FD.LABEL_OPTIONAL)
    m.field.add(
        name=f"r_{t}", number=i + 101, type=G_TYPE[t], label=FD.LABEL_REPEATED
    )
m.field.add(
    name="sub", number=200, type=FD.TYPE_MESSAGE, type_name=".c08k1.All",
    label=FD.LABEL_OPTIONAL,
)
m.field.add(
    name="subs", number=201, type=FD.TYPE_MESSAGE, type_name=".c08k1.All",
    label=FD.LABEL_REPEATED,
)
pool = descriptor_pool.DescriptorPool()
pool.Add(fdp)
GAll = message_factory.GetMessageClass(pool.FindMessageTypeByName("c08k1.All"))

PY = {t: int for t in SCALARS}
PY.update(bool=bool, float=float, double=float, string=str, bytes=bytes)


def make_bp(keep, name):
    """betterproto twin of All, keeping only the field names in ``keep``."""
    ns = {"__annotations__": {}, "__module__": __name__}
    for i, t in enumerate(SCALARS):
        mk = getattr(betterproto, f"{t}_field")
        if f"s_{t}" in keep:
            ns["__annotations__"][f"s_{t}"] = PY[t]
            ns[f"s_{t}"] = mk(i + 1)
        if f"r_{t}" in keep:
            ns["__annotations__"][f"r_{t}"] = List[PY[t]]
            ns[f"r_{t}"] = mk(i + 101)
    if "sub" in keep:
        ns["__annotations__"]["sub"] = name
        ns["sub"] = betterproto.message_field(200)
    if "subs" in keep:
        ns["__annotations__"]["subs"] = f"List[{name}]"
        ns["subs"] = betterproto.message_field(201)
    cls = dataclass(eq=False, repr=False)(type(name, (betterproto.Message,), ns))
    globals()[name] = cls  # forward references are resolved in this module
    return cls


ALL_NAMES = (
    [f"s_{t}" for t in SCALARS] + [f"r_{t}" for t in SCALARS] + ["sub", "subs"]
)
Full = make_bp(ALL_NAMES, "Full")


def rand_value(t):
    v = random.choice(VALUES[t])
    return bytes(v) if t == "bytes" else v


def fill(g, depth=0):
    for t in SCALARS:
        if random.random() < 0.6:
            setattr(g, f"s_{t}", rand_value(t))
        if random.random() < 0.5:
            getattr(g, f"r_{t}").extend(
                rand_value(t) for _ in range(random.randrange(4))
            )
    if depth < 2 and random.random() < 0.6:
        fill(g.sub, depth + 1)
        g.sub.SetInParent()
    if depth < 2:
        for _ in range(random.randrange(3)):
            fill(g.subs.add(), depth + 1)
    return g


n = 0
for trial in range(60):
    g = fill(GAll())
    wire = g.SerializeToString(deterministic=True)

    # the full schema writes what google writes (both emit in field-number order,
    # Full declares its fields in a different order, so compare via the decoder)
    full = Full().parse(wire)
    assert len(full) == len(bytes(full)) == len(wire)
    assert GAll.FromString(bytes(full)) == g

    for _ in range(12):
        keep = [name for name in ALL_NAMES if random.random() < 0.5]
        Older = make_bp(keep, f"Older_{trial}_{n}")
        older = Older().parse(wire)
        again = bytes(older)
        assert len(older) == len(again) == len(wire)
        assert GAll.FromString(again) == g, keep
        assert Full().parse(again) == full
        n += 1
print("google round trips through older schemas:", n)


# ------------- 4. known number arriving with another wire type -> unknown field
@dataclass(eq=False, repr=False)
class Probe(betterproto.Message):
    v: int = betterproto.int32_field(1)
    f: float = betterproto.float_field(2)
    d: int = betterproto.fixed64_field(3)
    s: str = betterproto.string_field(4)
    rv: List[int] = betterproto.sint64_field(5)
    rf: List[float] = betterproto.double_field(6)
    rs: List[str] = betterproto.string_field(7)
    mp: Dict[int, str] = betterproto.map_field(8, "int32", "string")


PAYLOAD = {
    0: b"\x96\x01",
    1: b"\x01\x02\x03\x04\x05\x06\x07\x08",
    2: b"\x08" + b"\x01\x02\x03\x04\x05\x06\x07\x08",
    5: b"\x01\x02\x03\x04",
}
KNOWN_WIRE = {1: {0}, 2: {5}, 3: {1}, 4: {2}, 5: {0, 2}, 6: {1, 2}, 7: {2}, 8: {2}}
for number, wire in itertools.product(range(1, 10), (0, 1, 2, 5)):
    chunk = bytes([number << 3 | wire]) + PAYLOAD[wire]
    if number == 8 and wire == 2:
        chunk = bytes([number << 3 | 2]) + b"\x05\x08\x01\x12\x01a"
    data = chunk + b"\x08\x07" + b"\x22\x02ok"
    p = Probe().parse(data)
    assert p.v == 7 and p.s == "ok"
    if wire in KNOWN_WIRE.get(number, ()):
        assert p._unknown_fields == b"", (number, wire)
    else:
        assert p._unknown_fields == chunk, (number, wire)
        assert bytes(p) == b"\x08\x07\x22\x02ok" + chunk
    assert len(p) == len(bytes(p))
print("ok")
