"""C15 keep1: to_dict()/to_pydict() emission of Timestamp / Duration fields.

Exercises the singular datetime/timedelta arms of Message.to_dict and Message.to_pydict
(plain, proto3-optional, oneof member; default and non-default values; with and without
include_default_values) plus the repeated and map arms, against an independent model of
the JSON forms and against google.protobuf's well-known-type JSON codecs.
"""
import json
import random
from dataclasses import dataclass
from datetime import datetime, timedelta, timezone
from typing import Dict, List, Optional

from google.protobuf import duration_pb2, timestamp_pb2

import betterproto

UTC = timezone.utc
EPOCH = datetime(1970, 1, 1, tzinfo=UTC)
ZERO = timedelta(0)
US = timedelta(microseconds=1)


@dataclass(eq=False, repr=False)
class Plain(betterproto.Message):
    ts: datetime = betterproto.message_field(1)
    d: timedelta = betterproto.message_field(2)


@dataclass(eq=False, repr=False)
class Opt(betterproto.Message):
    ts: Optional[datetime] = betterproto.message_field(1, optional=True, group="_ts")
    d: Optional[timedelta] = betterproto.message_field(2, optional=True, group="_d")


@dataclass(eq=False, repr=False)
class One(betterproto.Message):
    ts: datetime = betterproto.message_field(1, group="kind")
    d: timedelta = betterproto.message_field(2, group="kind")
    n: int = betterproto.int32_field(3, group="kind")


@dataclass(eq=False, repr=False)
class Many(betterproto.Message):
    tss: List[datetime] = betterproto.message_field(1)
    ds: List[timedelta] = betterproto.message_field(2)
    tsm: Dict[str, datetime] = betterproto.map_field(
        3, betterproto.TYPE_STRING, betterproto.TYPE_MESSAGE
    )
    dm: Dict[int, timedelta] = betterproto.map_field(
        4, betterproto.TYPE_INT32, betterproto.TYPE_MESSAGE
    )


# ---------------------------------------------------------------- independent model
def ts_json(dt: datetime) -> str:
    if dt.tzinfo is not None:
        dt = dt.astimezone(UTC)
    text = "%04d-%02d-%02dT%02d:%02d:%02d" % (
        dt.year, dt.month, dt.day, dt.hour, dt.minute, dt.second
    )
    us = dt.microsecond
    if us == 0:
        return text + "Z"
    if us % 1000 == 0:
        return text + ".%03dZ" % (us // 1000)
    return text + ".%06dZ" % us


def d_json(delta: timedelta) -> str:
    total = delta // US
    sign = "-" if total < 0 else ""
    sec, us = divmod(abs(total), 10**6)
    if us % 1000 == 0:
        return "%s%d.%03ds" % (sign, sec, us // 1000)
    return "%s%d.%06ds" % (sign, sec, us)


def check_against_google(dt: datetime, delta: timedelta) -> None:
    ts = timestamp_pb2.Timestamp()
    ts.FromDatetime(dt)
    assert ts.ToJsonString() == ts_json(dt), (dt, ts.ToJsonString(), ts_json(dt))
    du = duration_pb2.Duration()
    du.FromJsonString(d_json(delta))
    want = duration_pb2.Duration()
    want.FromTimedelta(delta)
    assert (du.seconds, du.nanos) == (want.seconds, want.nanos), delta


# ---------------------------------------------------------------- inputs
rnd = random.Random(0xC15)
MIN_DT = datetime(1, 1, 1, tzinfo=UTC)
MAX_DT = datetime(9999, 12, 31, 23, 59, 59, 999999, tzinfo=UTC)
SPAN_US = (MAX_DT - MIN_DT) // US
MAX_D_US = 315_576_000_000 * 10**6


def rand_dt() -> datetime:
    instant = MIN_DT + rnd.randrange(SPAN_US + 1) * US
    if rnd.random() < 0.3:
        instant = instant.replace(microsecond=rnd.choice([0, 1000, 500000, 999000, 1, 999999]))
    off = rnd.choice([0, 0, 1, 30, 60, 330, 345, 840, -1, -210, -300, -720, 1439, -1439])
    try:
        return instant.astimezone(timezone(timedelta(minutes=off)))
    except OverflowError:
        return instant


def rand_td() -> timedelta:
    kind = rnd.random()
    if kind < 0.4:
        us = rnd.randrange(-MAX_D_US, MAX_D_US + 1)
    elif kind < 0.7:
        us = rnd.randrange(-5 * 10**6, 5 * 10**6)
    else:
        us = rnd.choice([-1, 1]) * (rnd.randrange(0, 10**5) * 10**6 + rnd.choice([0, 1000, 500000, 999999, 1]))
    return us * US


datetimes = [
    EPOCH,
    EPOCH + US, EPOCH - US, EPOCH + timedelta(seconds=1), EPOCH - timedelta(seconds=1),
    EPOCH.astimezone(timezone(timedelta(hours=5, minutes=30))),  # epoch instant, other zone
    datetime(1970, 1, 1, tzinfo=timezone(timedelta(hours=5, minutes=30))),  # epoch wall clock
    datetime(1970, 1, 1, tzinfo=timezone(timedelta(hours=-8))),
    MIN_DT, MAX_DT, MIN_DT + US, MAX_DT - US,
    datetime(2242, 12, 31, 23, 0, 0, 1, tzinfo=UTC),
    datetime(1969, 12, 31, 23, 0, 0, 1, tzinfo=UTC),
    datetime(2020, 1, 1, 0, 0, 0, 1500, tzinfo=UTC),
    datetime(2020, 1, 1, 0, 0, 0, 250000, tzinfo=UTC),
] + [rand_dt() for _ in range(1500)]

naive_datetimes = [
    datetime(1970, 1, 1),  # naive: never equal to the aware epoch
    datetime(1970, 1, 1, 0, 0, 0, 1),
    datetime(2023, 3, 15, 22, 35, 51, 253277),
    datetime(1, 1, 1),
    datetime(9999, 12, 31, 23, 59, 59, 999000),
]

timedeltas = [
    ZERO, US, -US, timedelta(seconds=1), timedelta(seconds=-1),
    timedelta(seconds=-1, microseconds=-500000), timedelta(microseconds=-500000),
    timedelta(microseconds=10), timedelta(milliseconds=1), timedelta(days=1),
    MAX_D_US * US, -MAX_D_US * US, MAX_D_US * US - US, -MAX_D_US * US + US,
    (2**53 + 1) * US, -(2**53 + 1) * US, timedelta(seconds=8640000000, microseconds=999999),
] + [rand_td() for _ in range(1500)]

# ---------------------------------------------------------------- singular fields
n = 0
for dt, td in zip(datetimes, timedeltas):
    check_against_google(dt, td)
    for incl in (False, True):
        # plain fields: the default value is left out unless asked for
        m = Plain(ts=dt, d=td)
        want = {}
        if dt != EPOCH or incl:
            want["ts"] = ts_json(dt)
        if td != ZERO or incl:
            want["d"] = d_json(td)
        got = m.to_dict(include_default_values=incl)
        assert got == want, (dt, td, incl, got, want)
        assert json.loads(m.to_json(include_default_values=incl)) == want
        wantpy = {}
        if dt != EPOCH or incl:
            wantpy["ts"] = dt
        if td != ZERO or incl:
            wantpy["d"] = td
        gotpy = m.to_pydict(include_default_values=incl)
        assert gotpy == wantpy and all(gotpy[k] is getattr(m, k) for k in gotpy), (dt, td, gotpy)
        # snake casing gives the same keys here
        assert m.to_dict(betterproto.Casing.SNAKE, incl) == want

        # proto3 optional: a set value is always emitted, default or not
        o = Opt(ts=dt, d=td)
        assert o.to_dict(include_default_values=incl) == {"ts": ts_json(dt), "d": d_json(td)}
        assert o.to_pydict(include_default_values=incl) == {"ts": dt, "d": td}

        # oneof: only the selected member, even when it is the default value
        a = One(ts=dt)
        assert a.to_dict(include_default_values=False) == {"ts": ts_json(dt)}, (dt, a.to_dict())
        assert a.to_pydict(include_default_values=False) == {"ts": dt}
        b = One(d=td)
        assert b.to_dict(include_default_values=False) == {"d": d_json(td)}, (td, b.to_dict())
        assert b.to_pydict(include_default_values=False) == {"d": td}

    # round trip through the dict keeps instant / span
    back = Plain().from_dict(Plain(ts=dt, d=td).to_dict())
    assert back.ts == dt and back.d == td, (dt, td, back.ts, back.d)
    back = Opt().from_dict(Opt(ts=dt, d=td).to_dict())
    assert back.ts == dt and back.d == td
    n += 1

# unset / default-only messages
assert Plain().to_dict() == {} and Plain().to_pydict() == {}
assert Plain().to_dict(include_default_values=True) == {"ts": "1970-01-01T00:00:00Z", "d": "0.000s"}
assert Plain().to_pydict(include_default_values=True) == {"ts": EPOCH, "d": ZERO}
assert Plain(ts=EPOCH, d=ZERO).to_dict() == {}
assert Plain(ts=EPOCH, d=ZERO).to_pydict() == {}
assert Opt().to_dict() == {} and Opt().to_pydict() == {}
assert Opt().to_dict(include_default_values=True) == {"ts": None, "d": None}
assert Opt().to_pydict(include_default_values=True) == {"ts": None, "d": None}
assert Opt(ts=EPOCH).to_dict() == {"ts": "1970-01-01T00:00:00Z"}
assert Opt(d=ZERO).to_dict() == {"d": "0.000s"}
assert Opt(ts=EPOCH).to_pydict() == {"ts": EPOCH} and Opt(d=ZERO).to_pydict() == {"d": ZERO}
assert One().to_dict() == {} and One().to_pydict() == {}
assert One(ts=EPOCH).to_dict() == {"ts": "1970-01-01T00:00:00Z"}
assert One(d=ZERO).to_dict() == {"d": "0.000s"}
assert One(ts=EPOCH).to_pydict() == {"ts": EPOCH} and One(d=ZERO).to_pydict() == {"d": ZERO}
assert One(n=0).to_dict() == {"n": 0} and One(n=0).to_pydict() == {"n": 0}
inc = One(n=5).to_dict(include_default_values=True)
assert inc == {"ts": "1970-01-01T00:00:00Z", "d": "0.000s", "n": 5}, inc
incpy = One(n=5).to_pydict(include_default_values=True)
assert incpy == {"ts": EPOCH, "d": ZERO, "n": 5}, incpy
# a parsed message behaves the same
p = Plain().parse(bytes(Plain(ts=EPOCH + US, d=-US)))
assert p.to_dict() == {"ts": "1970-01-01T00:00:00.000001Z", "d": "-0.000001s"}
assert Plain().parse(b"").to_dict() == {}
assert One().parse(bytes(One(d=ZERO))).to_dict() == {"d": "0.000s"}
assert One().parse(bytes(One(ts=EPOCH))).to_dict() == {"ts": "1970-01-01T00:00:00Z"}
assert Opt().parse(bytes(Opt(ts=EPOCH, d=ZERO))).to_dict() == {"ts": "1970-01-01T00:00:00Z", "d": "0.000s"}

# naive datetimes are written as if UTC and are never the default
for nd in naive_datetimes:
    for incl in (False, True):
        got = Plain(ts=nd).to_dict(include_default_values=incl)
        want = {"ts": ts_json(nd)}
        if incl:
            want["d"] = "0.000s"
        assert got == want, (nd, got)
        gotpy = Plain(ts=nd).to_pydict(include_default_values=incl)
        assert gotpy["ts"] is nd and ("d" in gotpy) == incl
    assert Plain().from_dict(Plain(ts=nd).to_dict()).ts == nd.replace(tzinfo=UTC)

# ---------------------------------------------------------------- repeated and map fields
for i in range(0, 1200, 6):
    dts, tds = datetimes[i : i + 6], timedeltas[i : i + 6]
    m = Many(
        tss=list(dts),
        ds=list(tds),
        tsm={str(k): v for k, v in enumerate(dts)},
        dm={k: v for k, v in enumerate(tds)},
    )
    want = {
        "tss": [ts_json(x) for x in dts],
        "ds": [d_json(x) for x in tds],
        "tsm": {str(k): ts_json(v) for k, v in enumerate(dts)},
        "dm": {k: d_json(v) for k, v in enumerate(tds)},
    }
    assert m.to_dict() == want, (m.to_dict(), want)
    back = Many().from_json(m.to_json())
    assert back.tss == list(dts) and back.ds == list(tds)
    assert back.tsm == m.tsm and back.dm == m.dm
assert Many().to_dict() == {} and Many().to_pydict() == {}
assert Many().to_dict(include_default_values=True) == {"tss": [], "ds": [], "tsm": {}, "dm": {}}
assert Many(tss=[EPOCH], ds=[ZERO]).to_dict() == {"tss": ["1970-01-01T00:00:00Z"], "ds": ["0.000s"]}

print(f"C15 keep1 equiv OK ({n} value pairs)")
