"""C18 / keep1: wrapper-type handling of the plugin field model
(FieldCompiler.field_wraps / wrapped_py_type in plugin/models.py).

Checks, on whatever tree is imported:
  1. field_wraps / wrapped_py_type / get_field_string / annotation for many proto type
     names (the nine wrappers.proto types, look-alikes, other well-known types, user
     types) against a hand-written oracle, under the three typing compilers;
  2. a schema with wrappers in singular / repeated / optional / oneof / map-value
     position and with fields that shadow builtins is generated under all 3 x 2
     option combinations: every variant imports, defines the same classes and encodes
     the same values to the same bytes and JSON; the bytes also equal what
     google.protobuf produces for the same values and expected field lines are pinned.
"""
import importlib
import itertools
import os
import shutil
import sys
import tempfile

import grpc_tools
from grpc_tools import protoc as _protoc

import betterproto
from betterproto.lib.google.protobuf import (
    DescriptorProto,
    FieldDescriptorProto,
    FieldDescriptorProtoLabel,
    FieldDescriptorProtoType,
    FileDescriptorProto,
    FileDescriptorSet,
)
from betterproto.lib.google.protobuf.compiler import CodeGeneratorRequest
from betterproto.plugin import compiler as plugin_compiler
from betterproto.plugin.models import (
    FieldCompiler,
    MessageCompiler,
    OutputTemplate,
    PluginRequestCompiler,
    monkey_patch_oneof_index,
)
from betterproto.plugin.parser import generate_code
from betterproto.plugin.typing_compiler import (
    DirectImportTypingCompiler,
    NoTyping310TypingCompiler,
    TypingImportTypingCompiler,
)

plugin_compiler.subprocess.check_output = lambda cmd, input, encoding: input
monkey_patch_oneof_index()

WKT = os.path.join(os.path.dirname(grpc_tools.__file__), "_proto")
CONFIGS = [
    (t, p)
    for t in ("typing.direct", "typing.root", "typing.310")
    for p in (False, True)
]

# --------------------------------------------------------------------------- part 1
# proto type name -> (wraps argument, unwrapped python type)
ORACLE = {
    ".google.protobuf.DoubleValue": ("betterproto.TYPE_DOUBLE", "float"),
    ".google.protobuf.FloatValue": ("betterproto.TYPE_FLOAT", "float"),
    ".google.protobuf.Int32Value": ("betterproto.TYPE_INT32", "int"),
    ".google.protobuf.Int64Value": ("betterproto.TYPE_INT64", "int"),
    ".google.protobuf.UInt32Value": ("betterproto.TYPE_UINT32", "int"),
    ".google.protobuf.UInt64Value": ("betterproto.TYPE_UINT64", "int"),
    ".google.protobuf.BoolValue": ("betterproto.TYPE_BOOL", "bool"),
    ".google.protobuf.StringValue": ("betterproto.TYPE_STRING", "str"),
    ".google.protobuf.BytesValue": ("betterproto.TYPE_BYTES", "bytes"),
}
NOT_WRAPPERS = [
    ".google.protobuf.EnumValue",
    ".google.protobuf.Value",
    ".google.protobuf.ListValue",
    ".google.protobuf.NullValue",
    ".google.protobuf.Struct",
    ".google.protobuf.Timestamp",
    ".google.protobuf.Duration",
    ".google.protobuf.Empty",
    ".google.protobuf.Any",
    ".google.protobuf.FieldMask",
    ".google.protobuf.Sint32Value",
    ".google.protobuf.MessageValue",
    ".google.protobuf.int32Value",
    ".google.protobuf.INT32Value",
    ".google.protobuf.Int32Value\n",
    ".google.protobuf.Int32Valued",
    ".google.protobuf.Int32Value.Nested",
    ".google.protobuf.Int32",
    ".google.protobuf.",
    "google.protobuf.Int32Value",
    ".my.google.protobuf.Int32Value",
    ".googleXprotobufXInt32Value",
    ".other.Int32Value",
    ".other.StringValue",
    ".pkg.Thing",
    ".pkg.Thing.Inner",
    ".Thing",
    ".pkg.Value",
]


def field_compiler(type_name, typing_compiler, *, label=None, optional=False,
                   siblings=(), name="field_x"):
    request = PluginRequestCompiler(plugin_request_obj=CodeGeneratorRequest())
    output = OutputTemplate(
        parent_request=request,
        package_proto_obj=FileDescriptorProto(package="pkg"),
        typing_compiler=typing_compiler,
    )
    descriptor = DescriptorProto(
        name="Holder",
        field=[
            FieldDescriptorProto(
                name=n, number=10 + i, type=FieldDescriptorProtoType.TYPE_INT32
            )
            for i, n in enumerate(siblings)
        ],
    )
    source = FileDescriptorProto(package="pkg")
    message = MessageCompiler(
        source_file=source, parent=output, proto_obj=descriptor, path=[4, 0],
        typing_compiler=typing_compiler,
    )
    proto = FieldDescriptorProto(
        name=name,
        number=1,
        type=FieldDescriptorProtoType.TYPE_MESSAGE,
        type_name=type_name,
        label=label or FieldDescriptorProtoLabel.LABEL_OPTIONAL,
        proto3_optional=optional,
    )
    return (
        FieldCompiler(
            source_file=source, parent=message, proto_obj=proto, path=[4, 0, 2, 0],
            typing_compiler=typing_compiler,
        ),
        output,
    )


def part1():
    for name in ORACLE:
        # the constants the generated code refers to exist in the runtime
        assert hasattr(betterproto, ORACLE[name][0].split(".")[1]), name
    compilers = (
        DirectImportTypingCompiler,
        TypingImportTypingCompiler,
        NoTyping310TypingCompiler,
    )
    opt_fmt = {
        DirectImportTypingCompiler: "Optional[{}]",
        TypingImportTypingCompiler: "typing.Optional[{}]",
        NoTyping310TypingCompiler: '"{} | None"',
    }
    list_fmt = {
        DirectImportTypingCompiler: "List[{}]",
        TypingImportTypingCompiler: "typing.List[{}]",
        NoTyping310TypingCompiler: '"list[{}]"',
    }
    checked = 0
    for compiler_cls in compilers:
        for type_name, (wraps, py) in ORACLE.items():
            fc, out = field_compiler(type_name, compiler_cls())
            assert fc.field_wraps == wraps, (type_name, fc.field_wraps)
            assert fc.wrapped_py_type == py, (type_name, fc.wrapped_py_type)
            assert fc.betterproto_field_args == [f"wraps={wraps}"]
            assert fc.annotation == opt_fmt[compiler_cls].format(py)
            assert fc.get_field_string() == (
                f"field_x: {opt_fmt[compiler_cls].format(py)} = "
                f"betterproto.message_field(1, wraps={wraps})"
            ), fc.get_field_string()
            assert not fc.use_builtins and not out.builtins_import
            assert out.imports_end == set()

            # proto3 optional wrapper
            fc, out = field_compiler(type_name, compiler_cls(), optional=True)
            assert fc.betterproto_field_args == [f"wraps={wraps}", "optional=True"]
            inner = opt_fmt[compiler_cls].format(py)
            if compiler_cls is NoTyping310TypingCompiler:
                assert fc.annotation == f'"{py} | None | None"', fc.annotation
            else:
                assert fc.annotation == opt_fmt[compiler_cls].format(inner)

            # repeated wrapper
            fc, out = field_compiler(
                type_name, compiler_cls(),
                label=FieldDescriptorProtoLabel.LABEL_REPEATED,
            )
            inner = opt_fmt[compiler_cls].format(py)
            if compiler_cls is NoTyping310TypingCompiler:
                assert fc.annotation == f'"list[{py} | None]"', fc.annotation
            else:
                assert fc.annotation == list_fmt[compiler_cls].format(inner)
            assert fc.field_wraps == wraps and fc.wrapped_py_type == py

            # a sibling field shadows the unwrapped builtin
            fc, out = field_compiler(type_name, compiler_cls(), siblings=(py, "other"))
            assert fc.wrapped_py_type == py and fc.use_builtins and out.builtins_import
            assert fc.annotation == opt_fmt[compiler_cls].format(f"builtins.{py}")
            # ... a sibling shadowing another builtin does not matter
            other = "bytes" if py != "bytes" else "int"
            fc, out = field_compiler(type_name, compiler_cls(), siblings=(other,))
            assert not fc.use_builtins and not out.builtins_import
            assert fc.annotation == opt_fmt[compiler_cls].format(py)
            checked += 5

        for type_name in NOT_WRAPPERS:
            for siblings in ((), ("int", "str", "float", "bool", "bytes")):
                fc, out = field_compiler(type_name, compiler_cls(), siblings=siblings)
                assert fc.field_wraps is None, (type_name, fc.field_wraps)
                assert fc.wrapped_py_type is None, (type_name, fc.wrapped_py_type)
                assert fc.betterproto_field_args == [], type_name
                assert "wraps" not in fc.get_field_string()
                assert fc.get_field_string().endswith("= betterproto.message_field(1)")
                assert not fc.use_builtins
                checked += 1
    return checked


# --------------------------------------------------------------------------- part 2
PROTOS = {
    "wrap/wrap.proto": """
syntax = "proto3";
package wrap;
import "google/protobuf/wrappers.proto";
import "google/protobuf/type.proto";
import "google/protobuf/timestamp.proto";

message Plain {
  google.protobuf.DoubleValue d = 1;
  google.protobuf.FloatValue f = 2;
  google.protobuf.Int32Value i32 = 3;
  google.protobuf.Int64Value i64 = 4;
  google.protobuf.UInt32Value u32 = 5;
  google.protobuf.UInt64Value u64 = 6;
  google.protobuf.BoolValue b = 7;
  google.protobuf.StringValue s = 8;
  google.protobuf.BytesValue by = 9;
  optional google.protobuf.StringValue opt = 11;
  oneof pick {
    google.protobuf.BoolValue pb = 12;
    google.protobuf.Int64Value pi = 13;
    string ps = 14;
  }
  map<string, google.protobuf.Int32Value> by_name = 15;
  google.protobuf.EnumValue ev = 16;
  google.protobuf.Timestamp ts = 17;
  int32 after = 18;
}

message Shadow {
  int32 int = 1;
  google.protobuf.Int32Value wrapped_int = 2;
  string str = 3;
  google.protobuf.StringValue wrapped_str = 4;
  bytes bytes = 5;
  google.protobuf.BytesValue wrapped_bytes = 6;
  double float = 7;
  google.protobuf.FloatValue wrapped_float = 8;
  bool bool = 9;
  google.protobuf.BoolValue wrapped_bool = 10;
  repeated uint32 more_ints = 11;
  map<string, bytes> blobs = 12;
  optional string opt_str = 13;
  google.protobuf.EnumValue ev = 14;
}

service Wrapping {
  rpc Get(google.protobuf.StringValue) returns (Plain);
  rpc List(google.protobuf.Int32Value) returns (stream Shadow);
  rpc Put(stream Plain) returns (google.protobuf.BoolValue);
  rpc Chat(stream Shadow) returns (stream google.protobuf.BytesValue);
}
""",
}

EXPECTED_LINES = [
    "betterproto.message_field(1, wraps=betterproto.TYPE_DOUBLE)",
    "betterproto.message_field(2, wraps=betterproto.TYPE_FLOAT)",
    "betterproto.message_field(3, wraps=betterproto.TYPE_INT32)",
    "betterproto.message_field(4, wraps=betterproto.TYPE_INT64)",
    "betterproto.message_field(5, wraps=betterproto.TYPE_UINT32)",
    "betterproto.message_field(6, wraps=betterproto.TYPE_UINT64)",
    "betterproto.message_field(7, wraps=betterproto.TYPE_BOOL)",
    "betterproto.message_field(8, wraps=betterproto.TYPE_STRING)",
    "betterproto.message_field(9, wraps=betterproto.TYPE_BYTES)",
    "betterproto.message_field(11, wraps=betterproto.TYPE_STRING, optional=True)",
    "betterproto.map_field(15, betterproto.TYPE_STRING, betterproto.TYPE_MESSAGE)",
    "= betterproto.message_field(16)",
    "= betterproto.message_field(17)",
]


def descriptor_set(protos):
    src = tempfile.mkdtemp(prefix="c18src")
    try:
        for name, text in protos.items():
            path = os.path.join(src, name)
            os.makedirs(os.path.dirname(path), exist_ok=True)
            with open(path, "w") as fh:
                fh.write(text)
        out = os.path.join(src, "set.bin")
        rc = _protoc.main(
            ["protoc", f"-I{src}", f"-I{WKT}", f"--descriptor_set_out={out}",
             "--include_imports", "--include_source_info", *sorted(protos)]
        )
        assert rc == 0, "protoc failed"
        with open(out, "rb") as fh:
            return fh.read()
    finally:
        shutil.rmtree(src)


def generate(fds_bytes, files, typing_opt, pydantic):
    fds = FileDescriptorSet().parse(fds_bytes)
    opts = [typing_opt] + (["pydantic_dataclasses"] if pydantic else [])
    request = CodeGeneratorRequest(
        file_to_generate=sorted(files), parameter=",".join(opts), proto_file=fds.file
    )
    stderr, sys.stderr = sys.stderr, open(os.devnull, "w")
    try:
        response = generate_code(request)
    finally:
        sys.stderr.close()
        sys.stderr = stderr
    return {f.name: f.content for f in response.file}


def describe(module):
    out = {}
    for name in module.__all__:
        obj = getattr(module, name)
        if isinstance(obj, type) and issubclass(obj, betterproto.Message):
            meta = obj()._betterproto
            out[name] = {
                fname: (
                    m.number, m.proto_type, m.map_types, m.group, m.wraps,
                    bool(m.optional) and m.group is None,
                    getattr(meta.cls_by_field[fname], "__name__", None),
                )
                for fname, m in meta.meta_by_field_name.items()
            }
        else:
            out[name] = sorted(n for n in vars(obj) if not n.startswith("_"))
    return out


def value_specs():
    """(class name, kwargs) - kwargs use plain python values only."""
    specs = [("Plain", {}), ("Shadow", {})]
    singles = {
        "d": [0.0, -1.5, 1e300], "f": [0.0, 0.5], "i32": [0, -1, 2**31 - 1, -(2**31)],
        "i64": [0, -(2**63), 2**63 - 1], "u32": [0, 2**32 - 1], "u64": [0, 2**64 - 1],
        "b": [False, True], "s": ["", "text", "é中"], "by": [b"", b"\x00\xff"],
        "opt": ["", "o"], "pb": [False, True], "pi": [0, 7], "ps": ["", "p"],
        "after": [3],
    }
    for key, values in singles.items():
        for v in values:
            specs.append(("Plain", {key: v}))
    specs.append(("Plain", dict(d=2.5, f=1.0, i32=1, i64=2, u32=3, u64=4, b=True,
                                s="s", by=b"b", opt="x", pi=9, after=1)))
    shadow = {
        "int": [5], "wrapped_int": [0, 6], "str": ["z"], "wrapped_str": ["", "w"],
        "bytes": [b"q"], "wrapped_bytes": [b"", b"r"], "float": [1.25],
        "wrapped_float": [0.0, 2.5], "bool": [True], "wrapped_bool": [False, True],
        "more_ints": [[1, 2, 3]], "blobs": [{"k": b"v"}], "opt_str": ["", "u"],
    }
    for key, values in shadow.items():
        for v in values:
            specs.append(("Shadow", {key: v}))
    specs.append(("Shadow", dict(int=1, wrapped_int=2, str="a", wrapped_str="b",
                                 bytes=b"c", wrapped_bytes=b"d", float=0.5,
                                 wrapped_float=1.5, bool=True, wrapped_bool=True)))
    return specs


def google_classes(fds_bytes):
    from google.protobuf import descriptor_pb2, descriptor_pool, message_factory

    fds = descriptor_pb2.FileDescriptorSet.FromString(fds_bytes)
    pool = descriptor_pool.DescriptorPool()
    for f in fds.file:
        pool.Add(f)
    get = getattr(message_factory, "GetMessageClass", None)
    if get is None:
        factory = message_factory.MessageFactory(pool)
        get = factory.GetPrototype
    return {
        n: get(pool.FindMessageTypeByName(f"wrap.{n}")) for n in ("Plain", "Shadow")
    }


WRAPPED = {
    "d", "f", "i32", "i64", "u32", "u64", "b", "s", "by", "opt", "pb", "pi",
    "wrapped_int", "wrapped_str", "wrapped_bytes", "wrapped_float", "wrapped_bool",
}


def google_bytes(classes, cls_name, kwargs):
    msg = classes[cls_name]()
    for key, value in kwargs.items():
        if key in WRAPPED:
            getattr(msg, key).value = value
        elif isinstance(value, list):
            getattr(msg, key).extend(value)
        elif isinstance(value, dict):
            for k, v in value.items():
                getattr(msg, key)[k] = v
        else:
            setattr(msg, key, value)
    return msg.SerializeToString(deterministic=True)


def part2():
    fds = descriptor_set(PROTOS)
    gclasses = google_classes(fds)
    specs = value_specs()
    root = tempfile.mkdtemp(prefix="c18gen")
    sys.path.insert(0, root)
    compared = 0
    try:
        reference = None
        for idx, (typing_opt, pydantic) in enumerate(CONFIGS):
            label = f"{typing_opt}{'+pydantic' if pydantic else ''}"
            top = f"c18_keep1_{idx}"
            files = generate(fds, PROTOS, typing_opt, pydantic)
            source = files["wrap/__init__.py"]
            for expected in EXPECTED_LINES:
                assert expected in source, (label, expected)
            assert source.count("wraps=") == 9 + 1 + 2 + 5, (label, source.count("wraps="))
            assert source.count("import builtins") == 1, label
            for name, content in files.items():
                path = os.path.join(root, top, name)
                os.makedirs(os.path.dirname(path), exist_ok=True)
                with open(path, "w") as fh:
                    fh.write(content)
            open(os.path.join(root, top, "__init__.py"), "a").close()
            importlib.invalidate_caches()
            module = importlib.import_module(f"{top}.wrap")
            shape = describe(module)
            encoded = []
            for cls_name, kwargs in specs:
                msg = getattr(module, cls_name)(**kwargs)
                raw = bytes(msg)
                assert raw == google_bytes(gclasses, cls_name, kwargs), (
                    label, cls_name, kwargs, raw)
                again = getattr(module, cls_name)().parse(raw)
                assert again == msg, (label, cls_name, kwargs)
                assert bytes(again) == raw
                assert getattr(module, cls_name)().from_json(msg.to_json()) == msg
                encoded.append((raw, msg.to_json()))
                compared += 1
            # the wrapper map keeps the wrapper message class
            lib = (
                importlib.import_module("betterproto.lib.pydantic.google.protobuf")
                if pydantic
                else importlib.import_module("betterproto.lib.google.protobuf")
            )
            held = module.Plain(by_name={"k": lib.Int32Value(value=4)})
            encoded.append((bytes(held), held.to_json()))
            assert bytes(held) == bytes.fromhex("7a070a016b12020804"), bytes(held).hex()
            if reference is None:
                reference = (label, shape, encoded)
            else:
                assert shape == reference[1], (label, "classes differ", reference[0])
                assert encoded == reference[2], (label, "encodings differ", reference[0])
        return compared
    finally:
        sys.path.remove(root)
        shutil.rmtree(root, ignore_errors=True)


if __name__ == "__main__":
    n1 = part1()
    n2 = part2()
    print(f"equiv ok: {n1} field-model checks, {n2} value encodings x 6 configurations")
