"""Equivalence check for the datetime / timedelta / wrapper dispatch in
_preprocess_single and _len_preprocessed_single (property C15).

Messages with Timestamp / Duration fields in every position (singular, optional, oneof,
repeated, map value, next to wrapper fields) are serialised, decoded by google.protobuf
and compared with the reference's own encoding of the same values; len() must agree
with the serialised size; the two functions are also called directly."""
import random
from dataclasses import dataclass
from datetime import datetime, timedelta, timezone
from typing import Dict, List, Optional

import betterproto
from betterproto import (
    TYPE_BOOL, TYPE_BYTES, TYPE_INT64, TYPE_MESSAGE, TYPE_STRING, TYPE_SINT32, TYPE_DOUBLE,
    _Duration, _Timestamp, _len_preprocessed_single, _preprocess_single,
)
from google.protobuf import (
    descriptor_pb2, descriptor_pool, duration_pb2, message_factory, timestamp_pb2, wrappers_pb2,
)

UTC = timezone.utc
EPOCH = datetime(1970, 1, 1, tzinfo=UTC)
MIN = datetime(1, 1, 1, tzinfo=UTC)
MAX = datetime(9999, 12, 31, 23, 59, 59, 999999, tzinfo=UTC)
SPAN_US = (MAX - MIN) // timedelta(microseconds=1)
MAX_D_US = 315_576_000_000 * 10**6
US = timedelta(microseconds=1)


# ---------------------------------------------------------------- betterproto side
@dataclass(eq=False, repr=False)
class Inner(betterproto.Message):
    ts: datetime = betterproto.message_field(1)
    span: timedelta = betterproto.message_field(2)
    n: int = betterproto.int64_field(3)


@dataclass(eq=False, repr=False)
class Big(betterproto.Message):
    ts: datetime = betterproto.message_field(1)
    span: timedelta = betterproto.message_field(2)
    tss: List[datetime] = betterproto.message_field(3)
    spans: List[timedelta] = betterproto.message_field(4)
    ts_map: Dict[str, datetime] = betterproto.map_field(5, TYPE_STRING, TYPE_MESSAGE)
    span_map: Dict[str, timedelta] = betterproto.map_field(6, TYPE_STRING, TYPE_MESSAGE)
    wi: Optional[int] = betterproto.message_field(7, wraps=TYPE_INT64)
    ws: Optional[str] = betterproto.message_field(8, wraps=TYPE_STRING)
    opt_ts: Optional[datetime] = betterproto.message_field(9, optional=True)
    one_ts: datetime = betterproto.message_field(10, group="pick")
    one_span: timedelta = betterproto.message_field(11, group="pick")
    wb: Optional[bool] = betterproto.message_field(12, wraps=TYPE_BOOL)
    inner: Inner = betterproto.message_field(13)
    inners: List[Inner] = betterproto.message_field(14)
    opt_span: Optional[timedelta] = betterproto.message_field(15, optional=True)


# ---------------------------------------------------------------- reference side
def build_reference():
    fd = descriptor_pb2.FileDescriptorProto(name="c15_keep2.proto", package="c15k2", syntax="proto3")
    fd.dependency.extend([
        "google/protobuf/timestamp.proto", "google/protobuf/duration.proto",
        "google/protobuf/wrappers.proto"])
    F = descriptor_pb2.FieldDescriptorProto
    TS, DU = ".google.protobuf.Timestamp", ".google.protobuf.Duration"

    inner = fd.message_type.add(name="Inner")
    inner.field.add(name="ts", number=1, type=F.TYPE_MESSAGE, type_name=TS, label=F.LABEL_OPTIONAL)
    inner.field.add(name="span", number=2, type=F.TYPE_MESSAGE, type_name=DU, label=F.LABEL_OPTIONAL)
    inner.field.add(name="n", number=3, type=F.TYPE_INT64, label=F.LABEL_OPTIONAL)

    big = fd.message_type.add(name="Big")

    def entry(name, value_type):
        e = big.nested_type.add(name=name)
        e.options.map_entry = True
        e.field.add(name="key", number=1, type=F.TYPE_STRING, label=F.LABEL_OPTIONAL)
        e.field.add(name="value", number=2, type=F.TYPE_MESSAGE, type_name=value_type,
                    label=F.LABEL_OPTIONAL)

    entry("TsMapEntry", TS)
    entry("SpanMapEntry", DU)
    big.oneof_decl.add(name="pick")        # index 0
    big.oneof_decl.add(name="_opt_ts")     # index 1 (synthetic)
    big.oneof_decl.add(name="_opt_span")   # index 2 (synthetic)

    def msg(name, number, type_name, label=F.LABEL_OPTIONAL, **kw):
        return big.field.add(name=name, number=number, type=F.TYPE_MESSAGE,
                             type_name=type_name, label=label, **kw)

    msg("ts", 1, TS)
    msg("span", 2, DU)
    msg("tss", 3, TS, F.LABEL_REPEATED)
    msg("spans", 4, DU, F.LABEL_REPEATED)
    msg("ts_map", 5, ".c15k2.Big.TsMapEntry", F.LABEL_REPEATED)
    msg("span_map", 6, ".c15k2.Big.SpanMapEntry", F.LABEL_REPEATED)
    msg("wi", 7, ".google.protobuf.Int64Value")
    msg("ws", 8, ".google.protobuf.StringValue")
    msg("opt_ts", 9, TS, oneof_index=1, proto3_optional=True)
    msg("one_ts", 10, TS, oneof_index=0)
    msg("one_span", 11, DU, oneof_index=0)
    msg("wb", 12, ".google.protobuf.BoolValue")
    msg("inner", 13, ".c15k2.Inner")
    msg("inners", 14, ".c15k2.Inner", F.LABEL_REPEATED)
    msg("opt_span", 15, DU, oneof_index=2, proto3_optional=True)

    pool = descriptor_pool.Default()
    # make sure the dependencies are in the pool
    timestamp_pb2.DESCRIPTOR, duration_pb2.DESCRIPTOR, wrappers_pb2.DESCRIPTOR
    pool.Add(fd)
    get = getattr(message_factory, "GetMessageClass", None)
    if get is None:
        factory = message_factory.MessageFactory(pool)
        get = factory.GetPrototype
    return get(pool.FindMessageTypeByName("c15k2.Big"))


RefBig = build_reference()


def ts_pair(dt):
    r = timestamp_pb2.Timestamp()
    r.FromDatetime(dt)
    return r.seconds, r.nanos


def du_pair(td):
    r = duration_pb2.Duration()
    r.FromTimedelta(td)
    return r.seconds, r.nanos


def pair(m):
    return m.seconds, m.nanos


# ---------------------------------------------------------------- value generators
rng = random.Random(1502)

DT_EDGES = [
    MIN, MAX, EPOCH, EPOCH + US, EPOCH - US, EPOCH + timedelta(seconds=1),
    EPOCH - timedelta(seconds=1), EPOCH - timedelta(seconds=1, microseconds=1),
    EPOCH + timedelta(microseconds=2**53 + 1), EPOCH - timedelta(microseconds=2**53 + 1),
    datetime(2038, 1, 19, 3, 14, 8, tzinfo=UTC), MAX.replace(microsecond=0),
    datetime(1969, 12, 31, 19, 0, 0, tzinfo=timezone(timedelta(hours=-5))),  # == EPOCH
    datetime(2000, 2, 29, 23, 59, 59, 999999, tzinfo=timezone(timedelta(hours=5, minutes=30))),
]
TD_EDGES = [
    timedelta(0), US, -US, timedelta(seconds=1), timedelta(seconds=-1),
    timedelta(seconds=-1, microseconds=-500000), timedelta(microseconds=-999999),
    timedelta(microseconds=999999), timedelta(seconds=1, microseconds=-1),
    MAX_D_US * US, -MAX_D_US * US, (MAX_D_US - 1) * US, -(MAX_D_US - 1) * US,
    (2**53 + 1) * US, -(2**53 + 1) * US, (2**53 - 1) * US, timedelta(days=-1, microseconds=1),
]
OFFSETS = [timedelta(0), timedelta(hours=-8), timedelta(hours=5, minutes=45), timedelta(hours=14),
           timedelta(hours=-12)]


def rand_dt():
    if rng.random() < 0.25:
        return rng.choice(DT_EDGES)
    dt = MIN + timedelta(days=1) + rng.randrange(SPAN_US - 2 * 86400 * 10**6) * US
    k = rng.randrange(4)
    if k == 0:
        dt = dt.replace(microsecond=0)
    elif k == 1:
        dt = dt.replace(microsecond=rng.randrange(1000) * 1000)
    return dt.astimezone(timezone(rng.choice(OFFSETS)))


def rand_td():
    if rng.random() < 0.25:
        return rng.choice(TD_EDGES)
    k = rng.randrange(5)
    if k == 0:
        return rng.randrange(-MAX_D_US, MAX_D_US + 1) * US
    if k == 1:
        return rng.randrange(-(10**6), 10**6 + 1) * US
    if k == 2:
        return timedelta(seconds=rng.randrange(-10**6, 10**6))
    if k == 3:
        return rng.randrange(-2**54, 2**54) * US
    return -abs(rng.randrange(10**9)) * US


# ---------------------------------------------------------------- direct calls
def direct(value, wraps, expected_bytes):
    got = _preprocess_single(TYPE_MESSAGE, wraps, value)
    assert type(got) is bytes and got == expected_bytes, (value, wraps, got, expected_bytes)
    assert _len_preprocessed_single(TYPE_MESSAGE, wraps, value) == len(expected_bytes)


for dt in DT_EDGES + [rand_dt() for _ in range(3000)]:
    s, n = ts_pair(dt)
    direct(dt, "", timestamp_pb2.Timestamp(seconds=s, nanos=n).SerializeToString())
    ref = timestamp_pb2.Timestamp.FromString(_preprocess_single(TYPE_MESSAGE, "", dt))
    assert pair(ref) == (s, n) and 0 <= ref.nanos < 10**9
for td in TD_EDGES + [rand_td() for _ in range(3000)]:
    s, n = du_pair(td)
    direct(td, "", duration_pb2.Duration(seconds=s, nanos=n).SerializeToString())
    ref = duration_pb2.Duration.FromString(_preprocess_single(TYPE_MESSAGE, "", td))
    assert pair(ref) == (s, n) and not (ref.seconds > 0 > ref.nanos or ref.seconds < 0 < ref.nanos)

# wrappers: unset -> nothing, default and non-default values -> wrapper message
direct(None, TYPE_INT64, b"")
direct(None, TYPE_STRING, b"")
direct(None, TYPE_BOOL, b"")
direct(0, TYPE_INT64, b"")
direct(5, TYPE_INT64, wrappers_pb2.Int64Value(value=5).SerializeToString())
direct(-5, TYPE_INT64, wrappers_pb2.Int64Value(value=-5).SerializeToString())
direct("", TYPE_STRING, b"")
direct("xy", TYPE_STRING, wrappers_pb2.StringValue(value="xy").SerializeToString())
direct(True, TYPE_BOOL, wrappers_pb2.BoolValue(value=True).SerializeToString())
direct(False, TYPE_BOOL, b"")
# plain sub-messages and already converted well-known messages go through unchanged
direct(Inner(), "", b"")
direct(Inner(n=3), "", b"\x18\x03")
direct(_Timestamp(seconds=1, nanos=2), "", b"\x08\x01\x10\x02")
direct(_Duration(seconds=-1, nanos=-2), "",
       duration_pb2.Duration(seconds=-1, nanos=-2).SerializeToString())
# a None that is not a wrapper is still an error, not an empty payload
for fn in (_preprocess_single, _len_preprocessed_single):
    try:
        fn(TYPE_MESSAGE, "", None)
    except TypeError:
        pass
    else:
        raise AssertionError("None for a plain message field must raise TypeError")
# other types are untouched by the message branch
assert _preprocess_single(TYPE_STRING, "", "hé") == "hé".encode()
assert _len_preprocessed_single(TYPE_STRING, "", "hé") == 3
assert _preprocess_single(TYPE_BYTES, "", b"abc") == b"abc"
assert _len_preprocessed_single(TYPE_BYTES, "", b"abc") == 3
assert _preprocess_single(TYPE_INT64, "", -1) == b"\xff" * 9 + b"\x01"
assert _len_preprocessed_single(TYPE_INT64, "", -1) == 10
assert _preprocess_single(TYPE_SINT32, "", -1) == b"\x01"
assert _len_preprocessed_single(TYPE_DOUBLE, "", 1.5) == 8


# ---------------------------------------------------------------- whole messages
def check_message(kw):
    msg = Big(**kw)
    data = bytes(msg)
    assert len(msg) == len(data), (len(msg), len(data), kw)
    ref = RefBig.FromString(data)

    # build the reference message from the same python values
    exp = RefBig()
    if "ts" in kw:
        exp.ts.FromDatetime(kw["ts"])
    if "span" in kw:
        exp.span.FromTimedelta(kw["span"])
    for dt in kw.get("tss", []):
        exp.tss.add().FromDatetime(dt)
    for td in kw.get("spans", []):
        exp.spans.add().FromTimedelta(td)
    for k, dt in kw.get("ts_map", {}).items():
        exp.ts_map[k].FromDatetime(dt)
    for k, td in kw.get("span_map", {}).items():
        exp.span_map[k].FromTimedelta(td)
    if kw.get("wi") is not None:
        exp.wi.value = kw["wi"]
    if kw.get("ws") is not None:
        exp.ws.value = kw["ws"]
    if kw.get("wb") is not None:
        exp.wb.value = kw["wb"]
    if kw.get("opt_ts") is not None:
        exp.opt_ts.FromDatetime(kw["opt_ts"])
    if kw.get("opt_span") is not None:
        exp.opt_span.FromTimedelta(kw["opt_span"])
    if "one_ts" in kw:
        exp.one_ts.FromDatetime(kw["one_ts"])
    if "one_span" in kw:
        exp.one_span.FromTimedelta(kw["one_span"])
    if "inner" in kw:
        i = kw["inner"]
        exp.inner.ts.FromDatetime(i.ts)
        exp.inner.span.FromTimedelta(i.span)
        exp.inner.n = i.n
    for i in kw.get("inners", []):
        e = exp.inners.add()
        e.ts.FromDatetime(i.ts)
        e.span.FromTimedelta(i.span)
        e.n = i.n

    # field by field: the reference decodes exactly the reference's (seconds, nanos).
    # (betterproto does not put a singular, non-optional field holding the zero value on
    # the wire, so presence is only compared where the schema tracks it.)
    def norm(m):
        return {
            "ts": pair(m.ts), "span": pair(m.span),
            "tss": [pair(x) for x in m.tss], "spans": [pair(x) for x in m.spans],
            "ts_map": {k: pair(v) for k, v in m.ts_map.items()},
            "span_map": {k: pair(v) for k, v in m.span_map.items()},
            "wi": m.wi.value if m.HasField("wi") else None,
            "ws": m.ws.value if m.HasField("ws") else None,
            "wb": m.wb.value if m.HasField("wb") else None,
            "opt_ts": pair(m.opt_ts) if m.HasField("opt_ts") else None,
            "opt_span": pair(m.opt_span) if m.HasField("opt_span") else None,
            "pick": m.WhichOneof("pick"),
            "one_ts": pair(m.one_ts), "one_span": pair(m.one_span),
            "inner": (pair(m.inner.ts), pair(m.inner.span), m.inner.n),
            "inners": [(pair(i.ts), pair(i.span), i.n) for i in m.inners],
        }

    got, want = norm(ref), norm(exp)
    for name in want:
        assert got[name] == want[name], (name, got[name], want[name], kw)
    for t in [ref.ts, ref.opt_ts, ref.one_ts, ref.inner.ts, *ref.tss, *ref.ts_map.values()]:
        assert 0 <= t.nanos < 10**9
    for d in [ref.span, ref.opt_span, ref.one_span, ref.inner.span, *ref.spans,
              *ref.span_map.values()]:
        assert not (d.seconds > 0 > d.nanos or d.seconds < 0 < d.nanos)

    # and betterproto decodes its own bytes and the reference's bytes to the same values
    for blob in (data, exp.SerializeToString()):
        back = Big().parse(blob)
        assert back.ts == kw.get("ts", EPOCH)
        assert back.span == kw.get("span", timedelta(0))
        assert back.tss == kw.get("tss", [])
        assert back.spans == kw.get("spans", [])
        assert back.ts_map == kw.get("ts_map", {})
        assert back.span_map == kw.get("span_map", {})
        assert back.wi == kw.get("wi") and back.ws == kw.get("ws") and back.wb == kw.get("wb")
        assert back.opt_ts == kw.get("opt_ts") and back.opt_span == kw.get("opt_span")
        if "one_ts" in kw:
            assert betterproto.which_one_of(back, "pick") == ("one_ts", kw["one_ts"])
        elif "one_span" in kw:
            assert betterproto.which_one_of(back, "pick") == ("one_span", kw["one_span"])
        else:
            assert betterproto.which_one_of(back, "pick") == ("", None)
        assert len(back) == len(bytes(back))
    return data


def rand_inner():
    return Inner(ts=rand_dt(), span=rand_td(), n=rng.randrange(-5, 5))


def rand_kwargs():
    kw = {}
    r = rng.random
    if r() < 0.6:
        kw["ts"] = rand_dt()
    if r() < 0.6:
        kw["span"] = rand_td()
    if r() < 0.4:
        kw["tss"] = [rand_dt() for _ in range(rng.randrange(4))]
    if r() < 0.4:
        kw["spans"] = [rand_td() for _ in range(rng.randrange(4))]
    if r() < 0.4:
        kw["ts_map"] = {rng.choice(["", "a", "b", "kéy"]): rand_dt()
                        for _ in range(rng.randrange(3))}
    if r() < 0.4:
        kw["span_map"] = {rng.choice(["", "a", "b", "zz"]): rand_td()
                          for _ in range(rng.randrange(3))}
    if r() < 0.4:
        kw["wi"] = rng.choice([None, 0, 1, -1, 2**62, -2**63])
    if r() < 0.4:
        kw["ws"] = rng.choice([None, "", "x", "€"])
    if r() < 0.4:
        kw["wb"] = rng.choice([None, False, True])
    if r() < 0.4:
        kw["opt_ts"] = rng.choice([None, EPOCH, rand_dt()])
    if r() < 0.4:
        kw["opt_span"] = rng.choice([None, timedelta(0), rand_td()])
    k = rng.randrange(4)
    if k == 0:
        kw["one_ts"] = rng.choice([EPOCH, rand_dt()])
    elif k == 1:
        kw["one_span"] = rng.choice([timedelta(0), rand_td()])
    if r() < 0.4:
        kw["inner"] = rand_inner()
    if r() < 0.4:
        kw["inners"] = [rand_inner() for _ in range(rng.randrange(3))]
    return kw


# fixed cases first
assert check_message({}) == b""
assert check_message({"ts": EPOCH, "span": timedelta(0)}) == b""
assert check_message({"one_ts": EPOCH}) == b"\x52\x00"
assert check_message({"one_span": timedelta(0)}) == b"\x5a\x00"
assert check_message({"opt_ts": EPOCH}) == b"\x4a\x00"
assert check_message({"opt_span": timedelta(0)}) == b"\x7a\x00"
assert check_message({"tss": [EPOCH, EPOCH]}) == b"\x1a\x00\x1a\x00"
assert check_message({"spans": [timedelta(0)]}) == b"\x22\x00"
assert check_message({"wi": 0, "ws": "", "wb": False}) == b"\x3a\x00\x42\x00\x62\x00"
assert check_message({"wi": None, "ws": None, "wb": None}) == b""
check_message({"ts_map": {"": EPOCH}, "span_map": {"": timedelta(0)}})
for dt in DT_EDGES:
    check_message({"ts": dt, "tss": [dt, EPOCH, dt], "ts_map": {"k": dt}, "opt_ts": dt,
                   "one_ts": dt})
for td in TD_EDGES:
    check_message({"span": td, "spans": [td, timedelta(0), td], "span_map": {"k": td},
                   "opt_span": td, "one_span": td})

N = 4000
for _ in range(N):
    check_message(rand_kwargs())

print("C15 keep2 equiv: OK (%d random messages)" % N)
