"""Equivalence checks for the pickle plumbing of betterproto.Message:

* load_fields (the stream splitter behind load / parse / FromString and therefore
  behind every unpickle) - values, raw bytes, laziness and every error path, against
  an independent reference splitter written here, against parse_fields and against
  google.protobuf as an encoder;
* __reduce__ / __getstate__ / __setstate__ - every pickle protocol, C and pure
  Python pickler, equality / byte identity / oneof selection / nested presence /
  unknown fields / independence, plus old-style (FromString, (data,)) pickles.

Passes on the pristine tree and with the refactor applied.
"""
import copy
import io
import pickle
import random
import struct
from dataclasses import dataclass
from typing import Dict, List, Optional

import betterproto
from betterproto import (
    WIRE_FIXED_32,
    WIRE_FIXED_64,
    WIRE_LEN_DELIM,
    WIRE_VARINT,
    load_fields,
    parse_fields,
)

rnd = random.Random(1414)


# --------------------------------------------------------------------------- #
# reference implementation of the wire splitter (independent of the library)
# --------------------------------------------------------------------------- #
class RefEOF(Exception):
    pass


class RefValue(Exception):
    def __init__(self, text):
        super().__init__(text)
        self.text = text


def ref_varint(data, pos, *, at_boundary=False):
    result = 0
    shift = 0
    start = pos
    while True:
        if shift >= 64:
            raise RefValue("Too many bytes when decoding varint.")
        if pos >= len(data):
            if at_boundary and pos == start:
                return None, pos
            raise RefEOF()
        b = data[pos]
        pos += 1
        result |= (b & 0x7F) << shift
        shift += 7
        if not b & 0x80:
            return result, pos


def ref_split(data):
    """Returns (fields, error) where fields are the complete fields before the
    error (or the end) and error is None, 'eof' or the ValueError text."""
    out = []
    pos = 0
    try:
        while True:
            start = pos
            key, pos = ref_varint(data, pos, at_boundary=True)
            if key is None:
                return out, None
            number, wire_type = key >> 3, key & 7
            if number == 0:
                raise RefValue("Invalid field number 0.")
            if wire_type == 0:
                value, pos = ref_varint(data, pos)
            elif wire_type == 1:
                if pos + 8 > len(data):
                    raise RefEOF()
                value, pos = data[pos : pos + 8], pos + 8
            elif wire_type == 5:
                if pos + 4 > len(data):
                    raise RefEOF()
                value, pos = data[pos : pos + 4], pos + 4
            elif wire_type == 2:
                length, pos = ref_varint(data, pos)
                if pos + length > len(data):
                    raise RefEOF()
                value, pos = data[pos : pos + length], pos + length
            else:
                raise RefValue(
                    f"Unsupported wire type {wire_type} in field {number}."
                )
            out.append((number, wire_type, value, data[start:pos]))
    except RefEOF:
        return out, "eof"
    except RefValue as e:
        return out, e.text


def lib_split(data):
    out = []
    stream = io.BytesIO(data)
    consumed = 0
    gen = load_fields(stream)
    # nothing is read before the first field is asked for
    assert stream.tell() == 0
    try:
        for f in gen:
            consumed += len(f.raw)
            # no read-ahead: the stream stands right behind the field just yielded
            assert stream.tell() == consumed, (data, stream.tell(), consumed)
            assert type(f.raw) is bytes
            assert type(f.value) is (int if f.wire_type == WIRE_VARINT else bytes)
            out.append((f.number, f.wire_type, f.value, f.raw))
    except EOFError:
        return out, "eof"
    except ValueError as e:
        return out, str(e)
    return out, None


def enc_varint(n):
    out = bytearray()
    while True:
        b = n & 0x7F
        n >>= 7
        if n:
            out.append(b | 0x80)
        else:
            out.append(b)
            return bytes(out)


def random_field():
    number = rnd.choice([1, 2, 15, 16, 2047, 2048, 2**29 - 1, rnd.randrange(1, 2**29)])
    wt = rnd.choice([0, 1, 2, 5])
    key = enc_varint((number << 3) | wt)
    if wt == 0:
        v = rnd.choice([0, 1, 127, 128, 2**32 - 1, 2**63, 2**64 - 1, rnd.randrange(2**64)])
        return key + enc_varint(v)
    if wt == 1:
        return key + rnd.randbytes(8)
    if wt == 5:
        return key + rnd.randbytes(4)
    n = rnd.choice([0, 1, 2, 127, 128, 300, rnd.randrange(0, 40)])
    return key + enc_varint(n) + rnd.randbytes(n)


def check_splitter():
    checked = 0
    # valid messages, every prefix of them (truncation at every position)
    for _ in range(300):
        data = b"".join(random_field() for _ in range(rnd.randrange(0, 6)))
        for cut in range(len(data) + 1) if len(data) < 120 else [len(data)]:
            piece = data[:cut]
            assert lib_split(piece) == ref_split(piece), piece
            checked += 1
        fields, err = lib_split(data)
        assert err is None
        assert b"".join(f[3] for f in fields) == data
        # the buffer based twin sees the same fields
        assert [
            (f.number, f.wire_type, f.value, f.raw) for f in parse_fields(data)
        ] == fields
    # malformed: field number 0, group / reserved wire types, overlong varints,
    # garbage
    specials = [
        b"\x00",
        b"\x00\x01",
        b"\x02\x00",  # number 0, wire type 2
        b"\x0b",  # start group
        b"\x0c",  # end group
        b"\x0e",
        b"\x0f",
        b"\x08\x01\x0b\x00",
        b"\x80" * 9 + b"\x01",
        b"\x80" * 10 + b"\x01",
        b"\x08" + b"\xff" * 9 + b"\x01",
        b"\x08" + b"\xff" * 10 + b"\x01",
        b"\x0a" + b"\xff" * 10 + b"\x01",
        b"\x0a\x05abc",
        b"\x09\x01\x02",
        b"\x0d\x01\x02\x03",
        b"\x80",
        b"\x0a",
        b"\x0a\x80",
    ]
    for data in specials:
        assert lib_split(data) == ref_split(data), data
        checked += 1
    for _ in range(3000):
        data = rnd.randbytes(rnd.randrange(0, 12))
        assert lib_split(data) == ref_split(data), data
        checked += 1
    # good fields followed by a bad one: the good ones are delivered first
    good = b"\x08\x05\x12\x02hi"
    for bad in (b"\x00", b"\x0b", b"\x15\x01", b"\x1a\x09x"):
        fields, err = lib_split(good + bad)
        assert [f[3] for f in fields] == [b"\x08\x05", b"\x12\x02hi"]
        assert err is not None
        assert (fields, err) == ref_split(good + bad)
    return checked


# --------------------------------------------------------------------------- #
# messages
# --------------------------------------------------------------------------- #
class Color(betterproto.Enum):
    ZERO = 0
    RED = 1
    NEG = -3


@dataclass(eq=False, repr=False)
class Empty(betterproto.Message):
    pass


@dataclass(eq=False, repr=False)
class Leaf(betterproto.Message):
    x: int = betterproto.int32_field(1)
    names: List[str] = betterproto.string_field(2)


@dataclass(eq=False, repr=False)
class Mid(betterproto.Message):
    leaf: Leaf = betterproto.message_field(1)
    n: int = betterproto.sint64_field(2)


@dataclass(eq=False, repr=False)
class Top(betterproto.Message):
    i64: int = betterproto.int64_field(1)
    f64: int = betterproto.fixed64_field(2)
    s: str = betterproto.string_field(3)
    f32: int = betterproto.sfixed32_field(4)
    mid: Mid = betterproto.message_field(5)
    nums: List[int] = betterproto.uint32_field(6)
    leaves: List[Leaf] = betterproto.message_field(7)
    by_name: Dict[str, Leaf] = betterproto.map_field(
        8, betterproto.TYPE_STRING, betterproto.TYPE_MESSAGE
    )
    counts: Dict[int, int] = betterproto.map_field(
        9, betterproto.TYPE_INT32, betterproto.TYPE_INT64
    )
    a: int = betterproto.int32_field(10, group="pick")
    b: str = betterproto.string_field(11, group="pick")
    c: Leaf = betterproto.message_field(12, group="pick")
    e: Empty = betterproto.message_field(13, group="pick")
    color: Color = betterproto.enum_field(14)
    opt: Optional[int] = betterproto.int32_field(15, optional=True)
    d: float = betterproto.double_field(16)
    blob: bytes = betterproto.bytes_field(17)
    empty: Empty = betterproto.message_field(18)
    flag: bool = betterproto.bool_field(19)
    dbls: List[float] = betterproto.double_field(20)


@dataclass(eq=False, repr=False)
class TopSubset(betterproto.Message):
    """Knows only a few of Top's fields: the rest arrives as unknown fields."""

    s: str = betterproto.string_field(3)
    mid: Mid = betterproto.message_field(5)
    # number 1 with another wire type: kept as unknown as well
    i64: str = betterproto.string_field(1)


def random_leaf():
    return Leaf(
        x=rnd.choice([0, 1, -1, 2**31 - 1, -(2**31)]),
        names=[rnd.choice(["", "a", "häß", "x" * 200]) for _ in range(rnd.randrange(3))],
    )


def random_top():
    kw = {}
    if rnd.random() < 0.5:
        kw["i64"] = rnd.choice([0, 1, -1, 2**63 - 1, -(2**63)])
    if rnd.random() < 0.5:
        kw["f64"] = rnd.choice([0, 1, 2**64 - 1])
    if rnd.random() < 0.5:
        kw["s"] = rnd.choice(["", "hello", "€" * 50])
    if rnd.random() < 0.5:
        kw["f32"] = rnd.choice([0, -1, 2**31 - 1, -(2**31)])
    if rnd.random() < 0.5:
        kw["mid"] = rnd.choice(
            [Mid(), Mid(n=-5), Mid(leaf=random_leaf()), Mid(leaf=Leaf(), n=2**62)]
        )
    if rnd.random() < 0.5:
        kw["nums"] = [rnd.choice([0, 1, 300, 2**32 - 1]) for _ in range(rnd.randrange(4))]
    if rnd.random() < 0.5:
        kw["leaves"] = [rnd.choice([Leaf(), random_leaf()]) for _ in range(rnd.randrange(3))]
    if rnd.random() < 0.5:
        kw["by_name"] = {
            rnd.choice(["", "k", "kk"]): rnd.choice([Leaf(), random_leaf()])
            for _ in range(rnd.randrange(3))
        }
    if rnd.random() < 0.5:
        kw["counts"] = {
            rnd.choice([0, 1, -1, 7]): rnd.choice([0, 5, -(2**40)])
            for _ in range(rnd.randrange(3))
        }
    pick = rnd.choice([None, "a", "b", "c", "e"])
    if pick == "a":
        kw["a"] = rnd.choice([0, 3, -3])
    elif pick == "b":
        kw["b"] = rnd.choice(["", "bee"])
    elif pick == "c":
        kw["c"] = rnd.choice([Leaf(), random_leaf()])
    elif pick == "e":
        kw["e"] = Empty()
    if rnd.random() < 0.5:
        kw["color"] = rnd.choice([Color.ZERO, Color.RED, Color.NEG])
    if rnd.random() < 0.5:
        kw["opt"] = rnd.choice([0, 9, -9])
    if rnd.random() < 0.5:
        kw["d"] = rnd.choice([0.0, 1.5, -2.25, float("inf"), 1e300])
    if rnd.random() < 0.5:
        kw["blob"] = rnd.choice([b"", b"\x00\xff", rnd.randbytes(300)])
    if rnd.random() < 0.3:
        kw["empty"] = Empty()
    if rnd.random() < 0.5:
        kw["flag"] = rnd.choice([False, True])
    if rnd.random() < 0.5:
        kw["dbls"] = [rnd.choice([0.0, -1.0, 2.5]) for _ in range(rnd.randrange(3))]
    return Top(**kw)


def variants(msg):
    """constructed / decoded from bytes / loaded from a dict"""
    yield msg
    yield Top().parse(bytes(msg))
    yield Top().from_dict(msg.to_dict())


def presence(m):
    if isinstance(m, Top):
        return (
            betterproto.which_one_of(m, "pick"),
            {f: m.is_set(f) for f in ("mid", "empty", "opt", "c", "e")},
            m.mid.is_set("leaf") if m.is_set("mid") else None,
        )
    return {f: m.is_set(f) for f in ("s", "mid", "i64")}


def c_roundtrip(m, protocol):
    return pickle.loads(pickle.dumps(m, protocol=protocol))


def py_roundtrip(m, protocol):
    buf = io.BytesIO()
    pickle._Pickler(buf, protocol).dump(m)
    return pickle._Unpickler(io.BytesIO(buf.getvalue())).load()


class OldStylePickle:
    """Pickles like Message used to: a call of FromString on the wire bytes."""

    def __init__(self, m):
        self.m = m

    def __reduce__(self):
        return (type(self.m).FromString, (bytes(self.m),))


def check_pickle_of(m):
    data = bytes(m)
    pres = presence(m)
    unknown = m._unknown_fields
    for protocol in range(0, pickle.HIGHEST_PROTOCOL + 1):
        for rt in (c_roundtrip, py_roundtrip):
            c = rt(m, protocol)
            assert type(c) is type(m)
            assert c is not m
            assert c == m and m == c
            assert bytes(c) == data
            assert presence(c) == pres
            assert c._unknown_fields == unknown
            # an unpickled message was parsed: it counts as received
            assert betterproto.serialized_on_wire(c) is True
            assert len(c) == len(data)
    # the original is untouched by pickling
    assert bytes(m) == data and presence(m) == pres
    # getstate / setstate are the wire format
    assert m.__getstate__() == data
    fresh = type(m)()
    fresh.__setstate__(data)
    assert fresh == m and bytes(fresh) == data and presence(fresh) == pres
    # reduce is (callable, args[, state]) and replays to an equal message
    red = m.__reduce__()
    rebuilt = red[0](*red[1])
    if len(red) > 2 and red[2] is not None:
        rebuilt.__setstate__(red[2])
    assert rebuilt == m and bytes(rebuilt) == data and presence(rebuilt) == pres
    # old pickles keep loading
    old = pickle.loads(pickle.dumps(OldStylePickle(m)))
    assert type(old) is type(m) and old == m and bytes(old) == data
    # inside containers, with sharing
    box = pickle.loads(pickle.dumps({"k": [m, m]}))
    assert box["k"][0] is box["k"][1] and box["k"][0] == m
    # independence
    c = c_roundtrip(m, pickle.HIGHEST_PROTOCOL)
    if isinstance(c, Top):
        c.s = "changed"
        c.mid.leaf.names.append("new")
        c.nums.append(7)
        c.by_name["zz"] = Leaf(x=1)
        for leaf in c.leaves:
            leaf.x = 99
        c.b = "switched"
    else:
        c.s = "changed"
        c.mid.n = 12345
    assert bytes(m) == data and presence(m) == pres


def check_pickling():
    n = 0
    fixed = [
        Top(),
        Top(a=0),
        Top(b=""),
        Top(c=Leaf()),
        Top(e=Empty()),
        Top(mid=Mid()),
        Top(empty=Empty()),
        Top(opt=0),
        Top(color=Color.NEG),
        Top(leaves=[Leaf(), Leaf()]),
        Top(by_name={"": Leaf()}, counts={0: 0}),
        Top().parse(b"\x2a\x00"),  # present but empty mid
        Top().parse(b"\x2a\x02\x0a\x00"),  # mid with a present but empty leaf
        Top().parse(b"\x92\x01\x00"),  # present Empty child
    ]
    for m in fixed:
        check_pickle_of(m)
        n += 1
    # a message whose child was only materialised by reads
    m = Top(s="x")
    m.mid.leaf.names
    m.empty
    bytes(m), m.to_dict(), len(m)
    check_pickle_of(m)
    # a child filled in place
    m = Top()
    m.mid.leaf.names.append("deep")
    check_pickle_of(m)
    for _ in range(60):
        base = random_top()
        for m in variants(base):
            check_pickle_of(m)
            n += 1
        # unknown fields: decode with a class that knows only part of the schema
        sub = TopSubset().parse(bytes(base))
        assert bytes(sub) is not None
        check_pickle_of(sub)
        # all of the data survives, in some order
        assert sorted(f.raw for f in parse_fields(bytes(sub))) == sorted(
            f.raw for f in parse_fields(bytes(base))
        )
        n += 1
    return n


# --------------------------------------------------------------------------- #
# load() on streams: sizes, delimiters, no over-read
# --------------------------------------------------------------------------- #
def check_stream_loading():
    msgs = [random_top() for _ in range(30)] + [Top(), Top(a=0), Top(mid=Mid())]
    stream = io.BytesIO()
    for m in msgs:
        m.dump(stream, betterproto.SIZE_DELIMITED)
    stream.write(b"TAIL")
    stream.seek(0)
    for m in msgs:
        got = Top().load(stream, betterproto.SIZE_DELIMITED)
        assert got == m and bytes(got) == bytes(m)
    assert stream.read() == b"TAIL"
    # explicit sizes; size 0 consumes nothing
    for m in msgs:
        data = bytes(m)
        s = io.BytesIO(data + b"\x08\x01")
        got = Top().load(s, len(data))
        assert got == m and s.tell() == len(data)
    s = io.BytesIO(b"\x08\x01")
    assert Top().load(s, 0) == Top() and s.tell() == 0
    # a size that ends inside a field / beyond the stream is an error
    data = bytes(Top(s="hello", i64=5))
    for size in range(1, len(data) + 3):
        s = io.BytesIO(data)
        try:
            Top().load(s, size)
            ok = True
        except (ValueError, EOFError):
            ok = False
        assert ok == (size in (2, len(data))), (size, ok)
    # errors surface through parse / FromString with the same types and texts
    for data, exc, text in [
        (b"\x00", ValueError, "Invalid field number 0."),
        (b"\x0b", ValueError, "Unsupported wire type 3 in field 1."),
        (b"\x0c", ValueError, "Unsupported wire type 4 in field 1."),
        (b"\x7e", ValueError, "Unsupported wire type 6 in field 15."),
        (b"\x7f", ValueError, "Unsupported wire type 7 in field 15."),
        (b"\x08", EOFError, None),
        (b"\x09\x00", EOFError, None),
        (b"\x0d\x00", EOFError, None),
        (b"\x1a\x05ab", EOFError, None),
        (b"\x1a", EOFError, None),
        (b"\x80", EOFError, None),
        (b"\x08" + b"\x80" * 10 + b"\x01", ValueError, "Too many bytes when decoding varint."),
    ]:
        for fn in (Top().parse, Top.FromString):
            try:
                fn(data)
            except exc as e:
                if text is not None:
                    assert str(e) == text, (data, str(e))
            else:
                raise AssertionError(f"no error for {data!r}")


# --------------------------------------------------------------------------- #
# google.protobuf as an independent encoder
# --------------------------------------------------------------------------- #
def check_against_google():
    from google.protobuf import descriptor_pb2, descriptor_pool, message_factory

    fd = descriptor_pb2.FileDescriptorProto()
    fd.name = "c14_keep1.proto"
    fd.package = "c14k1"
    fd.syntax = "proto3"
    F = descriptor_pb2.FieldDescriptorProto
    leaf = fd.message_type.add()
    leaf.name = "Leaf"
    leaf.field.add(name="x", number=1, type=F.TYPE_INT32, label=F.LABEL_OPTIONAL)
    leaf.field.add(name="names", number=2, type=F.TYPE_STRING, label=F.LABEL_REPEATED)
    top = fd.message_type.add()
    top.name = "Top"
    top.field.add(name="i64", number=1, type=F.TYPE_INT64, label=F.LABEL_OPTIONAL)
    top.field.add(name="f64", number=2, type=F.TYPE_FIXED64, label=F.LABEL_OPTIONAL)
    top.field.add(name="s", number=3, type=F.TYPE_STRING, label=F.LABEL_OPTIONAL)
    top.field.add(name="f32", number=4, type=F.TYPE_SFIXED32, label=F.LABEL_OPTIONAL)
    top.field.add(name="nums", number=6, type=F.TYPE_UINT32, label=F.LABEL_REPEATED)
    top.field.add(
        name="leaves",
        number=7,
        type=F.TYPE_MESSAGE,
        label=F.LABEL_REPEATED,
        type_name=".c14k1.Leaf",
    )
    top.field.add(name="d", number=16, type=F.TYPE_DOUBLE, label=F.LABEL_OPTIONAL)
    top.field.add(name="blob", number=17, type=F.TYPE_BYTES, label=F.LABEL_OPTIONAL)
    pool = descriptor_pool.DescriptorPool()
    pool.Add(fd)
    GTop = message_factory.GetMessageClass(pool.FindMessageTypeByName("c14k1.Top"))

    for _ in range(200):
        g = GTop()
        g.i64 = rnd.choice([0, 1, -1, 2**63 - 1, -(2**63)])
        g.f64 = rnd.choice([0, 1, 2**64 - 1])
        g.s = rnd.choice(["", "hello", "€" * 70])
        g.f32 = rnd.choice([0, -1, 2**31 - 1])
        g.nums.extend(rnd.choice([0, 1, 300, 2**32 - 1]) for _ in range(rnd.randrange(4)))
        for _ in range(rnd.randrange(3)):
            leaf = g.leaves.add()
            leaf.x = rnd.choice([0, -7, 2**31 - 1])
            leaf.names.extend(rnd.choice(["", "n", "m" * 130]) for _ in range(rnd.randrange(3)))
        g.d = rnd.choice([0.0, 1.5, -2.25])
        g.blob = rnd.choice([b"", b"\x00\xff", rnd.randbytes(200)])
        data = g.SerializeToString()
        m = Top.FromString(data)
        assert (m.i64, m.f64, m.s, m.f32, m.d, m.blob) == (
            g.i64,
            g.f64,
            g.s,
            g.f32,
            g.d,
            g.blob,
        )
        assert m.nums == list(g.nums)
        assert [(leaf.x, leaf.names) for leaf in m.leaves] == [
            (leaf.x, list(leaf.names)) for leaf in g.leaves
        ]
        # and back: google reads what an unpickled copy encodes
        c = pickle.loads(pickle.dumps(m))
        g2 = GTop.FromString(bytes(c))
        assert g2 == g
        # the splitter delivers exactly the bytes google wrote
        fields, err = lib_split(data)
        assert err is None and b"".join(f[3] for f in fields) == data
        # a class that knows nothing keeps everything as unknown fields
        e = Empty.FromString(data)
        assert bytes(e) == data and bytes(pickle.loads(pickle.dumps(e))) == data
        assert bytes(copy.deepcopy(e)) == data


def main():
    a = check_splitter()
    b = check_pickling()
    check_stream_loading()
    check_against_google()
    print(f"ok: {a} splitter inputs, {b} pickled messages")


if __name__ == "__main__":
    main()
